"""Reference map (the specification side of C20/C21/C24), written directly from the property
statements, independent of the Lean model and of the Go code structure:

* a channel is (epoch, top, stream entries, key -> entry); the state is the fold of the unsuppressed
  operations; checks apply in the order version -> key mode -> compare-and-swap; a suppressed operation
  changes nothing (except the documented TTL refresh of `if_new` + RefreshTTLOnSuppress) and broadcasts
  nothing; every unsuppressed operation of a stream-backed channel appends exactly one entry with offset
  top+1 and is broadcast once with that offset;
* ReadState returns the entries in the channel's sort order strictly after the cursor, at most `limit`
  of them, with a cursor iff more remain;
* at every sweep (whole seconds) every key whose deadline has passed and was not refreshed is removed
  exactly once (one stream entry in stream-backed modes, one broadcast), in deadline order.

It consumes the op lines of the line protocol (lean/Drivers/C20.lean) and produces the same canonical
output lines, so it doubles as the generator's view of the state.
"""

I64MAX = 2 ** 63 - 1
I64MIN = -2 ** 63


def kvs(ws):
    d = {}
    for w in ws:
        if "=" in w:
            k, v = w.split("=", 1)
            d[k] = v
    return d


def unhex(x):
    return b"" if x == "-" else bytes.fromhex(x)


def hx(b):
    return b.hex() if b else "-"


def parse_int64(b):
    """strconv.ParseInt(s, 10, 64) with the error dropped."""
    s = b
    neg = False
    if s[:1] in (b"+", b"-"):
        neg = s[:1] == b"-"
        s = s[1:]
    if not s or any(c < 48 or c > 57 for c in s):
        return 0
    n = int(s.decode())
    if neg:
        return I64MIN if n > 2 ** 63 else -n
    return I64MAX if n > I64MAX else n


class Cfg:
    def __init__(self, mode, ttl, size, ordered):
        self.mode, self.ttl, self.size, self.ordered = mode, ttl, size, ordered
        self.valid = True
        if mode not in "ERP":
            self.valid = False
        elif mode in "ER" and ttl <= 0:
            self.valid = False
        elif mode == "P" and ttl != 0:
            self.valid = False
        elif mode == "E" and size > 0:
            self.valid = False
        elif mode != "E" and size < 0:
            self.valid = False
        self.has_stream = mode in "RP"
        if self.valid and self.has_stream and size == 0:
            self.size = 100


class Chan:
    def __init__(self, epoch):
        self.epoch = epoch
        self.top = 0
        self.stream = []   # pub dicts
        self.state = {}    # key bytes -> entry dict(pub, expire, ver, vep)
        self.ordered = False


def fmt_pub(p):
    return "%s/%d/%d/%d/%d/%d/%d" % (hx(p["key"]), p["off"], 1 if p["rm"] else 0, p["data"], p["tag"], p["score"], p["time"])


def fmt_pubs(ps):
    return ",".join(fmt_pub(p) for p in ps) if ps else "-"


class Ref:
    def __init__(self):
        self.cfgs = {}
        self.chans = {}
        self.cache = {}
        self.nepoch = 0
        self.now = 0
        self.hooks = []   # (ch, key, kind, op line): one-shot reactions to the sweeper's removal of (ch, key)

    # ------------------------------------------------------------------ helpers
    def ep(self, e):
        return "-" if e is None else "E%d" % e

    def pos(self, c):
        return "%d:%s" % (c.top, self.ep(c.epoch))

    def parse_pos(self, x):
        if x == "-":
            return None
        o, e = x.split(":")
        if e == "-":
            return (int(o), None)
        k = int(e[1:])
        return (int(o), k if k < self.nepoch else ("bogus", k))

    def cfg(self, ch):
        return self.cfgs.get(ch) or Cfg("U", 0, 0, False)

    def create(self, ch):
        c = Chan(self.nepoch)
        self.nepoch += 1
        self.chans[ch] = c
        return c

    def append(self, c, cfg_size, p):
        c.top += 1
        p = dict(p, off=c.top)
        c.stream.append(p)
        if len(c.stream) > cfg_size:
            c.stream = c.stream[len(c.stream) - cfg_size:]
        return p

    def bc(self, ch, p, posstr, delta=False, prev=None):
        return "%d/%s/%s/%d/%s" % (ch, fmt_pub(p), posstr, 1 if delta else 0,
                                   "-" if prev is None else "%d.%d" % (prev["off"], prev["data"]))

    # ------------------------------------------------------------------ sweeps
    def sweep(self, t):
        """every key whose deadline passed is removed exactly once, in deadline order."""
        due = []
        for ch, c in self.chans.items():
            for k, e in c.state.items():
                if 0 < e["expire"] <= t:
                    due.append((e["expire"], ch, k))
        due.sort()
        out = []
        for d, ch, k in due:
            # operations may run between two removals of one sweep (`hook` lines): a key that was refreshed,
            # republished, removed or cleared in the meantime is not removed (its deadline is no longer `d`)
            c = self.chans.get(ch)
            e = c.state.get(k) if c is not None else None
            if e is None or e["expire"] != d:
                continue
            del c.state[k]
            cfg = self.cfg(ch)
            p = {"key": k, "off": 0, "rm": True, "data": 0, "tag": e["pub"]["tag"], "score": 0, "time": t}
            if cfg.valid and cfg.has_stream:
                p = self.append(c, cfg.size, p)
            out.append(self.bc(ch, p, self.pos(c)))
            for i, hk in enumerate(self.hooks):
                if hk[0] == ch and hk[1] == k:
                    del self.hooks[i]
                    # the hooked operation follows the removal (its state change, stream entry and broadcast):
                    # `in` runs inside the removal's HandlePublication call, `co` concurrently with it — the
                    # channel's publish lock orders it after the removal has been dispatched
                    ws = hk[3].split()
                    kv = kvs(ws[1:])
                    if ws[0] in ("pub", "rm", "clear"):
                        res, bcs = getattr(self, "op_" + ws[0])(int(kv["ch"]), kv)
                        out += bcs
                        out.append("hk:%s:%s" % (kv["ch"], res.replace(" ", ";")))
                    else:
                        out.append("hk:bad-op")
                    break
        return out

    def advance(self, dt):
        target = self.now + dt
        out = []
        t = (self.now // 1000 + 1) * 1000
        while t <= target:
            self.now = t
            out += self.sweep(t)
            t += 1000
        self.now = target
        return out

    # ------------------------------------------------------------------ ops
    def line(self, line):
        ws = line.split()
        cmd = ws[0]
        if cmd == "reset":
            self.__init__()
            for w in ws[1:]:
                c, v = w.split("=")
                m, ttl, size, o = v.split(":")
                self.cfgs[int(c[1:])] = Cfg(m, int(ttl), int(size), o == "1")
            return "ok"
        head = ws[1:ws.index("|")] if "|" in ws else ws[1:]
        kv = kvs(head)
        sw = self.advance(int(kv["dt"]))
        sws = ",".join(sw) if sw else "-"
        if cmd == "adv":
            return "sw=%s ok bc=-" % sws
        if cmd == "hook":
            if "|" not in ws or kv.get("kind") not in ("in", "co"):
                return "bad-op"
            self.hooks.append((int(kv["ch"]), unhex(kv["key"]), kv["kind"], " ".join(ws[ws.index("|") + 1:])))
            return "sw=%s ok bc=-" % sws
        ch = int(kv["ch"])
        res, bcs = getattr(self, "op_" + cmd)(ch, kv)
        return "sw=%s %s bc=%s" % (sws, res, ",".join(bcs) if bcs else "-")

    def upd(self, posstr, sup="-", cur="-"):
        return "ok pos=%s sup=%s cur=%s" % (posstr, sup, cur)

    def cas_mismatch(self, c, key, cas):
        """None = passes; else the `cur` string."""
        if cas is None:
            return None
        e = c.state.get(key)
        if e is None:
            return "-"
        if e["pub"]["off"] != cas[0] or c.epoch != cas[1]:
            return "%d.%d" % (e["pub"]["off"], e["pub"]["data"])
        return None

    def op_pub(self, ch, kv):
        cfg = self.cfg(ch)
        if not cfg.valid:
            return "err=config", []
        key = unhex(kv["key"])
        cas = self.parse_pos(kv["cas"])
        ver, vep, idem, ittl = int(kv["ver"]), int(kv["vep"]), int(kv["idem"]), int(kv["ittl"])
        if cfg.mode == "E":
            if cas is not None:
                return "err=cas-ephemeral", []
            if ver > 0:
                return "err=version-ephemeral", []
        if idem:
            hit = self.cache.get((ch, idem))
            if hit and hit[1] > self.now:
                return self.upd(hit[0], "idempotency"), []
        c = self.chans.get(ch) or self.create(ch)
        if cfg.ordered:
            c.ordered = True
        e = c.state.get(key) if key else None
        delta = kv["delta"] == "1"
        prev = e["pub"] if (delta and e) else None
        # 1. version
        if cfg.has_stream and key and ver > 0 and e is not None:
            if (vep == 0 or vep == e["vep"]) and ver <= e["ver"]:
                return self.upd(self.pos(c), "version"), []
        # 2. key mode
        if key and kv["mode"] == "n" and e is not None:
            if kv["rtos"] == "1" and cfg.ttl > 0:
                e["expire"] = self.now + cfg.ttl   # the documented effect of a suppressed publish
            return self.upd(self.pos(c), "key_exists"), []
        if key and kv["mode"] == "x" and e is None:
            return self.upd(self.pos(c), "key_not_found"), []
        # 3. CAS
        if key:
            mm = self.cas_mismatch(c, key, cas)
            if mm is not None:
                return self.upd(self.pos(c), "position_mismatch", mm), []
        # apply
        p = {"key": key, "off": c.top, "rm": False, "data": int(kv["data"]), "tag": int(kv["tag"]),
             "score": int(kv["score"]), "time": self.now}
        if cfg.has_stream:
            p = self.append(c, cfg.size, p)
        elif not key:
            p["off"] = 0
        if key:
            if ver == 0 and e is not None:
                ver, vep = e["ver"], e["vep"]
            c.state[key] = {"pub": p, "expire": self.now + cfg.ttl if cfg.ttl > 0 else 0, "ver": ver, "vep": vep}
        posstr = self.pos(c)
        if idem:
            self.cache[(ch, idem)] = (posstr, self.now + (ittl or 300000))
        return self.upd(posstr), [self.bc(ch, p, posstr, delta, prev)]

    def op_rm(self, ch, kv):
        cfg = self.cfg(ch)
        if not cfg.valid:
            return "err=config", []
        key = unhex(kv["key"])
        cas = self.parse_pos(kv["cas"])
        idem, ittl, tag = int(kv["idem"]), int(kv["ittl"]), int(kv["tag"])
        if cfg.mode == "E" and cas is not None:
            return "err=cas-ephemeral", []
        if idem:
            hit = self.cache.get((ch, idem))
            if hit and hit[1] > self.now:
                return self.upd(hit[0], "idempotency"), []
        c = self.chans.get(ch)
        if c is None:
            return self.upd("0:-", "position_mismatch" if cas is not None else "key_not_found"), []
        mm = self.cas_mismatch(c, key, cas)
        if mm is not None:
            return self.upd(self.pos(c), "position_mismatch", mm), []
        e = c.state.get(key)
        if e is None:
            return self.upd(self.pos(c), "key_not_found"), []
        del c.state[key]
        p = {"key": key, "off": 0, "rm": True, "data": 0, "tag": tag or e["pub"]["tag"], "score": 0, "time": self.now}
        if cfg.has_stream:
            p = self.append(c, cfg.size, p)
        posstr = self.pos(c)
        if idem:
            self.cache[(ch, idem)] = (posstr, self.now + (ittl or 300000))
        return self.upd(posstr), [self.bc(ch, p, posstr)]

    def op_clear(self, ch, kv):
        self.chans.pop(ch, None)
        for k in [k for k in self.cache if k[0] == ch]:
            del self.cache[k]
        return "ok", []

    def sorted_entries(self, c, asc):
        if c.ordered:
            ks = sorted(c.state, key=lambda k: (c.state[k]["pub"]["score"], k), reverse=not asc)
        else:
            ks = sorted(c.state)
        return ks

    def op_state(self, ch, kv):
        cfg = self.cfg(ch)
        if not cfg.valid:
            return "err=config", []
        rev = self.parse_pos(kv["rev"])
        c = self.chans.get(ch)
        if c is None:
            c = self.create(ch)
            if rev is not None and rev[1] is not None:
                return "err=unrecoverable pos=" + self.pos(c), []
            return "ok pos=%s cursor=- pubs=-" % self.pos(c), []
        if rev is not None and rev[1] != c.epoch:
            return "err=unrecoverable pos=" + self.pos(c), []
        key = unhex(kv["key"])
        lim = int(kv["lim"])
        if key:
            e = c.state.get(key)
            return "ok pos=%s cursor=- pubs=%s" % (self.pos(c), fmt_pubs([e["pub"]] if e else [])), []
        if lim == 0:
            return "ok pos=%s cursor=- pubs=-" % self.pos(c), []
        asc = kv["asc"] == "1"
        ks = self.sorted_entries(c, asc)
        cur = unhex(kv["cur"])
        if cur:
            if c.ordered:
                i = cur.find(b"\x00")
                cs, ck = (parse_int64(cur[:i]), cur[i + 1:]) if i >= 0 else (0, b"")
                el = lambda k: (c.state[k]["pub"]["score"], k)
                ks = [k for k in ks if (el(k) > (cs, ck) if asc else el(k) < (cs, ck))]
            else:
                ks = [k for k in ks if k > cur]
        cursor = "-"
        if lim > 0 and len(ks) > lim:
            ks = ks[:lim]
            last = ks[-1]
            cursor = hx(str(c.state[last]["pub"]["score"]).encode() + b"\x00" + last) if c.ordered else hx(last)
        return "ok pos=%s cursor=%s pubs=%s" % (self.pos(c), cursor, fmt_pubs([c.state[k]["pub"] for k in ks])), []

    def op_pages(self, ch, kv):
        """every key exactly once, in the channel's sort order, pages of `limit` (spec of the loop)."""
        cfg = self.cfg(ch)
        if not cfg.valid:
            return "err=config", []
        lim = int(kv["lim"])
        c = self.chans.get(ch) or self.create(ch)
        if lim == 0:
            return "ok pos=%s n=1 done=1 sizes=0 keys=-" % self.pos(c), []
        ks = self.sorted_entries(c, kv["asc"] == "1")
        if lim < 0 or not ks:
            sizes = [len(ks)]
        else:
            sizes = [lim] * (len(ks) // lim) + ([len(ks) % lim] if len(ks) % lim else [])
        done = 1
        if len(sizes) > 64:
            sizes, done = sizes[:64], 0
            ks = ks[:64 * lim]
        return "ok pos=%s n=%d done=%d sizes=%s keys=%s" % (self.pos(c), len(sizes), done, ",".join(map(str, sizes)),
                                                  ",".join(hx(k) for k in ks) if ks else "-"), []

    def op_stream(self, ch, kv):
        c = self.chans.get(ch)
        if c is None:
            c = self.create(ch)
            return "ok pos=%s pubs=-" % self.pos(c), []
        since = self.parse_pos(kv["since"])
        lim = int(kv["lim"])
        rev = kv["rev"] == "1"
        items = list(c.stream)
        if since is None:
            if rev:
                items.reverse()
        else:
            if since[1] is not None and since[1] != c.epoch:
                return "err=unrecoverable", []
            if not rev:
                items = [p for p in items if p["off"] > since[0]]
            else:
                start = since[0] - 1
                if since[0] == 0 or start > c.top or not any(p["off"] == start for p in items):
                    items = []
                else:
                    items = [p for p in reversed(items) if p["off"] <= start]
        if lim == 0:
            items = []
        elif lim > 0:
            items = items[:lim]
        return "ok pos=%s pubs=%s" % (self.pos(c), fmt_pubs(items)), []


def run(lines):
    r = Ref()
    out = []
    for l in lines:
        try:
            out.append(r.line(l))
        except Exception as e:  # malformed op line
            out.append("bad-op")
    return out
