"""Shared by the C20 / C21 / C24 checks: running the op lines three ways (real MemoryMapBroker through
the synctest harness, the Lean model driver, the Python reference map), comparing, shrinking."""
import os
import sys

sys.path.insert(0, os.path.dirname(os.path.abspath(__file__)))
import refmap  # noqa: E402
from vlib.core import ddmin  # noqa: E402

HARNESS = ["props/C20/harness/zz_verif_c20_test.go"]
TEST = "TestVerifC20"
DRIVER = "drv_c20"


def build(ctx):
    return ctx.go_test_binary(".", HARNESS)


def norm(line):
    """Canonical form for comparison: sweep broadcasts of different channels carry no mutual order
    (equal deadlines in different channels pop from the heap in an unspecified order): group by channel."""
    line = line.rstrip()
    if not line.startswith("sw=") or line.startswith("sw=- "):
        return line
    sw, rest = line.split(" ", 1)
    items = sw[3:].split(",")
    def chan_of(b):
        if b.startswith("hk:"):          # result of a hooked operation: belongs to that operation's channel
            c = b.split(":")[1]
            return int(c) if c.isdigit() else 99
        c = b.split("/", 1)[0]
        return int(c) if c.isdigit() else 99
    items = sorted(items, key=chan_of)
    return "sw=" + ",".join(items) + " " + rest


def scenarios(ops):
    """split op lines into scenarios (each starts with a reset line); returns list of (start index, lines)."""
    out, cur, start = [], [], 0
    for i, l in enumerate(ops):
        if l.startswith("reset") and cur:
            out.append((start, cur))
            cur, start = [], i
        if not cur:
            start = i
        cur.append(l)
    if cur:
        out.append((start, cur))
    return out


def run_impl(ctx, binary, ops):
    return [norm(x) for x in ctx.go_run(binary, TEST, ops)]


_driver_path = {}


def run_model(ctx, ops):
    # build the driver once per check run; later calls (shrinking) run the binary directly
    if DRIVER not in _driver_path:
        _driver_path[DRIVER] = ctx.lean_driver_build(DRIVER)
    path = _driver_path[DRIVER]
    if path is None:
        return None
    return [norm(x) for x in ctx.run_lines([path], ops)]


def run_ref(ops):
    return [norm(x) for x in refmap.run(ops)]


def fields(line):
    """split an output line into named parts for signatures."""
    d = {}
    for w in line.split():
        if "=" in w:
            k, v = w.split("=", 1)
            d[k] = v
        else:
            d.setdefault("status", w)
    return d


def diff_field(a, b):
    fa, fb = fields(a), fields(b)
    for k in ("status", "err", "sup", "pos", "cur", "cursor", "pubs", "bc", "sw"):
        if fa.get(k) != fb.get(k):
            return k
    return "other"


def first_diff(xs, ys):
    for i in range(max(len(xs), len(ys))):
        a = xs[i] if i < len(xs) else "<missing>"
        b = ys[i] if i < len(ys) else "<missing>"
        if a != b:
            return i
    return None


def shrink_scenario(lines, fails, budget=70):
    """ddmin over the op lines after the reset line; `fails(lines) -> bool`."""
    head, body = lines[0], lines[1:]
    count = [0]

    def f(sub):
        count[0] += 1
        if count[0] > budget:
            return False
        return fails([head] + list(sub))
    if not body or not fails(lines):
        return lines
    try:
        small = ddmin(body, f)
    except AssertionError:
        return lines
    return [head] + list(small)


def sig(kind, op, a, b):
    return {"kind": kind, "op": op.split()[0], "field": diff_field(a, b)}


def compare_all(ctx, binary, ops, what, nontrivial, extra_oracle=None, driver_name="Drivers/C20.lean (Model/MapHub.lean)",
                ref_proj=None):
    """Run ops three ways, record coverage, report deviations.
    what: text used in violation messages; nontrivial(lines, impl_lines) -> bool;
    extra_oracle(lines, impl_lines) -> None | (message, signature dict): a statement-level predicate evaluated on
    the implementation's output alone; ref_proj(line) -> line: projection applied to implementation and reference lines
    before they are compared (fields the property statement does not speak about).  Returns (nprop, ncorr, model_ok)."""
    proj = ref_proj or (lambda x: x)
    impl = run_impl(ctx, binary, ops)
    model = run_model(ctx, ops)
    ref = run_ref(ops)
    nprop = ncorr = 0
    for start, lines in scenarios(ops):
        n = len(lines)
        im = impl[start:start + n]
        rf = ref[start:start + n]
        for l, o in zip(lines, im):
            f = fields(o)
            ctx.count("op:" + l.split()[0])
            if "sup" in f:
                ctx.count("sup:" + f["sup"])
            if "err" in f:
                ctx.count("err:" + f["err"])
            if o.startswith("sw=") and not o.startswith("sw=- "):
                ctx.count("sweep-with-expiry")
            if o in ("PANIC", "<missing>", "SKIP") or " PANIC " in o:
                ctx.count("impl:panic-or-missing")
        ctx.evaluations += n - 1
        ctx.record(lines, nontrivial=nontrivial(lines, im))
        bad = None
        if extra_oracle is not None:
            bad = extra_oracle(lines, im)
        i = first_diff([proj(x) for x in im], [proj(x) for x in rf])
        if bad is not None or i is not None:
            nprop += 1
            if nprop <= 1:
                def fails(ls):
                    si = run_impl(ctx, binary, ls)
                    if extra_oracle is not None and extra_oracle(ls, si) is not None:
                        return True
                    return first_diff([proj(x) for x in si], [proj(x) for x in run_ref(ls)]) is not None
                small = shrink_scenario(lines, fails)
                si, sr = run_impl(ctx, binary, small), run_ref(small)
                eb = extra_oracle(small, si) if extra_oracle is not None else None
                if eb is not None:
                    ctx.violation("property", eb[0], signature=eb[1], replay={"ops": small, "impl": si, "reference": sr})
                else:
                    j = first_diff([proj(x) for x in si], [proj(x) for x in sr])
                    if j is None:
                        j = 0
                    a = si[j] if j < len(si) else "<missing>"
                    b = sr[j] if j < len(sr) else "<missing>"
                    ctx.violation("property", "%s: at `%s` impl `%s` reference `%s`" % (what, small[j], a, b),
                                  signature=sig("ref-diff", small[j], a, b),
                                  replay={"ops": small, "impl": si, "reference": sr, "first_diff_index": j})
        if model is not None:
            mo = model[start:start + n]
            k = first_diff(im, mo)
            if k is not None:
                ncorr += 1
                if ncorr <= 1 and nprop == 0:
                    def fails2(ls):
                        m2 = run_model(ctx, ls)
                        return m2 is not None and first_diff(run_impl(ctx, binary, ls), m2) is not None
                    small = shrink_scenario(lines, fails2)
                    si, sm = run_impl(ctx, binary, small), run_model(ctx, small)
                    j = first_diff(si, sm)
                    if j is None:
                        j = 0
                    a = si[j] if j < len(si) else "<missing>"
                    b = sm[j] if j < len(sm) else "<missing>"
                    ctx.violation("correspondence", "Lean model and implementation differ at `%s`: impl `%s` model `%s`" % (small[j], a, b),
                                  signature=sig("model-diff", small[j], a, b),
                                  replay={"ops": small, "impl": si, "model": sm,
                                          "correspondence": driver_name + " vs MemoryMapBroker"},
                                  no_input=(nprop == 0))
    ctx.traces_validated = len(ops)
    ctx.extra["scenarios_deviating_from_reference"] = nprop
    ctx.extra["scenarios_deviating_from_model"] = ncorr
    if getattr(ctx, "last_go_crash", None):
        ctx.notes.append("go harness: " + str(ctx.last_go_crash)[-300:])
    return nprop, ncorr, model is not None
