"""C11 — the connect reply is the first server message; dictionary encoder discipline.

Proof: lean/CentrifugeVerif/Props/C11.lean over Model/ConnProtoEncoder.lean.
Tie: a real Node + WebsocketHandler over httptest with a real WebSocket client; a Broker wrapper gates
Broker.Subscribe of a connect-time server-side subscription (the connect is parked after addClient,
before its reply); a recording DictionaryCompression engine marks encoded frames and can park inside
Encode; racing actors: Node.Publish / Node.Subscribe / Node.Unsubscribe / Node.Disconnect for the
user, an RPC answered from another goroutine, server- and client-side close.
Oracle: the statement on the client-side frame log and on the encoder's call log.
"""
import json
import os

HARNESS = ["props/C11/harness/root/zz_verif_c11_test.go"]


def fmt(d):
    return "race " + " ".join(f"{k}={d.get(k, 0)}" for k in ("dict", "rwq", "wt", "jl", "ncgate", "gate", "actor", "post", "encgate", "closer"))


def gen_case(rng):
    d = {"dict": rng.choice([0, 1, 1]), "rwq": rng.choice([0, 1]), "gate": rng.choice([0, 1, 1]),
         "actor": rng.choice(["none", "publish", "subscribe", "subscribe", "disconnect", "publish2"]),
         "post": rng.choice(["none", "publish", "rpc", "rpc"]), "encgate": 0, "closer": "none",
         "jl": rng.choice([0, 0, 1]), "ncgate": 0, "wt": rng.choice([0, 0, 1])}
    if d["dict"] and rng.random() < 0.08:
        d.update({"ncgate": 1, "gate": 0, "actor": "none", "post": "none"})
        return fmt(d)
    if rng.random() < 0.04:
        d["actor"] = "unsubscribe"
    if d["dict"] and d["post"] != "none" and rng.random() < 0.6:
        d["encgate"] = 1
        d["closer"] = rng.choice(["disconnect", "clientclose"])
    if d["actor"] == "disconnect":
        d["post"] = "none"
        d["encgate"], d["closer"] = 0, "none"
    return fmt(d)


def kvs(line):
    return dict(w.split("=", 1) for w in line.split() if "=" in w)


def enc_verdict(el, rwq):
    """the encoder-discipline part of the statement on the encoder call log"""
    depth = 0
    closed = False
    for e in el:
        if e == "enc+":
            if closed:
                return "Encode called after the encoder was closed", {"kind": "encode-after-close", "rwq": rwq}
            depth += 1
        elif e == "enc-":
            depth -= 1
        elif e == "close":
            if depth > 0:
                return "encoder closed while an Encode was in flight", {"kind": "close-during-encode", "rwq": rwq}
            closed = True
    return None


def oracle(op, out):
    if out.startswith("HARNESS-TIMEOUT") or out == "<missing>":
        return None
    cfg, kv = kvs(op), kvs(out)
    # one entry per transport write (WebSocket message); replies batched into it are joined with '+'
    msgs = [m.split("+") for m in kv.get("frames", "-").split(",") if m and m != "-"]
    fr = [f for m in msgs for f in m]
    notes = kv.get("notes", "-")
    ci = [i for i, f in enumerate(fr) if f in ("C", "ZC")]
    if ci and ci[0] != 0:
        first = fr[0].lstrip("Z").split(":")[0]
        return f"a {first} push was written before the connect reply (frames {fr})", \
            {"kind": "push-before-connect-reply", "push": first}
    if cfg.get("dict") == "1":
        if "ZC" in fr:
            return "the connect reply went through the dictionary encoder", {"kind": "connect-reply-encoded"}
        mi = [i for i, m in enumerate(msgs) if "C" in m]
        if mi:
            for m in msgs[mi[0] + 1:]:
                for f in m:
                    if not f.startswith("Z"):
                        return f"frame {f} after the connect reply bypassed the encoder", {"kind": "frame-not-encoded"}
        el = [e for e in kv.get("enc", "-").split(",") if e and e != "-"]
        ncl = el.count("close")
        if "new" in el and ncl != 1 and "encoder-never-closed" not in notes:
            return f"encoder closed {ncl} times", {"kind": "encoder-close-count", "n": ncl}
        if "new" in el and "encoder-never-closed" in notes:
            return "encoder never closed although the connection went away", {"kind": "encoder-never-closed"}
        return enc_verdict(el, cfg.get("rwq"))
    return None


def model_ops(op, out):
    """label sequences for the Lean driver that replay what the implementation did, with the expected answers"""
    cfg, kv = kvs(op), kvs(out)
    res = []
    msgs = [f for f in kv.get("frames", "-").split(",") if f and f != "-"]
    if msgs and all("+" not in m for m in msgs):
        labels = ["add"] + ["reply" if m.lstrip("Z") == "C" else "push" for m in msgs]
        want = "frames=" + ",".join(("Z" if m.startswith("Z") else "") + ("C" if m.lstrip("Z") == "C" else "P") for m in msgs)
        res.append((f"c dict={cfg.get('dict')} " + " ".join(labels), want))
    el = [e for e in kv.get("enc", "-").split(",") if e in ("enc+", "enc-", "close")]
    if cfg.get("dict") == "1" and el.count("close") == 1 and el.count("enc+") == el.count("enc-"):
        rwq = cfg.get("rwq") == "1"
        labels = []
        ci = el.index("close")
        late = sum(1 for e in el[ci:] if e == "enc+")      # Encodes that begin after Close loaded before it
        if late > 1:
            return res
        for i, e in enumerate(el):
            if e == "enc+":
                if rwq:
                    labels += (["dBegin"] if i > ci else ["dLoad", "dBegin"])
                else:
                    labels += ["qLock", "qBegin"]
            elif e == "enc-":
                labels.append("dEnd" if rwq else "qEnd")
            else:
                depth = el[:i].count("enc+") - el[:i].count("enc-")
                if rwq and late and depth == 0:
                    labels.append("dLoad")
                labels += ["closeWriter", "closeEncoder"]
        viol = 1 if enc_verdict(el, cfg.get("rwq")) else 0
        res.append((f"e rwq={cfg.get('rwq')} " + " ".join(labels), f"violated={viol}"))
    return res


def run(ctx):
    ctx.rule = ("random race scenarios: dictionary on/off x ReplyWithoutQueue x connect parked in Broker.Subscribe (after "
                "addClient) or not x racing actor (publish to the gated channel / to another server-side channel, "
                "Node.Subscribe, Node.Unsubscribe, Node.Disconnect) x post-connect traffic (publication, RPC answered from "
                "another goroutine) x Encode parked while the connection is closed by server or client; non-trivial = "
                "an actor ran or an Encode was gated; distinct = distinct (op, outcome)")
    ctx.assumptions = ["only the WebSocket transport (the only DictionaryAwareTransport) is driven; JSON protocol",
                       "a bounded wait decides whether close() is blocked behind a parked write (blocked = no overlap)"]
    proofs_ok = ctx.lean_obligations()
    binary = ctx.go_test_binary(".", HARNESS)
    if binary is None:
        ctx.violation("correspondence", "harness no longer builds against package centrifuge",
                      signature={"kind": "harness-build"}, replay={"log": getattr(ctx, "build_error", "")}, no_input=True)
        return
    here = os.path.dirname(__file__)
    known = []
    fpath = os.path.join(here, "findings.json")
    if os.path.exists(fpath) and not ctx.replay:
        known = json.load(open(fpath)).get("findings", [])
    if ctx.replay:
        ops = json.load(open(ctx.replay)).get("ops", [])
    else:
        ops = []
        for f in known:
            ops += f["replay"]["ops"]
        ops += [l.rstrip("\n") for l in open(os.path.join(here, "corpus.ops")) if l.strip() and not l.startswith("#")]
        ops += [gen_case(ctx.rng) for _ in range(ctx.scale(40, 600))]
    # scenarios are independent: 4 processes
    import subprocess
    from concurrent.futures import ThreadPoolExecutor
    from vlib.core import go_env
    nproc = 4 if len(ops) >= 8 else 1
    impl = ["<missing>"] * len(ops)

    def work(j):
        idxs = list(range(j, len(ops), nproc))
        fin, fout = os.path.join(ctx.tmp, f"p{j}.ops"), os.path.join(ctx.tmp, f"p{j}.out")
        open(fin, "w").write("\n".join(ops[i] for i in idxs) + "\n")
        e = go_env()
        e.update({"VERIF_OPS": fin, "VERIF_OUT": fout})
        try:
            subprocess.run([binary, "-test.run", "^TestVerifC11$", "-test.count=1", "-test.timeout=3000s"],
                           stdout=subprocess.PIPE, stderr=subprocess.STDOUT, text=True, env=e, timeout=3100, cwd=ctx.tmp)
        except subprocess.TimeoutExpired:
            ctx.notes.append("harness timeout")
        lines = open(fout).read().splitlines() if os.path.exists(fout) else []
        return idxs, lines
    with ThreadPoolExecutor(nproc) as ex:
        for idxs, lines in ex.map(work, range(nproc)):
            for i, l in zip(idxs, lines):
                impl[i] = l
    seen = set()
    for op, out in zip(ops, impl):
        if out.startswith("HARNESS-TIMEOUT") or out == "<missing>":
            ctx.count("dropped(harness timeout)")
            continue
        cfg = kvs(op)
        key = op + " -> " + out
        if key not in seen:
            seen.add(key)
            ctx.record(key, nontrivial=cfg.get("actor") != "none" or cfg.get("encgate") == "1")
        else:
            ctx.evaluations += 1
        for k in ("dict", "rwq", "wt", "jl", "ncgate", "gate", "actor", "post", "encgate", "closer"):
            ctx.count(f"{k}={cfg.get(k)}")
        for n in kvs(out).get("notes", "-").split(","):
            if n != "-":
                ctx.count("note:" + n)
        bad = oracle(op, out)
        if bad:
            ctx.violation("property", bad[0], signature=bad[1], replay={"ops": [op], "impl": [out]})
    # trace validation against the Lean transition systems: every observed frame sequence / encoder
    # call log must be a run of the model with the same encoded/raw pattern and the same verdict
    mops = []
    for op, out in zip(ops, impl):
        if not (out.startswith("HARNESS-TIMEOUT") or out == "<missing>"):
            for line, want in model_ops(op, out):
                mops.append((line, want, op, out))
    nval = 0
    if mops:
        mout = ctx.lean_run([m[0] for m in mops])
        if mout is None:
            proofs_ok = False
        else:
            for (line, want, op, out), got in zip(mops, mout):
                nval += 1
                if want not in got:
                    ctx.violation("correspondence", f"model does not reproduce the observed trace: `{line}` gives `{got}`, "
                                  f"implementation showed `{want}`", signature={"kind": "model-trace", "lts": line[0]},
                                  replay={"ops": [op], "impl": [out], "model_op": line, "model": got}, no_input=True)
    ctx.count("model-validated-traces", nval)
    ctx.traces_validated = nval
    for f in known:
        if f["id"] not in [k.get("id") for k in ctx.known_hits]:
            ctx.notes.append(f"finding {f['id']} did not reproduce on this tree")
    if not proofs_ok:
        ctx.proof_broken()
