//go:build verif

package centrifuge

// Verification harness for C11 (injected with `go test -overlay`, never part of the repo).
//
// A real Node + WebsocketHandler behind httptest, a real WebSocket client, and
//   * a Broker wrapper whose Subscribe parks on a gate for the channel "g": a connect with the
//     server-side subscription "g" is then parked *after* addClient (the client is registered in
//     the hub and the hub entry for "g" exists) and *before* the connect reply is written;
//   * a recording DictionaryCompression engine whose DictionaryConnection marks encoded frames
//     with a leading 'Z', logs `enc+`/`enc-`/`close`, and can park inside Encode on a gate.
// Op line:
//   race dict=0|1 rwq=0|1 wt=0|1 (timer-driven writer: ConnectReply.WriteDelay + WriteWithTimer) jl=0|1 ncgate=0|1 gate=0|1 actor=none|publish|subscribe|unsubscribe|disconnect|publish2 post=none|publish|rpc encgate=0|1 closer=none|disconnect|clientclose
//     gate=1   : connect carries the server-side subscription "g"; `actor` runs while the connect is
//                parked in Broker.Subscribe("g"); then the gate is released.
//     gate=0   : `actor` runs after the connect reply was received (control).
//     jl=1     : the connect-time server-side subscription "a" emits and pushes join/leave (the client's
//                own join push must follow the connect reply).
//     ncgate=1 : NewDictionaryConnection parks; the stale-connection timer is fired by hand, close() completes, then
//                the negotiation continues (the encoder installed afterwards must still be closed).
//     post     : after the connect reply: a publication into "g" / an RPC (answered from another
//                goroutine); with encgate=1 the first Encode parks until `closer` has run
//                (node.Disconnect or the client closing the socket), then is released.
// Output: `frames=<client side frame log> enc=<encoder log> notes=<…>`; frame log entries:
//   C (connect reply) pub:<ch> sub:<ch> unsub:<ch> rpc disc push ?, prefixed with Z when the frame
//   went through the encoder; replies batched into one transport write are joined with '+'.  HARNESS-TIMEOUT when a budget expired where progress was certain.

import (
	"bufio"
	"bytes"
	"context"
	"fmt"
	"net/http"
	"net/http/httptest"
	"os"
	"strings"
	"sync"
	"testing"
	"time"

	"github.com/centrifugal/centrifuge/internal/websocket"
	"github.com/centrifugal/protocol"
)

type verifC11Broker struct {
	*MemoryBroker
	armed   bool
	arrived chan struct{}
	release chan struct{}
}

func (b *verifC11Broker) Subscribe(chs ...string) error {
	for _, ch := range chs {
		if ch == "g" && b.armed {
			b.arrived <- struct{}{}
			<-b.release
		}
	}
	return b.MemoryBroker.Subscribe(chs...)
}

// hand-fired ClientTimerScheduler (used to let the stale-connection timer expire at a chosen moment)
type verifC11Timer struct {
	cb       func()
	canceled bool
}

func (t *verifC11Timer) Cancel() { t.canceled = true }

type verifC11Sched struct {
	mu     sync.Mutex
	timers []*verifC11Timer
}

func (ts *verifC11Sched) ScheduleTimer(d time.Duration, cb func()) TimerCanceler {
	ts.mu.Lock()
	defer ts.mu.Unlock()
	t := &verifC11Timer{cb: cb}
	ts.timers = append(ts.timers, t)
	return t
}

type verifC11Engine struct {
	mu      sync.Mutex
	log     []string
	gateOn  bool
	arrived chan struct{}
	release chan struct{}
	closeSig chan struct{}
	conns   int
	// ncGate parks NewDictionaryConnection (the dictionary negotiation inside connectCmd)
	ncGate    bool
	ncArrived chan struct{}
	ncRelease chan struct{}
}

func (e *verifC11Engine) ev(x string) {
	e.mu.Lock()
	e.log = append(e.log, x)
	e.mu.Unlock()
}

func (e *verifC11Engine) NewDictionaryConnection(p DictionaryConnectionParams) DictionaryConnection {
	e.mu.Lock()
	e.conns++
	e.mu.Unlock()
	e.ev("new")
	if e.ncGate {
		e.ncArrived <- struct{}{}
		<-e.ncRelease
	}
	return &verifC11Conn{e: e}
}

type verifC11Conn struct{ e *verifC11Engine }

func (c *verifC11Conn) Dictionary() *protocol.Dictionary {
	return &protocol.Dictionary{Id: "d1", DataB64: "ZGljdGlvbmFyeS1ieXRlcw=="} // JSON connections carry the bytes as base64
}

func (c *verifC11Conn) Encode(frame []byte) ([]byte, bool) {
	c.e.ev("enc+")
	c.e.mu.Lock()
	park := c.e.gateOn
	c.e.gateOn = false
	c.e.mu.Unlock()
	if park {
		c.e.arrived <- struct{}{}
		<-c.e.release
	}
	out := append([]byte("Z"), frame...)
	c.e.ev("enc-")
	return out, false
}

func (c *verifC11Conn) Close() {
	c.e.ev("close")
	select {
	case c.e.closeSig <- struct{}{}:
	default:
	}
}

func verifC11Classify(line []byte, enc bool) string {
	pre := ""
	if enc {
		pre = "Z"
	}
	rep, _ := protocol.NewJSONReplyDecoder(line).Decode()
	if rep == nil {
		return pre + "?"
	}
	switch {
	case rep.Connect != nil:
		return pre + "C"
	case rep.Rpc != nil:
		return pre + "rpc"
	case rep.Error != nil:
		return pre + fmt.Sprintf("err%d", rep.Error.Code)
	case rep.Push != nil:
		p := rep.Push
		switch {
		case p.Pub != nil:
			return pre + "pub:" + p.Channel
		case p.Join != nil:
			return pre + "join:" + p.Channel
		case p.Leave != nil:
			return pre + "leave:" + p.Channel
		case p.Subscribe != nil:
			return pre + "sub:" + p.Channel
		case p.Unsubscribe != nil:
			return pre + "unsub:" + p.Channel
		case p.Disconnect != nil:
			return pre + "disc"
		}
		return pre + "push"
	}
	return pre + "?"
}

func verifC11KV(ws []string) map[string]string {
	m := map[string]string{}
	for _, w := range ws {
		if i := strings.IndexByte(w, '='); i > 0 {
			m[w[:i]] = w[i+1:]
		}
	}
	return m
}

const verifC11Budget = 5 * time.Second

func verifC11Race(kv map[string]string) string {
	notes := []string{}
	note := func(x string) { notes = append(notes, x) }
	engine := &verifC11Engine{arrived: make(chan struct{}, 4), release: make(chan struct{}, 4), closeSig: make(chan struct{}, 8),
		ncGate: kv["ncgate"] == "1", ncArrived: make(chan struct{}, 2), ncRelease: make(chan struct{}, 2)}
	cfg := Config{LogLevel: LogLevelNone}
	if kv["dict"] == "1" {
		cfg.DictionaryCompression = engine
	}
	tsched := &verifC11Sched{}
	if kv["ncgate"] == "1" {
		cfg.ClientTimerScheduler = tsched
	}
	node, err := New(cfg)
	if err != nil {
		panic(err)
	}
	mb, err := NewMemoryBroker(node, MemoryBrokerConfig{})
	if err != nil {
		panic(err)
	}
	broker := &verifC11Broker{MemoryBroker: mb, armed: kv["gate"] == "1", arrived: make(chan struct{}, 4),
		release: make(chan struct{}, 4)}
	node.SetBroker(broker)
	gateSub := kv["gate"] == "1"
	trCh := make(chan *websocketTransport, 2)
	node.OnConnecting(func(ctx context.Context, e ConnectEvent) (ConnectReply, error) {
		rep := ConnectReply{Credentials: &Credentials{UserID: "u"}, ReplyWithoutQueue: kv["rwq"] == "1"}
		if kv["wt"] == "1" {
			// timer-driven writer: no writer goroutine, a flush timer armed by enqueue does the writes
			rep.WriteDelay = time.Millisecond
			rep.WriteWithTimer = true
		}
		if wt, ok := e.Transport.(*websocketTransport); ok {
			trCh <- wt
		}
		subs := map[string]SubscribeOptions{"a": {EmitJoinLeave: kv["jl"] == "1", PushJoinLeave: kv["jl"] == "1"}}
		if gateSub {
			subs["g"] = SubscribeOptions{}
		}
		rep.Subscriptions = subs
		return rep, nil
	})
	node.OnConnect(func(c *Client) {
		c.OnRPC(func(e RPCEvent, cb RPCCallback) {
			go cb(RPCReply{Data: []byte(`{}`)}, nil) // answered from another goroutine
		})
	})
	if err := node.Run(); err != nil {
		panic(err)
	}
	mux := http.NewServeMux()
	mux.Handle("/ws", NewWebsocketHandler(node, WebsocketConfig{}))
	srv := httptest.NewServer(mux)
	defer srv.Close()
	defer func() { _ = node.Shutdown(context.Background()) }()

	dialer := &websocket.Dialer{}
	conn, _, _, err := dialer.Dial("ws"+strings.TrimPrefix(srv.URL, "http")+"/ws", nil)
	if err != nil {
		return "HARNESS-TIMEOUT dial"
	}
	defer conn.Close()
	var fmu sync.Mutex
	frames := []string{}
	gotConnect := make(chan struct{}, 1)
	gotAny := make(chan struct{}, 64)
	closed := make(chan struct{})
	go func() {
		defer close(closed)
		for {
			_, m, err := conn.ReadMessage()
			if err != nil {
				return
			}
			enc := len(m) > 0 && m[0] == 'Z'
			if enc {
				m = m[1:]
			}
			// one WebSocket message = one transport write; several replies batched into it are joined
			// with '+' in the frame log
			parts := []string{}
			hasC := false
			for _, line := range bytes.Split(m, []byte("\n")) {
				if len(bytes.TrimSpace(line)) == 0 {
					continue
				}
				c := verifC11Classify(line, enc)
				parts = append(parts, c)
				if strings.HasSuffix(c, "C") {
					hasC = true
				}
			}
			if len(parts) == 0 {
				continue
			}
			fmu.Lock()
			frames = append(frames, strings.Join(parts, "+"))
			fmu.Unlock()
			if hasC {
				select {
				case gotConnect <- struct{}{}:
				default:
				}
			}
			select {
			case gotAny <- struct{}{}:
			default:
			}
		}
	}()
	runActor := func(name string) {
		done := make(chan struct{})
		go func() {
			defer close(done)
			switch name {
			case "publish":
				_, _ = node.Publish("g", []byte(`{"x":1}`))
			case "publish2":
				_, _ = node.Publish("a", []byte(`{"x":2}`))
			case "subscribe":
				_ = node.Subscribe("u", "x")
			case "unsubscribe":
				_ = node.Unsubscribe("u", "a")
			case "disconnect":
				_ = node.Disconnect("u")
			}
		}()
		select {
		case <-done:
		case <-time.After(verifC11Budget):
			note("actor-blocked")
		}
	}
	cmd := func(c *protocol.Command) {
		data, _ := protocol.NewJSONCommandEncoder().Encode(c)
		_ = conn.WriteMessage(websocket.TextMessage, data)
	}
	cmd(&protocol.Command{Id: 1, Connect: &protocol.ConnectRequest{Flag: ConnectionFlagDictionaryCompression}})
	actor := kv["actor"]
	if kv["ncgate"] == "1" && kv["dict"] == "1" {
		// close() runs to completion while connectCmd is inside the dictionary negotiation: the
		// encoder that connectCmd installs afterwards must still be closed (exactly once)
		select {
		case <-engine.ncArrived:
		case <-time.After(verifC11Budget):
			return "HARNESS-TIMEOUT connect never reached NewDictionaryConnection"
		}
		var wt *websocketTransport
		select {
		case wt = <-trCh:
		default:
		}
		// the stale-connection timer expires now (the read loop goroutine is the one parked in the
		// negotiation, so nothing else can close this not yet registered client): closeStale → close()
		tsched.mu.Lock()
		var stale *verifC11Timer
		if len(tsched.timers) > 0 {
			stale = tsched.timers[0]
		}
		tsched.mu.Unlock()
		if stale == nil {
			return "HARNESS-TIMEOUT no stale timer scheduled"
		}
		stale.cb()
		if wt != nil {
			select {
			case <-wt.closeCh: // Transport.Close is the last transport step of close()
			case <-time.After(verifC11Budget):
				note("close-not-observed")
			}
		}
		engine.ncRelease <- struct{}{}
		select {
		case <-engine.closeSig:
		case <-time.After(2 * time.Second):
			note("encoder-never-closed")
		}
		engine.mu.Lock()
		el := strings.Join(engine.log, ",")
		engine.mu.Unlock()
		return fmt.Sprintf("frames=- enc=%s notes=%s", el, strings.Join(append(notes, "ncgate"), ","))
	}
	if gateSub {
		select {
		case <-broker.arrived:
		case <-time.After(verifC11Budget):
			return "HARNESS-TIMEOUT connect never reached Broker.Subscribe"
		}
		if actor != "none" {
			runActor(actor)
		}
		broker.release <- struct{}{}
	}
	connected := false
	select {
	case <-gotConnect:
		connected = true
	case <-closed:
	case <-time.After(verifC11Budget):
		if actor != "disconnect" {
			return "HARNESS-TIMEOUT no connect reply"
		}
	}
	if !gateSub && actor != "none" && connected {
		runActor(actor)
	}
	if connected && kv["post"] != "none" && kv["post"] != "" {
		fmu.Lock()
		before := len(frames)
		fmu.Unlock()
		if kv["encgate"] == "1" && kv["dict"] == "1" {
			engine.mu.Lock()
			engine.gateOn = true
			engine.mu.Unlock()
		}
		switch kv["post"] {
		case "publish":
			_, _ = node.Publish("a", []byte(`{"y":1}`))
		case "rpc":
			cmd(&protocol.Command{Id: 2, Rpc: &protocol.RPCRequest{Method: "m"}})
		}
		if kv["encgate"] == "1" && kv["dict"] == "1" {
			select {
			case <-engine.arrived:
				// an Encode is mid-flight: run the closer, give it the chance to finish, release
				cdone := make(chan struct{})
				go func() {
					defer close(cdone)
					switch kv["closer"] {
					case "disconnect":
						_ = node.Disconnect("u")
						// Node.Disconnect spawns close(): wait until the hub no longer has the client,
						// then until close() released connectMu is not observable; the engine log is
					case "clientclose":
						_ = conn.Close()
					}
				}()
				<-cdone
				// close() may be blocked behind the parked write (the queue writer holds its lock
				// while writing) or may run through to the encoder's Close: wait for that Close with
				// a budget, then release the Encode.  (Budget expiry = close was blocked = no overlap.)
				closeSeen := false
				select {
				case <-engine.closeSig:
					closeSeen = true
				case <-time.After(1500 * time.Millisecond):
					note("close-waited-for-encode")
				}
				_ = closeSeen
				engine.release <- struct{}{}
			case <-time.After(verifC11Budget):
				note("encode-gate-not-reached")
			}
		} else {
			// wait for the frame this traffic produces (not just for any frame)
			want := "rpc"
			if kv["post"] == "publish" {
				want = "pub:a"
			}
			deadline := time.After(verifC11Budget)
		wf:
			for {
				fmu.Lock()
				found := false
				for _, f := range frames[before:] {
					for _, part := range strings.Split(f, "+") {
						if strings.TrimPrefix(part, "Z") == want {
							found = true
						}
					}
				}
				fmu.Unlock()
				if found {
					break
				}
				select {
				case <-gotAny:
				case <-closed:
					note("post-frame-missing")
					break wf
				case <-deadline:
					note("post-frame-missing")
					break wf
				}
			}
		}
	}
	// end of scenario: server-side disconnect, read until the socket is closed
	_ = node.Disconnect("u")
	select {
	case <-closed:
	case <-time.After(verifC11Budget):
		_ = conn.Close()
		select {
		case <-closed:
		case <-time.After(verifC11Budget):
			return "HARNESS-TIMEOUT socket never closed"
		}
		note("closed-by-client")
	}
	// the encoder's Close is called by close(): wait for it (if it was not seen yet)
	if kv["dict"] == "1" {
		engine.mu.Lock()
		n := 0
		for _, x := range engine.log {
			if x == "close" {
				n++
			}
		}
		engine.mu.Unlock()
		if n == 0 {
			select {
			case <-engine.closeSig:
			case <-time.After(verifC11Budget):
				note("encoder-never-closed")
			}
		}
	}
	fmu.Lock()
	fr := strings.Join(frames, ",")
	fmu.Unlock()
	engine.mu.Lock()
	el := strings.Join(engine.log, ",")
	engine.mu.Unlock()
	if fr == "" {
		fr = "-"
	}
	if el == "" {
		el = "-"
	}
	nt := strings.Join(notes, ",")
	if nt == "" {
		nt = "-"
	}
	return fmt.Sprintf("frames=%s enc=%s notes=%s", fr, el, nt)
}

func TestVerifC11(t *testing.T) {
	in, err := os.Open(os.Getenv("VERIF_OPS"))
	if err != nil {
		t.Skip("no VERIF_OPS")
	}
	defer in.Close()
	out, err := os.Create(os.Getenv("VERIF_OUT"))
	if err != nil {
		t.Fatal(err)
	}
	defer out.Close()
	w := bufio.NewWriter(out)
	defer w.Flush()
	sc := bufio.NewScanner(in)
	for sc.Scan() {
		line := sc.Text()
		ws := strings.Fields(line)
		switch {
		case line == "" || strings.HasPrefix(line, "#"):
			fmt.Fprintln(w, "#")
		case ws[0] == "race":
			fmt.Fprintln(w, verifC11Race(verifC11KV(ws[1:])))
		default:
			fmt.Fprintln(w, "bad-op")
		}
		w.Flush()
	}
}
