//go:build verif

package centrifuge

// Verification harness for C37 (injected with `go test -overlay`, never part of the repo).
// A real Node (memory engines + MemoryMapBroker) and a real Client inside a synctest bubble;
// subscribe commands go through Client.handleSubscribe, the OnSubscribe handler answers either
// synchronously or when the `complete` op says so.  Protocol: see /verif/lean/Drivers/C37.lean.

import (
	"bufio"
	"context"
	"errors"
	"fmt"
	"os"
	"strconv"
	"strings"
	"testing"
	"testing/synctest"
	"time"

	"github.com/centrifugal/protocol"
)

type verifC37Pending struct {
	cb   SubscribeCallback
	ok   bool
	kind string
	rw   *sliceReplyWriter
	done bool
}

type verifC37H struct {
	broker  *MemoryMapBroker
	cursors map[string]string
	node    *Node
	client  *Client
	tr      *testTransport
	pending []*verifC37Pending
	// how the next OnSubscribe call must behave (set by the `sub` op just before handleSubscribe)
	nextAsync bool
	nextOK    bool
	nextKind  string
	nextRW    *sliceReplyWriter
}

func verifC37KV(ws []string, k string) (string, bool) {
	for _, w := range ws {
		if strings.HasPrefix(w, k+"=") {
			return w[len(k)+1:], true
		}
	}
	return "", false
}

func verifC37Int(ws []string, k string) (int, bool) {
	s, ok := verifC37KV(ws, k)
	if !ok {
		return 0, false
	}
	n, err := strconv.Atoi(s)
	return n, err == nil && n >= 0
}

func verifC37PollName(ch, l int) string {
	s := "poll:" + strconv.Itoa(ch)
	for len(s) < l {
		s += "x"
	}
	return s
}

func verifC37Name(ch, l int) string {
	s := "c" + strconv.Itoa(ch)
	for len(s) < l {
		s += "x"
	}
	return s
}

func (h *verifC37H) stop() {
	if h.node != nil {
		// answer every subscribe that is still waiting for its OnSubscribe callback (with an error):
		// closing a connection with an in-flight reservation makes close() wait on a timer while a
		// goroutine it spawned is blocked on a mutex, which stalls the bubble's virtual clock
		for _, p := range h.pending {
			if !p.done {
				p.done = true
				p.ok = false
				p.cb(SubscribeReply{}, nil)
			}
		}
		synctest.Wait()
		if h.client != nil {
			_ = h.client.close(DisconnectForceNoReconnect)
		}
		_ = h.node.Shutdown(context.Background())
		// dissolver jobs and unsubscribe timers sleep on the (virtual) clock; the clock stops once the
		// bubble's root function returns, so let them run out here
		time.Sleep(30 * time.Second)
		synctest.Wait()
		h.node, h.client = nil, nil
	}
}

func (h *verifC37H) reply(sub SubscribeReply, ok bool, cb SubscribeCallback) {
	if ok {
		cb(sub, nil)
	} else {
		cb(SubscribeReply{}, ErrorPermissionDenied)
	}
}

func (h *verifC37H) reset(limit, maxlen int) error {
	h.stop()
	node, err := New(Config{
		LogLevel:           LogLevelError,
		LogHandler:         func(entry LogEntry) {},
		ClientChannelLimit: limit,
		ChannelMaxLength:   maxlen,
		Map: MapConfig{
			GetMapChannelOptions: func(channel string) MapChannelOptions {
				return MapChannelOptions{Mode: MapModeEphemeral, KeyTTL: 60 * time.Second, MinPageSize: 1}
			},
		},
		SharedPoll: SharedPollConfig{
			GetSharedPollChannelOptions: func(channel string) (SharedPollChannelOptions, bool) {
				if !strings.HasPrefix(channel, "poll:") {
					return SharedPollChannelOptions{}, false
				}
				return SharedPollChannelOptions{RefreshInterval: time.Hour, RefreshBatchSize: 10, MaxKeysPerConnection: 10}, true
			},
		},
	})
	if err != nil {
		return err
	}
	node.OnSharedPoll(func(ctx context.Context, event SharedPollEvent) (SharedPollResult, error) {
		return SharedPollResult{}, nil
	})
	broker, err := NewMemoryMapBroker(node, MemoryMapBrokerConfig{})
	if err != nil {
		return err
	}
	if err := broker.RegisterEventHandler(nil); err != nil {
		return err
	}
	node.SetMapBroker(broker)
	h.broker = broker
	h.cursors = map[string]string{}
	node.OnConnect(func(client *Client) {
		client.OnSubscribe(func(e SubscribeEvent, cb SubscribeCallback) {
			rep := SubscribeReply{}
			if h.nextKind == "m" || h.nextKind == "p" {
				rep.Options.Type = SubscriptionTypeMap
			}
			if h.nextKind == "s" {
				rep.Options.ExpireAt = time.Now().Unix() + 3600
				rep.ClientSideRefresh = true
			}
			if h.nextAsync {
				p := &verifC37Pending{ok: h.nextOK, kind: h.nextKind, rw: h.nextRW}
				p.cb = func(_ SubscribeReply, _ error) { h.reply(rep, p.ok, cb) }
				h.pending = append(h.pending, p)
				return
			}
			h.reply(rep, h.nextOK, cb)
		})
	})
	if err := node.Run(); err != nil {
		return err
	}
	h.node = node
	h.pending = nil
	ctx, cancelFn := context.WithCancel(context.Background())
	tr := newTestTransport(cancelFn)
	tr.setProtocolVersion(ProtocolVersion2)
	tr.setProtocolType(ProtocolTypeJSON)
	h.tr = tr
	c, _, err := NewClient(SetCredentials(ctx, &Credentials{UserID: "u"}), node, tr)
	if err != nil {
		return err
	}
	rw := testReplyWriterWrapper()
	if err := c.connectCmd(&protocol.ConnectRequest{}, &protocol.Command{}, time.Now(), rw.rw); err != nil {
		return err
	}
	c.triggerConnect()
	c.scheduleOnConnectTimers()
	h.client = c
	synctest.Wait()
	return nil
}

func (h *verifC37H) state(res string) string {
	c := h.client
	c.mu.RLock()
	n, m, subs := len(c.channels), len(c.mapSubscribing), 0
	for _, ctx := range c.channels {
		if channelHasFlag(ctx.flags, flagSubscribed) && !channelHasFlag(ctx.flags, flagServerSide) {
			subs++
		}
	}
	c.mu.RUnlock()
	return fmt.Sprintf("res=%s n=%d m=%d subs=%d", res, n, m, subs)
}

func verifC37Err(err error) string {
	var e *Error
	if errors.As(err, &e) {
		switch e.Code {
		case ErrorBadRequest.Code:
			return "bad"
		case ErrorAlreadySubscribed.Code:
			return "already"
		case ErrorLimitExceeded.Code:
			return "limit"
		case ErrorPermissionDenied.Code:
			return "failed"
		}
		return fmt.Sprintf("err%d", e.Code)
	}
	var d *Disconnect
	if errors.As(err, &d) {
		return fmt.Sprintf("disc%d", d.Code)
	}
	var dv Disconnect
	if errors.As(err, &dv) {
		return fmt.Sprintf("disc%d", dv.Code)
	}
	return "err?"
}

func verifC37Reply(rw *sliceReplyWriter) string {
	if len(rw.replies) == 0 {
		return "noreply"
	}
	r := rw.replies[len(rw.replies)-1]
	if r.Error != nil {
		switch r.Error.Code {
		case ErrorBadRequest.Code:
			return "bad"
		case ErrorAlreadySubscribed.Code:
			return "already"
		case ErrorLimitExceeded.Code:
			return "limit"
		case ErrorPermissionDenied.Code:
			return "failed"
		}
		return fmt.Sprintf("err%d", r.Error.Code)
	}
	return "ok"
}

// verifC37SlowTransport blocks transport writes while `gate` is open-ended (armed), without
// holding any lock, and records the disconnect it is closed with.
type verifC37SlowTransport struct {
	*testTransport
	armed chan struct{} // closed = writes block
	gate  chan struct{} // closed = blocked writes continue
}

func (t *verifC37SlowTransport) wait() {
	select {
	case <-t.armed:
		<-t.gate
	default:
	}
}

func (t *verifC37SlowTransport) Write(message []byte) error {
	t.wait()
	return t.testTransport.Write(message)
}

func (t *verifC37SlowTransport) WriteMany(messages ...[]byte) error {
	t.wait()
	return t.testTransport.WriteMany(messages...)
}

// verifC37Slow: a connection whose transport stops taking data gets k further messages of encoded
// length L queued (the first message sent after the stall is in the writer's hands, not in the
// queue).  Reports L, whether the connection was closed and with which code.
func verifC37Slow(qmax, k, delayMs int, timer bool) (res string) {
	defer func() {
		if r := recover(); r != nil {
			res = "PANIC"
		}
	}()
	node, err := New(Config{LogLevel: LogLevelError, LogHandler: func(entry LogEntry) {}, ClientQueueMaxSize: qmax})
	if err != nil {
		return "slow-setup-failed"
	}
	delay := time.Duration(delayMs) * time.Millisecond
	if delayMs > 0 {
		// the application selects batched writes (goroutine with write delay, or timer driven)
		node.OnConnecting(func(ctx context.Context, e ConnectEvent) (ConnectReply, error) {
			return ConnectReply{WriteDelay: delay, WriteWithTimer: timer}, nil
		})
	}
	if err := node.Run(); err != nil {
		return "slow-setup-failed"
	}
	defer func() {
		_ = node.Shutdown(context.Background())
		time.Sleep(30 * time.Second)
		synctest.Wait()
	}()
	ctx, cancelFn := context.WithCancel(context.Background())
	tt := newTestTransport(cancelFn)
	tt.setProtocolVersion(ProtocolVersion2)
	tt.setProtocolType(ProtocolTypeJSON)
	sink := make(chan []byte, 10000)
	tt.setSink(sink)
	tr := &verifC37SlowTransport{testTransport: tt, armed: make(chan struct{}), gate: make(chan struct{})}
	c, _, err := NewClient(SetCredentials(ctx, &Credentials{UserID: "u"}), node, tr)
	if err != nil {
		return "slow-setup-failed"
	}
	rw := testReplyWriterWrapper()
	if err := c.connectCmd(&protocol.ConnectRequest{}, &protocol.Command{Id: 1}, time.Now(), rw.rw); err != nil {
		return "slow-setup-failed"
	}
	c.triggerConnect()
	c.scheduleOnConnectTimers()
	synctest.Wait()
	time.Sleep(3 * delay)
	synctest.Wait()
	for len(sink) > 0 {
		<-sink
	}
	data := []byte(`{"verif":"0123456789"}`)
	_ = c.Send(data)
	synctest.Wait()
	time.Sleep(3 * delay)
	synctest.Wait()
	if len(sink) != 1 {
		return "slow-setup-failed"
	}
	L := len(<-sink)
	if delayMs == 0 {
		close(tr.armed)
		_ = c.Send(data) // taken by the flusher, which now blocks in the transport
		synctest.Wait()
	}
	// with a write delay nothing is written before the delay has passed (virtual time stands still
	// here), so the k messages are all pending
	for i := 0; i < k; i++ {
		_ = c.Send(data)
	}
	if delayMs == 0 {
		close(tr.gate)
	}
	synctest.Wait()
	time.Sleep(3 * delay)
	synctest.Wait()
	c.mu.RLock()
	closed := c.status == statusClosed
	c.mu.RUnlock()
	tt.mu.Lock()
	code := tt.disconnect.Code
	tt.mu.Unlock()
	cl := 0
	if closed {
		cl = 1
	}
	if !closed {
		_ = c.close(DisconnectForceNoReconnect)
		synctest.Wait()
	}
	return fmt.Sprintf("slow L=%d qmax=%d k=%d closed=%d code=%d delivered=%d", L, qmax, k, cl, code, len(sink))
}

func (h *verifC37H) step(ws []string) (res string) {
	defer func() {
		if r := recover(); r != nil {
			res = fmt.Sprintf("PANIC")
		}
	}()
	if len(ws) == 0 {
		return "bad-op"
	}
	if ws[0] == "slow" {
		m, ok1 := verifC37Int(ws, "qmax")
		k, ok2 := verifC37Int(ws, "k")
		if !ok1 || !ok2 {
			return "bad-op"
		}
		d, _ := verifC37Int(ws, "delay")
		tm, _ := verifC37Int(ws, "timer")
		h.stop()
		return verifC37Slow(m, k, d, tm != 0)
	}
	if ws[0] == "reset" {
		l, ok1 := verifC37Int(ws, "limit")
		m, ok2 := verifC37Int(ws, "maxlen")
		if !ok1 || !ok2 {
			return "bad-op"
		}
		if err := h.reset(l, m); err != nil {
			return "reset-failed:" + err.Error()
		}
		return "reset"
	}
	if h.client == nil {
		return "bad-op"
	}
	c := h.client
	c.mu.RLock()
	dead := c.status == statusClosed
	c.mu.RUnlock()
	if dead {
		// the connection was closed (channel limit disconnect): nothing more to observe
		return "dead"
	}
	switch ws[0] {
	case "sub":
		ch, ok1 := verifC37Int(ws, "ch")
		l, ok2 := verifC37Int(ws, "len")
		kind, ok3 := verifC37KV(ws, "kind")
		async, ok4 := verifC37Int(ws, "async")
		okf, ok5 := verifC37Int(ws, "ok")
		if !(ok1 && ok2 && ok3 && ok4 && ok5) {
			return "bad-op"
		}
		rw := testReplyWriterWrapper()
		h.nextAsync, h.nextOK, h.nextKind, h.nextRW = async != 0, okf != 0, kind, rw
		req := &protocol.SubscribeRequest{Channel: verifC37Name(ch, l)}
		if kind == "m" {
			req.Type = int32(SubscriptionTypeMap)
			req.Phase = MapPhaseState
			req.Limit = 100
		}
		if kind == "s" {
			// shared-poll subscribe (its own reservation path: handleSharedPollSubscribe)
			req.Channel = verifC37PollName(ch, l)
			req.Type = int32(SubscriptionTypeSharedPoll)
		}
		if kind == "p" {
			// paged map subscribe: the channel holds two keys and the page size is one, so after the
			// first state page the subscription is still loading (entry in c.mapSubscribing)
			if _, ok := h.cursors[req.Channel]; !ok {
				for _, k := range []string{"a", "b"} {
					if _, err := h.broker.Publish(context.Background(), req.Channel, k, MapPublishOptions{Data: []byte(`{"v":1}`)}); err != nil {
						return "publish-failed"
					}
				}
			}
			req.Type = int32(SubscriptionTypeMap)
			req.Phase = MapPhaseState
			req.Limit = 1
		}
		before := len(h.pending)
		err := c.handleSubscribe(req, &protocol.Command{Id: 1}, time.Now(), rw.rw)
		synctest.Wait()
		if async != 0 && len(h.pending) == before {
			// refused before the handler ran: the slot exists (so that `complete i=` numbers async
			// attempts in op order) but is already used up
			h.pending = append(h.pending, &verifC37Pending{done: true})
		}
		if err != nil {
			return h.state(verifC37Err(err))
		}
		if async != 0 && !h.pending[len(h.pending)-1].done {
			return h.state("pending")
		}
		if kind == "p" && len(rw.replies) > 0 && rw.replies[len(rw.replies)-1].Error == nil {
			sub := rw.replies[len(rw.replies)-1].Subscribe
			if sub != nil && sub.Cursor != "" {
				h.cursors[req.Channel] = sub.Cursor
				return h.state("loading")
			}
			return h.state("ok-unpaged")
		}
		return h.state(verifC37Reply(rw))
	case "page":
		ch, ok1 := verifC37Int(ws, "ch")
		l, ok2 := verifC37Int(ws, "len")
		if !ok1 || !ok2 {
			return "bad-op"
		}
		name := verifC37Name(ch, l)
		cur, ok := h.cursors[name]
		if !ok || cur == "" {
			return "bad-op"
		}
		h.cursors[name] = ""
		rw := testReplyWriterWrapper()
		h.nextAsync, h.nextOK, h.nextKind, h.nextRW = false, true, "p", rw
		err := c.handleSubscribe(&protocol.SubscribeRequest{Channel: name, Type: int32(SubscriptionTypeMap),
			Phase: MapPhaseState, Limit: 1, Cursor: cur}, &protocol.Command{Id: 4}, time.Now(), rw.rw)
		synctest.Wait()
		if err != nil {
			return h.state(verifC37Err(err))
		}
		if len(rw.replies) > 0 && rw.replies[len(rw.replies)-1].Error == nil {
			sub := rw.replies[len(rw.replies)-1].Subscribe
			if sub != nil && sub.Cursor != "" {
				h.cursors[name] = sub.Cursor
				return h.state("loading")
			}
		}
		return h.state(verifC37Reply(rw))
	case "complete":
		i, ok := verifC37Int(ws, "i")
		if !ok || i >= len(h.pending) || h.pending[i].done {
			return "bad-op"
		}
		p := h.pending[i]
		p.done = true
		p.cb(SubscribeReply{}, nil)
		synctest.Wait()
		r := verifC37Reply(p.rw)
		return h.state(r)
	case "unsub":
		ch, ok := verifC37Int(ws, "ch")
		if !ok {
			return "bad-op"
		}
		// find the full name (length is part of it)
		name := ""
		c.mu.RLock()
		for k := range c.channels {
			if k == "c"+strconv.Itoa(ch) || strings.HasPrefix(k, "c"+strconv.Itoa(ch)+"x") {
				name = k
			}
		}
		c.mu.RUnlock()
		if name == "" {
			name = "c" + strconv.Itoa(ch)
		}
		if ch >= 200 {
			name = "poll:" + strconv.Itoa(ch)
			c.mu.RLock()
			for k := range c.channels {
				if strings.HasPrefix(k, "poll:"+strconv.Itoa(ch)) {
					name = k
				}
			}
			c.mu.RUnlock()
		}
		rw := testReplyWriterWrapper()
		err := c.handleUnsubscribe(&protocol.UnsubscribeRequest{Channel: name}, &protocol.Command{Id: 2}, time.Now(), rw.rw)
		synctest.Wait()
		if err != nil {
			return h.state(verifC37Err(err))
		}
		return h.state("none")
	case "ssub":
		ch, ok := verifC37Int(ws, "ch")
		if !ok {
			return "bad-op"
		}
		err := c.Subscribe("c" + strconv.Itoa(ch))
		synctest.Wait()
		c.mu.RLock()
		closed := c.status == statusClosed
		c.mu.RUnlock()
		if closed {
			h.tr.mu.Lock()
			code := h.tr.disconnect.Code
			h.tr.mu.Unlock()
			if code == DisconnectChannelLimit.Code {
				return "res=disconnect"
			}
			return fmt.Sprintf("res=closed%d", code)
		}
		if err != nil {
			return h.state(verifC37Err(err))
		}
		return h.state("ok")
	}
	return "bad-op"
}

func TestVerifC37(t *testing.T) {
	in, err := os.Open(os.Getenv("VERIF_OPS"))
	if err != nil {
		t.Skip("no VERIF_OPS")
	}
	defer in.Close()
	out, err := os.Create(os.Getenv("VERIF_OUT"))
	if err != nil {
		t.Fatal(err)
	}
	defer out.Close()
	bw := bufio.NewWriter(out)
	defer bw.Flush()
	var lines []string
	sc := bufio.NewScanner(in)
	sc.Buffer(make([]byte, 1<<20), 1<<26)
	for sc.Scan() {
		lines = append(lines, sc.Text())
	}
	synctest.Test(t, func(t *testing.T) {
		h := &verifC37H{}
		for _, line := range lines {
			if line == "" || strings.HasPrefix(line, "#") {
				fmt.Fprintln(bw, "#")
				continue
			}
			fmt.Fprintln(bw, h.step(strings.Fields(line)))
			bw.Flush()
		}
		h.stop()
	})
}
