"""C37 — connection limits are enforced (channel limit, channel name length; slow consumer is shared
with C12: `slow_iff_oversize` there, re-exported in Props/C37.lean).

Proof: lean/CentrifugeVerif/Props/C37.lean over Model/Limits.lean (+ Model/Writer.lean).
Tie: a real Node + Client (memory engines, MemoryMapBroker) inside a synctest bubble; subscribe commands
go through Client.handleSubscribe with an OnSubscribe handler that answers synchronously or later
(`complete`), unsubscribes through handleUnsubscribe, server-side Client.Subscribe; the Lean driver runs
the same op lines.  Oracle: the statement on the implementation's replies and on the connection's
subscription table.
"""
import json
import os
import re
from vlib.core import diff_lines, ddmin


def gen_scenario(rng):
    limit = rng.choice([1, 1, 2, 2, 3, 5])
    maxlen = rng.choice([0, 4, 6, 9, 12])
    ops = [f"reset limit={limit} maxlen={maxlen}"]
    nch = limit + rng.choice([1, 2, 3])
    lens = {}
    pending = []          # (index, ch)
    done = set()
    n = rng.choice([4, 8, 12, 20, 30])
    p_map = rng.choice([0.0, 0.0, 0.3, 0.6])
    p_async = rng.choice([0.0, 0.2, 0.5])
    p_paged = rng.choice([0.0, 0.25, 0.5])
    p_poll = rng.choice([0.0, 0.0, 0.2, 0.4])
    loading = set()
    npend = 0
    for _ in range(n):
        r = rng.random()
        ch = rng.randint(1, nch)
        busy = {c for i, c in pending if i not in done} | loading
        if r < 0.12 and loading:
            c2 = rng.choice(sorted(loading))
            loading.discard(c2)
            ops.append(f"page ch={c2} len={lens[c2]}")
            continue
        if r < 0.55:
            kind = "m" if rng.random() < p_map else "r"
            if rng.random() < p_paged and ch not in lens:
                kind = "p"
            elif rng.random() < p_poll:
                # shared-poll channels live in their own name space ("poll:<n>", ids 200+)
                kind = "s"
                ch = 200 + ch
            base = len(f"c{ch}") if ch < 200 else len(f"poll:{ch}")
            if ch not in lens:
                lens[ch] = base
                if maxlen and rng.random() < 0.25:
                    lens[ch] = max(base, rng.choice([maxlen, maxlen + 1, maxlen + 3]))
            ln = lens[ch]
            if ch in busy:
                continue
            asy = 1 if rng.random() < p_async else 0
            ok = 0 if rng.random() < 0.15 else 1
            if kind == "p":
                # a paged map subscribe stays in c.mapSubscribing until its `page` op; the channel is used
                # for nothing else in the scenario (it is treated as busy even if the attempt was refused)
                asy, ok = 0, 1
                loading.add(ch)
            ops.append(f"sub ch={ch} len={ln} kind={kind} async={asy} ok={ok}")
            if asy:
                # slot numbers count async attempts in op order; one that was refused before the handler
                # ran is an already-used slot (`complete` of it is `bad-op` on both sides), but the channel
                # is treated as busy until then so that no unsubscribe races an in-flight reservation
                pending.append((npend, ch))
                npend += 1
        elif r < 0.75:
            todo = [i for i, c in pending if i not in done]
            if todo:
                i = rng.choice(todo)
                done.add(i)
                ops.append(f"complete i={i}")
        elif r < 0.93:
            if rng.random() < p_poll:
                ch = 200 + ch
            if ch not in busy:
                ops.append(f"unsub ch={ch}")
        else:
            if ch not in busy:
                ops.append(f"ssub ch={ch + 100}")
    return ops


def kvs(s):
    return dict(w.split("=", 1) for w in s.split() if "=" in w)


def fix_pending(sc, out):
    """`complete i=k` refers to the k-th sub that actually became pending; the generator numbers async
    attempts optimistically, so renumber using the implementation's answers.  Returns None if fine."""
    return None


def oracle(sc, out):
    limit = maxlen = 0
    prev = {"n": 0, "m": 0}
    names = set()
    for op, o in zip(sc, out):
        ws = op.split()
        if o == "<missing>":
            return f"no output for `{op}` (crash, deadlock or hang)"
        if o == "PANIC":
            return f"panic at `{op}`"
        if o.startswith("reset-failed"):
            return "harness could not start a node: " + o
        kv = kvs(op)
        if ws[0] == "slow":
            okv = kvs(o)
            if "L" not in okv:
                return f"`{op}`: {o}"
            qmax, k, L = int(kv["qmax"]), int(kv["k"]), int(okv["L"])
            over = qmax > 0 and k * L > qmax
            if over and (okv["closed"] != "1" or okv["code"] != "3008"):
                return (f"`{op}`: {k * L} bytes were pending with ClientQueueMaxSize={qmax} but the connection "
                        f"was not closed as slow (closed={okv['closed']} code={okv['code']})")
            if not over and okv["closed"] == "1":
                return (f"`{op}`: only {k * L} bytes were pending with ClientQueueMaxSize={qmax} but the connection "
                        f"was closed (code={okv['code']})")
            continue
        if ws[0] == "reset":
            limit, maxlen = int(kv["limit"]), int(kv["maxlen"])
            prev = {"n": 0, "m": 0}
            names = set()
            continue
        if o in ("bad-op", "dead"):
            continue
        okv = kvs(o)
        res = okv.get("res", "?")
        if res.startswith("closed") or res.startswith("disc") and res != "disconnect":
            return f"`{op}` closed the connection ({res})"
        if "subs" in okv and limit > 0 and int(okv["subs"]) > limit:
            return (f"after `{op}` the connection holds {okv['subs']} client-side subscriptions, "
                    f"channel limit is {limit}")
        if ws[0] == "sub":
            ln = int(kv["len"])
            if maxlen > 0 and ln > maxlen:
                if res != "bad":
                    return f"`{op}`: channel name of {ln} bytes (max {maxlen}) answered {res}, expected bad request"
            elif limit > 0 and prev["n"] + prev["m"] >= limit and res not in ("limit", "already"):
                return (f"`{op}`: the connection already holds {prev['n'] + prev['m']} subscriptions/reservations "
                        f"(limit {limit}) but the attempt was answered {res}, expected limit exceeded")
        if ws[0] == "ssub" and limit > 0 and prev["n"] >= limit and res != "disconnect":
            return f"`{op}`: server-side subscribe at the channel limit answered {res}, expected disconnect"
        if "n" in okv:
            prev = {"n": int(okv["n"]), "m": int(okv["m"])}
    return None


def signature(sc, msg, out=None):
    """where the bookkeeping first breaks: the kind of the first op after which subscriptions plus
    reservations exceed the limit (a deferred map subscribe completing, a regular subscribe, …), or else the
    op named in the oracle message — narrow enough that a broken regular path does not match C37-1"""
    op = None
    if out is not None:
        limit = int(kvs(sc[0]).get("limit", 0))
        for o_op, o in zip(sc, out):
            okv = kvs(o)
            if limit > 0 and "n" in okv and int(okv["n"]) + int(okv["m"]) > limit:
                op = o_op
                break
    if op is None:
        m = re.search(r"`([^`]*)`", msg)
        op = m.group(1) if m else None
    at = "?"
    if op:
        ws = op.split()
        kv = kvs(op)
        if ws[0] == "complete":
            subs = [x for x in sc if x.startswith("sub ") and " async=1" in x]
            i = int(kv.get("i", -1))
            at = "complete-" + (kvs(subs[i]).get("kind", "?") if 0 <= i < len(subs) else "?") + "-async"
        elif ws[0] == "sub":
            at = "sub-" + kv.get("kind", "?")
        else:
            at = ws[0]
    return {"oracle": re.sub(r"\d+", "N", re.sub(r"`[^`]*`", "OP", msg))[:60], "at": at}


def canon(line):
    if line.startswith("res=disconnect"):
        return "res=disconnect"
    return line


def split_scenarios(ops):
    scs, cur = [], []
    for op in ops:
        if op.split()[0] == "slow":
            if cur:
                scs.append(cur)
            scs.append([op])
            cur = []
            continue
        if op.split()[0] == "reset" and cur:
            scs.append(cur)
            cur = []
        cur.append(op)
    if cur:
        scs.append(cur)
    return scs


def run(ctx):
    ctx.rule = ("random scenarios near the limit: limit in {1,2,3,5}, ChannelMaxLength in {0,4,6}, channels 1..limit+3; "
                "regular and map client subscribes (sync or with the OnSubscribe answer delivered later, succeeding "
                "or failing), completions in random order, unsubscribes, server-side Subscribe; non-trivial = some "
                "attempt was refused or completed asynchronously; distinct = distinct scenario text")
    ctx.assumptions = ["interleavings are at the granularity of whole handler calls (subscribe command up to the "
                       "OnSubscribe callback, the callback's continuation, unsubscribe command, Client.Subscribe)",
                       "no unsubscribe is issued for a channel whose subscribe is still waiting for its callback"]
    proofs_ok = ctx.lean_obligations()
    ctx.log("lean obligations done")
    binary = ctx.go_test_binary(".", ["props/C37/harness/root/zz_verif_c37_test.go"])
    ctx.log("harness built")
    if binary is None:
        ctx.violation("correspondence", "harness no longer builds against client.go",
                      signature={"kind": "harness-build"}, replay={"log": getattr(ctx, "build_error", "")},
                      no_input=True)
        return
    here = os.path.dirname(__file__)

    def go(sub):
        o = ctx.go_run(binary, "TestVerifC37", sub, timeout=60)
        return o + ["<missing>"] * (len(sub) - len(o))

    # re-derive the known findings from their stored replays (KNOWN-FINDING is printed only if they
    # still reproduce on the current tree)
    fpath = os.path.join(here, "findings.json")
    if os.path.exists(fpath) and not ctx.replay:
        for f in json.load(open(fpath)).get("findings", []):
            if f.get("status") != "known":
                continue  # fixed findings stay in corpus.ops as ordinary regression scenarios
            fops = f["replay"]["ops"]
            fo = go(fops)
            msg = oracle(fops, fo)
            if msg:
                ctx.violation("property", msg, signature=signature(fops, msg, fo), replay={"ops": fops, "impl": fo})
                ctx.count("known-finding-reproduced")
            else:
                ctx.notes.append(f"finding {f['id']} no longer reproduces on this tree")
    if ctx.replay:
        scs = split_scenarios(json.load(open(ctx.replay)).get("ops", []))
    else:
        corpus = [l.strip() for l in open(os.path.join(here, "corpus.ops")) if l.strip() and not l.startswith("#")]
        scs = split_scenarios(corpus) + [gen_scenario(ctx.rng) for _ in range(ctx.scale(700, 4000))]
        # boundary cases around k*L == ClientQueueMaxSize (L = 52 for the probe message), always run
        scs += [[f"slow qmax={q} k={k} delay={d} timer={t}"] for q in (155, 156, 157, 207, 208, 209) for k in (2, 3, 4)
                for d, t in ((0, 0), (10, 1), (10, 0))]
        for _ in range(ctx.scale(15, 400)):
            qmax = ctx.rng.choice([0, 155, 156, 157, 200, 208, 520, 1000, 1040])
            k = ctx.rng.choice([0, 1, 2, 3, 4, 5, 9, 10, 11, 19, 20, 30])
            d, t = ctx.rng.choice([(0, 0), (0, 0), (5, 1), (10, 1), (10, 0)])
            scs.append([f"slow qmax={qmax} k={k} delay={d} timer={t}"])
    ops = [op for s in scs for op in s]
    impl = ctx.go_run(binary, "TestVerifC37", ops, timeout=ctx.scale(240, 1500))
    ctx.log(f"implementation ran {len(impl)}/{len(ops)} lines")
    model = ctx.lean_run(ops)
    ctx.log("model ran")
    if model is None:
        proofs_ok = False
        model = []
    pos, nviol, ndiff = 0, 0, 0
    seen_sigs = set()
    for s in scs:
        out = impl[pos:pos + len(s)]
        mout = model[pos:pos + len(s)]
        pos += len(s)
        out = out + ["<missing>"] * (len(s) - len(out))
        if s[0].startswith("slow"):
            ctx.count("slow:closed=" + kvs(out[0]).get("closed", "?"))
        refused = any(kvs(o).get("res") in ("limit", "bad", "already", "disconnect", "failed", "loading") for o in out)
        ctx.record("\n".join(s), nontrivial=refused or any("complete" in op for op in s))
        for op, o in zip(s, out):
            ctx.count(op.split()[0] + (":" + kvs(op).get("kind", "") if op.startswith("sub") else ""))
            if "res=" in o:
                ctx.count("res=" + kvs(o).get("res", "?"))
        msg = oracle(s, out)
        if msg:
            nviol += 1
            coarse = re.sub(r"\d+", "N", re.sub(r"`[^`]*`", "OP", msg))[:60]
            if ctx._match_known(signature(s, msg, out)) is not None:
                # the un-shrunk failure is already an instance of a known finding: report, do not shrink
                ctx.violation("property", msg, signature=signature(s, msg, out), replay={"ops": s, "impl": out})
                ctx.count("known-finding-instances")
                continue
            if nviol <= 12 and (coarse not in seen_sigs or nviol <= 3):
                seen_sigs.add(coarse)

                def fails(sub):
                    sub = [s[0]] + [x for x in sub if x != s[0]]
                    return oracle(sub, go(sub)) is not None
                small = s
                try:
                    if fails(s):
                        small = [s[0]] + [x for x in ddmin(s, fails) if x != s[0]]
                except Exception as e:
                    ctx.notes.append(f"shrink failed: {e}")
                small = renumber(small)
                so = go(small)
                smsg = oracle(small, so) or msg
                ctx.violation("property", smsg, signature=signature(small, smsg, so),
                              replay={"ops": small, "impl": so, "original": s})
            continue
        if mout and not s[0].startswith("slow"):
            a = [canon(x) for x in out]
            b = [canon(x) for x in mout + ["<missing>"] * (len(s) - len(mout))]
            for i, op, x, y in diff_lines(s, a, b):
                ndiff += 1
                if ndiff <= 3:
                    ctx.violation("correspondence", f"model and implementation differ at `{op}`: impl `{x}` model `{y}`",
                                  signature={"kind": "diff", "op": op.split()[0]},
                                  replay={"ops": s[:i + 1], "impl": out[:i + 1], "model": mout[:i + 1],
                                          "correspondence": "Drivers/C37.lean vs client.go"},
                                  no_input=True)
                break
    ctx.traces_validated = len(scs)
    ctx.extra["disagreements"] = ndiff
    ctx.extra["oracle_failures"] = nviol
    if not proofs_ok:
        ctx.proof_broken()


def renumber(sc):
    """after shrinking, `complete i=k` indices no longer match the pending slots: keep the scenario as
    is (a `complete` of a missing slot is `bad-op` on both sides)"""
    return sc
