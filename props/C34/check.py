"""C34 — Redis cluster keys for one operation share a hash slot.

Proof: lean/CentrifugeVerif/Props/C34.lean over Gen/RedisKeys.lean + Gen/Crc16Tab.lean (both regenerated from
the Go sources on every run by gokeys.py), Model/RedisKeys.lean, Model/CRC16.lean, Spec/RedisSlot.lean.
Tie: T1 (regeneration) + T2: the real key builders / extractChannel / redisSlot (in-package harness, structs
built without a connection) against the Lean driver on random channels, prefixes, idempotency keys and
configurations.
Oracle (Python, independent CRC16-XMODEM via binascii.crc_hqx + Redis hash-tag rule): all keys and the PUB/SUB
channel of one script share a slot; extractChannel(messageChannelID(ch)) == ch; Go's redisSlot == Redis' slot.
Known finding (re-derived every run): channel "" / first byte '}' in cluster mode without partitions.
"""
import binascii
import json
import os
import re
import sys

sys.path.insert(0, os.path.dirname(os.path.abspath(__file__)))
import gokeys  # noqa: E402
from vlib.core import REPO  # noqa: E402

HERE = os.path.dirname(os.path.abspath(__file__))
HARNESS = "props/C34/harness/root/zz_verif_c34_test.go"
SIZES = [16, 32, 64, 128, 256, 512, 1024, 2048, 4096]

GROUPS = {  # script → key names of the harness line (history kind chosen by useLists)
    "broker.addHistory": lambda ul: ["b.list" if ul else "b.stream", "b.meta", "b.result", "b.msg"],
    "broker.publishIdempotent": lambda ul: ["b.result", "b.msg"],
    "presence": lambda ul: ["p.set", "p.hash", "p.uset", "p.uhash"],
    "mapBroker": lambda ul: ["m.stream", "m.meta", "m.state", "m.order", "m.expire", "m.smeta", "m.cleanup", "m.result", "m.msg"],
}


def hx(b):
    return b.hex() if b else "-"


def unhx(s):
    return b"" if s == "-" else bytes.fromhex(s)


def redis_slot(key):
    """Redis Cluster keyHashSlot, written from the cluster specification."""
    s = key.find(b"{")
    if s >= 0:
        e = key.find(b"}", s + 1)
        if e >= 0 and e != s + 1:
            key = key[s + 1:e]
    return binascii.crc_hqx(key, 0) % 16384


def channel_class(ch):
    if ch == b"":
        return "empty"
    if ch[0:1] == b"}":
        return "starts-with-}"
    return "ok"


def gen_channel(rng):
    r = rng.random()
    if r < 0.08:
        return b""
    if r < 0.2:
        return b"}" + gen_tail(rng)
    if r < 0.45:
        return gen_tail(rng) or b"a"
    n = rng.choice([1, 2, 3, 5, 8, 13, 40])
    if r < 0.8:
        return bytes(rng.choice(b"abcxyz019:._-#$/") for _ in range(n))
    return bytes(rng.randrange(256) for _ in range(n))


def gen_tail(rng):
    return bytes(rng.choice(b"{}.ab:{}") for _ in range(rng.choice([0, 1, 2, 3, 6])))


def gen_prefix(rng):
    r = rng.random()
    if r < 0.5:
        return b"centrifuge"
    if r < 0.6:
        return b""
    if r < 0.9:
        return bytes(rng.choice(b"abc.:-_}1") for _ in range(rng.randint(1, 8)))   # '}' allowed, '{' not
    return bytes(rng.choice(b"ab{}.") for _ in range(rng.randint(1, 5)))           # may contain '{' (outside the theorem)


def gen_op(rng):
    cluster = rng.random() < 0.8
    n = 0
    use_pre = False
    if cluster and rng.random() < 0.55:
        if rng.random() < 0.6:
            n, use_pre = rng.choice(SIZES), True
        else:
            n = rng.choice([1, 2, 3, 7, 16, 100, 128, 1000])
    ul = rng.random() < 0.4
    idem = rng.choice([b"", b"k1", bytes(rng.choice(b"ab{}.:") for _ in range(4))])
    return f"keys {int(cluster)} {n} {int(ul)} {int(use_pre)} {hx(gen_prefix(rng))} {hx(gen_channel(rng))} {hx(idem)}"


def parse_line(line):
    d = {}
    for w in line.split():
        k, v = w.split("=", 1)
        if ":" in v:
            a, b = v.split(":")
            d[k] = (unhx(a), int(b))
        else:
            d[k] = unhx(v)
    return d


def load_findings():
    try:
        return json.load(open(os.path.join(HERE, "findings.json"))).get("findings", [])
    except FileNotFoundError:
        return []


def report(ctx, kind, what, signature, replay):
    if ctx._match_known(signature) is None:
        for e in load_findings():
            m = e.get("match") or {}
            if e.get("status") == "known" and m and all(signature.get(k) == v for k, v in m.items()):
                if e["id"] not in [k.get("id") for k in ctx.known_hits]:
                    ctx.known_hits.append(e)
                    print(f"KNOWN-FINDING: property={ctx.prop} {e.get('what', '')}", flush=True)
                return
    ctx.violation(kind, what, signature=signature, replay=replay)


def regen(ctx):
    keys = gokeys.extract(REPO)
    ctx.write_gen("RedisKeys.lean", gokeys.render_keys_lean(keys))
    ctx.write_gen("Crc16Tab.lean", gokeys.render_crc_lean(gokeys.crc_table(REPO)))
    return keys


def oracle(op, out):
    """Property statement on the implementation's output.  Returns list of (message, signature)."""
    w = op.split()
    cluster, n, ul = w[1] == "1", int(w[2]), w[3] == "1"
    prefix, ch = unhx(w[5]), unhx(w[6])
    if out == "PANIC":
        return [("key builder panicked", {"kind": "panic"})]
    d = parse_line(out)
    res = []
    mode = "non-cluster" if not cluster else ("cluster-sharded" if n > 0 else "cluster")
    for name, v in d.items():
        if isinstance(v, tuple) and redis_slot(v[0]) != v[1]:
            res.append((f"redisSlot({v[0]!r}) = {v[1]}, Redis computes {redis_slot(v[0])}", {"kind": "redisSlot", "key": name}))
    if cluster:
        for g, names in GROUPS.items():
            ks = [k for k in names(ul) if k in d]
            if g == "mapBroker" and n == 0:
                continue
            slots = {k: redis_slot(d[k][0]) for k in ks}
            if len(set(slots.values())) > 1:
                res.append((f"{g}: keys of one script in different slots {slots} (channel {ch!r}, prefix {prefix!r})",
                            {"kind": "slots-differ", "mode": mode if g != "presence" else "cluster",
                             "channel": channel_class(ch) if (g == "presence" or n == 0) else "any",
                             "prefix_has_open_brace": b"{" in prefix}))
    if d.get("xb") != ch:
        res.append((f"extractChannel(messageChannelID({ch!r})) = {d.get('xb')!r}", {"kind": "extractChannel", "mode": mode, "broker": "RedisBroker"}))
    if "xm" in d and d["xm"] != ch:
        res.append((f"map extractChannel(messageChannelID({ch!r})) = {d.get('xm')!r}", {"kind": "extractChannel", "mode": mode, "broker": "RedisMapBroker"}))
    return res


def tag_plausible(op, tag, tables):
    w = op.split()
    n, use_pre = int(w[2]), w[4] == "1"
    if n == 0:
        return tag == b""
    if use_pre:
        return tag.decode() in tables.get(n, [])
    return re.fullmatch(rb"[0-9]+", tag) is not None and int(tag) < n


def parse_tables():
    src = open(os.path.join(REPO, "internal", "redispartition", "precomputed.go")).read()
    tables = {}
    for m in re.finditer(r"\t(\d+): \{(.*?)\n\t\},", src, re.S):
        tables[int(m.group(1))] = re.findall(r'"([^"]*)"', m.group(2))
    return tables


def run(ctx):
    ctx.rule = ("random configuration (non-cluster / cluster / cluster with N partitions, decimal or bundled tags, lists or "
                "streams) × prefix (default, empty, punctuation, some with braces) × channel (empty, leading '}', brace/dot "
                "mixes, ASCII, arbitrary bytes) × idempotency key; non-trivial = cluster mode; distinct = distinct op line")
    ctx.assumptions = [
        "which keys go to one script is taken from the script.Exec call sites by hand (Model/RedisKeys.lean groups)",
        "prefix contains no '{' (theorem hypothesis NoBrace); prefixes with '{' are generated but only compared, not judged",
        "partition tag = pubSubPartitionHashTag(consistentIndex(ch, N)) is taken from the implementation's output "
        "(consistentIndex uses float arithmetic and is not modelled); the check validates that it is a decimal < N or a bundled tag",
    ]
    try:
        regen(ctx)
    except (gokeys.TranslateError, OSError) as e:
        ctx.violation("proof", f"Go key builders can no longer be translated: {e}",
                      signature={"kind": "translator"}, replay={"error": str(e)}, no_input=True)
        return
    proofs_ok = ctx.lean_obligations()
    binary = ctx.go_test_binary(".", [HARNESS])
    if binary is None:
        ctx.violation("correspondence", "harness no longer builds against package centrifuge",
                      signature={"kind": "harness-build"}, replay={"log": getattr(ctx, "build_error", "")}, no_input=True)
        return
    tables = parse_tables()
    if ctx.replay:
        ops = [o.split(" tag=")[0] for o in json.load(open(ctx.replay)).get("ops", [])]
    else:
        corpus = [l.strip() for l in open(os.path.join(HERE, "corpus.ops")) if l.strip() and not l.startswith("#")]
        known_ops = [o for f in load_findings() for o in f.get("replay", {}).get("ops", [])]
        ops = corpus + known_ops + [gen_op(ctx.rng) for _ in range(ctx.scale(4000, 150000))]
    impl = ctx.go_run(binary, "TestVerifC34", ops)
    # second pass: hand the implementation's partition tag to the model
    lops = []
    for i, op in enumerate(ops):
        out = impl[i] if i < len(impl) else ""
        if op.startswith("keys") and out.startswith("tag="):
            lops.append(op + " " + out.split()[0])
        else:
            lops.append(op)
    model = ctx.lean_run(lops)
    if model is None:
        proofs_ok = False
        model = []
    ctx.traces_validated = len(ops)
    nviol = ndiff = 0
    for i, op in enumerate(ops):
        a = impl[i] if i < len(impl) else "<missing>"
        b = model[i] if i < len(model) else "<missing>"
        w = op.split()
        if w[0] == "keys":
            cluster, n = w[1] == "1", int(w[2])
            ch, prefix = unhx(w[6]), unhx(w[5])
            ctx.record(op, nontrivial=cluster)
            mode = "non-cluster" if not cluster else ("cluster-sharded" if n > 0 else "cluster")
            ctx.count("mode:" + mode)
            ctx.count("channel:" + channel_class(ch))
            if b"{" in prefix:
                ctx.count("prefix-with-open-brace")
            if a == "<missing>":
                msgs = [("implementation produced no output", {"kind": "crash"})]
            else:
                msgs = oracle(op, a)
                if a.startswith("tag=") and not tag_plausible(op, unhx(a.split()[0][4:]), tables):
                    msgs.append(("partition tag is neither a decimal index < N nor a bundled tag", {"kind": "tag"}))
            for msg, sig in msgs:
                if sig.get("prefix_has_open_brace"):
                    ctx.count("outside-theorem:prefix-brace-slots-differ")
                    continue   # outside the stated precondition; proved possible (keys_not_same_slot_prefix_brace)
                sig.pop("prefix_has_open_brace", None)
                nviol += 1
                ctx.count("oracle:" + sig["kind"])
                report(ctx, "property", msg, sig, {"ops": [lops[i]], "impl": [a]})
        if a != b:
            ndiff += 1
            if ndiff <= 3 and model:
                ctx.violation("correspondence", f"model and implementation differ on `{op}`: impl `{a[:300]}` model `{b[:300]}`",
                              signature={"kind": "diff", "op": w[0]}, replay={"ops": [lops[i]], "impl": [a], "model": [b]},
                              no_input=(nviol == 0))
    # Spec.RedisSlot vs the independent Python slot on every key the implementation produced (sample)
    keys = []
    for a in impl[:3000]:
        if a.startswith("tag="):
            keys += [v[0] for v in parse_line(a).values() if isinstance(v, tuple)]
    keys = keys[:ctx.scale(3000, 40000)]
    sp = ctx.lean_run(["spec " + hx(k) for k in keys]) or []
    for k, line in zip(keys, sp):
        if line != f"slot={redis_slot(k)}":
            ctx.violation("correspondence", f"Spec.RedisSlot.slot({k!r}) = {line}, Python reference {redis_slot(k)}",
                          signature={"kind": "spec-slot"}, replay={"ops": ["spec " + hx(k)]}, no_input=True)
            break
    ctx.extra["spec_slot_checked"] = len(sp)
    ctx.extra["disagreements"] = ndiff
    if not proofs_ok:
        ctx.proof_broken()
