"""Translator for C34: symbolically executes the straight-line `strings.Builder` key builders of
broker_redis.go / presence_redis.go / map_broker_redis.go for every valuation of the three
configuration atoms (cluster, sharded = NumShardedPubSubPartitions > 0, useLists) and emits, per
builder, the ordered list of literal / parameter parts as `Gen/RedisKeys.lean`.  Also extracts the
CRC16 table of redis_cluster_slot.go (`Gen/Crc16Tab.lean`).

Anything outside the understood statement forms raises TranslateError (loud failure)."""
import itertools
import os
import re


class TranslateError(Exception):
    pass


BUILDERS = {
    "broker_redis.go": ("RedisBroker", ["messageChannelID", "resultCacheKey", "historyListKey", "historyStreamKey",
                                        "historyMetaKey"]),
    "presence_redis.go": ("RedisPresenceManager", ["presenceHashKey", "presenceSetKey", "userSetKey", "userHashKey"]),
    "map_broker_redis.go": ("RedisMapBroker", ["streamKey", "metaKey", "stateHashKey", "stateOrderKey", "stateExpireKey",
                                               "stateMetaKey", "cleanupRegistrationKeyForChannel", "resultCacheKey",
                                               "messageChannelID"]),
}
LEAN_NAME = {"RedisBroker": "broker", "RedisPresenceManager": "presence", "RedisMapBroker": "mapBroker"}


def func_body(src, typ, name):
    m = re.search(r"^func \((\w+) \*" + typ + r"\) " + name + r"\(([^)]*)\)[^{]*\{\n", src, re.M)
    if not m:
        raise TranslateError(f"func ({typ}) {name} not found")
    depth, i = 1, m.end()
    while depth:
        if i >= len(src):
            raise TranslateError("unbalanced braces in " + name)
        c = src[i]
        if c == '"':
            j = i + 1
            while src[j] != '"':
                j += 2 if src[j] == "\\" else 1
            i = j
        elif c == "'":
            i = src.index("'", i + 2 if src[i + 1] == "\\" else i + 1)
        elif c == "/" and src[i + 1] == "/":
            i = src.index("\n", i)
            continue
        elif c == "{":
            depth += 1
        elif c == "}":
            depth -= 1
        i += 1
    params = [p.strip().split()[0] for p in m.group(2).split(",") if p.strip()]
    return m.group(1), params, src[m.end():i - 1]


def strip_comments(body):
    out = []
    for line in body.splitlines():
        # no key builder has `//` inside a string literal; verify
        i = line.find("//")
        if i >= 0:
            if line[:i].count('"') % 2 == 1:
                raise TranslateError("'//' inside a literal: " + line)
            line = line[:i]
        line = line.strip()
        if line:
            out.append(line)
    return out


class Interp:
    def __init__(self, src, typ, recv_consts):
        self.src, self.typ, self.consts = src, typ, recv_consts

    def cond(self, c, val, recv):
        c = c.strip()
        neg = False
        if c.startswith("!"):
            neg, c = True, c[1:].strip()
        if c == "s.isCluster":
            v = val["cluster"]
        elif re.fullmatch(recv + r"\.useShardedPubSub\(s\)", c):
            v = val["cluster"] and val["sharded"]
        elif re.fullmatch(recv + r"\.(config|conf)\.NumShardedPubSubPartitions > 0", c):
            v = val["sharded"]
        elif re.fullmatch(recv + r"\.(config|conf)\.UseLists", c):
            v = val["useLists"]
        else:
            raise TranslateError("unsupported condition: " + c)
        return (not v) if neg else v

    def atom(self, a, env, recv):
        a = a.strip()
        m = re.fullmatch(r'"((?:[^"\\])*)"', a)
        if m:
            return [("lit", m.group(1))]
        m = re.fullmatch(r"'([^'\\])'", a)
        if m:
            return [("lit", m.group(1))]
        if re.fullmatch(recv + r"\.(config|conf)\.Prefix", a):
            return [("prefix", None)]
        if a == recv + ".messagePrefix":
            return [("prefix", None), ("lit", self.consts["redisClientChannelPrefix"])]
        if a in ("ch",):
            return [("ch", None)]
        if a == "idempotencyKey":
            return [("idem", None)]
        if re.fullmatch(recv + r"\.pubSubPartitionHashTag\(idx\)", a):
            if "idx" not in env:
                raise TranslateError("idx used before consistentIndex")
            return [("tag", None)]
        if a in env and isinstance(env[a], list):
            return env[a]
        raise TranslateError("unsupported expression atom: " + a)

    def expr(self, e, env, recv):
        parts = []
        for a in split_plus(e):
            parts += self.atom(a, env, recv)
        return parts

    def run(self, name, val, args=None, depth=0):
        recv, params, body = func_body(self.src, self.typ, name)
        lines = strip_comments(body)
        env = {}
        if args:
            for p, a in zip(params, args):
                if a is not None:
                    env[p] = a
        out = []
        # block stack of (executing?, branch_taken?)
        stack = [True]
        taken = []
        i = 0
        while i < len(lines):
            ln = lines[i]
            i += 1
            live = all(stack)
            m = re.fullmatch(r"if (.*) \{", ln)
            if m:
                c = self.cond(m.group(1), val, recv) if live else False
                stack.append(c)
                taken.append(c)
                continue
            if ln == "} else {":
                if len(stack) < 2:
                    raise TranslateError("stray else in " + name)
                stack[-1] = not taken[-1]
                continue
            if ln == "}":
                if len(stack) < 2:
                    raise TranslateError("stray } in " + name)
                stack.pop()
                taken.pop()
                continue
            if not live:
                # still validate the statement form of dead branches (they are live under another valuation)
                continue
            if ln == "var builder strings.Builder" or ln.startswith("builder.Grow(") or ln.startswith("capacity :="):
                continue
            m = re.fullmatch(r"builder\.WriteString\((.*)\)", ln) or re.fullmatch(r"builder\.WriteByte\((.*)\)", ln)
            if m:
                out += self.expr(m.group(1), env, recv)
                continue
            m = re.fullmatch(r"idx := consistentIndex\(ch, " + recv + r"\.(config|conf)\.NumShardedPubSubPartitions\)", ln)
            if m:
                env["idx"] = True
                continue
            m = re.fullmatch(r"(\w+) :?= (.*)", ln)
            if m and m.group(1) not in ("idx",):
                env[m.group(1)] = self.expr(m.group(2), env, recv)
                continue
            m = re.fullmatch(r"return (?:channelID\()?builder\.String\(\)\)?", ln)
            if m:
                return out
            m = re.fullmatch(r"return " + recv + r"\.(\w+)\(s, ch, (.*)\)", ln)
            if m:
                if depth > 2:
                    raise TranslateError("call depth")
                return self.run(m.group(1), val, [None, None, self.expr(m.group(2), env, recv)], depth + 1)
            m = re.fullmatch(r"return channelID\((.*)\)", ln) or re.fullmatch(r"return (.*)", ln)
            if m:
                return self.expr(m.group(1), env, recv)
            raise TranslateError(f"unsupported statement in {name}: {ln}")
        raise TranslateError("no return reached in " + name)


def split_plus(e):
    parts, cur, q = [], "", None
    for c in e:
        if q:
            cur += c
            if c == q:
                q = None
        elif c in "\"'":
            q = c
            cur += c
        elif c == "+":
            parts.append(cur)
            cur = ""
        else:
            cur += c
    parts.append(cur)
    return parts


def merge_lits(parts):
    out = []
    for k, v in parts:
        if k == "lit" and out and out[-1][0] == "lit":
            out[-1] = ("lit", out[-1][1] + v)
        else:
            out.append((k, v))
    return out


def constants(repo):
    src = open(os.path.join(repo, "broker_redis.go")).read()
    c = {}
    for nm in ("redisClientChannelPrefix",):
        m = re.search(nm + r'\s*=\s*"([^"\\]*)"', src)
        if not m:
            raise TranslateError("const " + nm)
        c[nm] = m.group(1)
    # messagePrefix must be Prefix + redisClientChannelPrefix in both brokers
    for fn, pat in (("broker_redis.go", r"b\.messagePrefix = config\.Prefix \+ redisClientChannelPrefix"),
                    ("map_broker_redis.go", r"e\.messagePrefix = conf\.Prefix \+ redisClientChannelPrefix")):
        if not re.search(pat, open(os.path.join(repo, fn)).read()):
            raise TranslateError("messagePrefix initialisation changed in " + fn)
    for fn, typ, r in (("broker_redis.go", "RedisBroker", "b"), ("map_broker_redis.go", "RedisMapBroker", "e")):
        _, _, body = func_body(open(os.path.join(repo, fn)).read(), typ, "useShardedPubSub")
        if not re.fullmatch(r"return s\.isCluster && " + r + r"\.(config|conf)\.NumShardedPubSubPartitions > 0",
                            " ".join(strip_comments(body))):
            raise TranslateError("useShardedPubSub changed in " + fn)
        _, _, body = func_body(open(os.path.join(repo, fn)).read(), typ, "pubSubPartitionHashTag")
        if "strconv.Itoa(partitionIdx)" not in body or "partitionTags[partitionIdx]" not in body:
            raise TranslateError("pubSubPartitionHashTag changed in " + fn)
    return c


VALS = [dict(cluster=c, sharded=s, useLists=u) for c, s, u in itertools.product([False, True], repeat=3)]


def extract(repo):
    consts = constants(repo)
    res = {}
    for fn, (typ, names) in BUILDERS.items():
        src = open(os.path.join(repo, fn)).read()
        it = Interp(src, typ, consts)
        for nm in names:
            table = []
            for val in VALS:
                table.append(merge_lits(it.run(nm, val)))
            res[LEAN_NAME[typ] + "_" + nm] = table
    return res


def crc_table(repo):
    src = open(os.path.join(repo, "redis_cluster_slot.go")).read()
    m = re.search(r"var crc16tab = \[256\]uint16\{(.*?)\n\}", src, re.S)
    if not m:
        raise TranslateError("crc16tab not found")
    vals = [int(x, 16) for x in re.findall(r"0x[0-9a-fA-F]+", m.group(1))]
    if len(vals) != 256:
        raise TranslateError(f"crc16tab has {len(vals)} entries")
    # the loop body of redisSlot must still be the table-driven update and the 0x3FFF mask
    if not re.search(r"crc = \(crc << 8\) \^ crc16tab\[byte\(crc>>8\)\^key\[i\]\]", src) or "crc & 0x3FFF" not in src:
        raise TranslateError("redisSlot loop changed")
    return vals


def lean_bytes(s):
    return "[" + ", ".join(str(b) for b in s.encode()) + "]"


def lean_parts(parts):
    xs = []
    for k, v in parts:
        xs.append(f".lit {lean_bytes(v)}" if k == "lit" else "." + k)
    return "[" + ", ".join(xs) + "]"


def show(parts):
    return " ++ ".join(repr(v) if k == "lit" else k for k, v in parts)


def render_keys_lean(res):
    out = ["import CentrifugeVerif.Model.RedisKeysPart",
           "/-! GENERATED by props/C34/gokeys.py from broker_redis.go, presence_redis.go, map_broker_redis.go — do not edit.",
           "Per key builder: the ordered parts written for each valuation (cluster, sharded, useLists). -/",
           "namespace CentrifugeVerif.Gen.RedisKeys", "open CentrifugeVerif.RedisKeys", ""]
    for name, table in res.items():
        out.append(f"def {name} (cluster sharded useLists : Bool) : List Part :=")
        out.append("  match cluster, sharded, useLists with")
        for val, parts in zip(VALS, table):
            b = lambda x: "true" if x else "false"
            out.append(f"  | {b(val['cluster'])}, {b(val['sharded'])}, {b(val['useLists'])} => {lean_parts(parts)}  -- {show(parts)}")
        out.append("")
    out.append("end CentrifugeVerif.Gen.RedisKeys")
    return "\n".join(out) + "\n"


def render_crc_lean(vals):
    rows = []
    for i in range(0, 256, 8):
        rows.append("  " + ", ".join(f"0x{v:04x}" for v in vals[i:i + 8]))
    return ("/-! GENERATED by props/C34/gokeys.py from redis_cluster_slot.go (crc16tab) — do not edit. -/\n"
            "namespace CentrifugeVerif.Gen.Crc16Tab\n\ndef crc16tab : List Nat := [\n" + ",\n".join(rows) +
            "]\n\nend CentrifugeVerif.Gen.Crc16Tab\n")


def render_py(parts, prefix, ch, tag, idem):
    out = b""
    for k, v in parts:
        out += {"lit": (v or "").encode() if k == "lit" else b"", "prefix": prefix, "ch": ch, "tag": tag, "idem": idem}[k] \
            if k != "lit" else v.encode()
    return out


if __name__ == "__main__":
    r = extract("/repo")
    for k, t in r.items():
        print(k)
        for val, parts in zip(VALS, t):
            print("   ", {a: int(b) for a, b in val.items()}, show(parts))
