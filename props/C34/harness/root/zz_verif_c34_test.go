//go:build verif

package centrifuge

// Verification harness for C34 (injected with `go test -overlay`, never part of the repo).
//   keys <cluster 0|1> <N> <useLists 0|1> <usePre 0|1> <prefixhex> <chhex> <idemhex> [tag=<hex>]
// builds RedisBroker / RedisPresenceManager / RedisMapBroker values (no connection), calls the real key
// builders and extractChannel, hashes every key with the real redisSlot.  Output (fixed order):
//   tag=<hex> <name>=<keyhex>:<slot> ... xb=<hex> xm=<hex>
//   slot <hex>  ->  slot=<redisSlot(key)>

import (
	"bufio"
	"encoding/hex"
	"fmt"
	"os"
	"strconv"
	"strings"
	"testing"

	"github.com/centrifugal/centrifuge/internal/redispartition"
)

func verifC34Hex(b []byte) string {
	if len(b) == 0 {
		return "-"
	}
	return hex.EncodeToString(b)
}

func verifC34Unhex(s string) (string, bool) {
	if s == "-" {
		return "", true
	}
	b, err := hex.DecodeString(s)
	return string(b), err == nil
}

func verifC34Step(line string) (res string) {
	defer func() {
		if r := recover(); r != nil {
			res = "PANIC"
		}
	}()
	ws := strings.Fields(line)
	if len(ws) == 2 && ws[0] == "slot" {
		k, ok := verifC34Unhex(ws[1])
		if !ok {
			return "bad-op"
		}
		return fmt.Sprintf("slot=%d", redisSlot(k))
	}
	if len(ws) < 8 || ws[0] != "keys" {
		return "bad-op"
	}
	cluster := ws[1] == "1"
	n, err := strconv.Atoi(ws[2])
	if err != nil {
		return "bad-op"
	}
	useLists := ws[3] == "1"
	usePre := ws[4] == "1"
	prefix, ok1 := verifC34Unhex(ws[5])
	ch, ok2 := verifC34Unhex(ws[6])
	idem, ok3 := verifC34Unhex(ws[7])
	if !ok1 || !ok2 || !ok3 {
		return "bad-op"
	}
	var tags []string
	if usePre {
		tags, err = redispartition.FindTags(n)
		if err != nil {
			return "bad-op"
		}
	}
	s := &RedisShard{isCluster: cluster}
	b := &RedisBroker{config: RedisBrokerConfig{Prefix: prefix, NumShardedPubSubPartitions: n, UseLists: useLists},
		partitionTags: tags, messagePrefix: prefix + redisClientChannelPrefix}
	pm := &RedisPresenceManager{config: RedisPresenceManagerConfig{Prefix: prefix}}
	mb := &RedisMapBroker{conf: RedisMapBrokerConfig{Prefix: prefix, NumShardedPubSubPartitions: n}, partitionTags: tags,
		messagePrefix: prefix + redisClientChannelPrefix}
	var sb strings.Builder
	tag := ""
	if n > 0 {
		tag = b.pubSubPartitionHashTag(consistentIndex(ch, n))
	}
	sb.WriteString("tag=" + verifC34Hex([]byte(tag)))
	emit := func(name, key string) {
		sb.WriteString(fmt.Sprintf(" %s=%s:%d", name, verifC34Hex([]byte(key)), redisSlot(key)))
	}
	msg := b.messageChannelID(s, ch)
	emit("b.msg", string(msg))
	emit("b.result", string(b.resultCacheKey(s, ch, idem)))
	emit("b.list", string(b.historyListKey(s, ch)))
	emit("b.stream", string(b.historyStreamKey(s, ch)))
	emit("b.meta", string(b.historyMetaKey(s, ch)))
	emit("p.hash", string(pm.presenceHashKey(s, ch)))
	emit("p.set", string(pm.presenceSetKey(s, ch)))
	emit("p.uset", string(pm.userSetKey(s, ch)))
	emit("p.uhash", string(pm.userHashKey(s, ch)))
	mapOK := cluster == (n > 0) // the only configurations NewRedisMapBroker accepts
	var mmsg string
	if mapOK {
		emit("m.stream", mb.streamKey(s, ch))
		emit("m.meta", mb.metaKey(s, ch))
		emit("m.state", mb.stateHashKey(s, ch))
		emit("m.order", mb.stateOrderKey(s, ch))
		emit("m.expire", mb.stateExpireKey(s, ch))
		emit("m.smeta", mb.stateMetaKey(s, ch))
		emit("m.cleanup", mb.cleanupRegistrationKeyForChannel(s, ch))
		emit("m.result", mb.resultCacheKey(s, ch, idem))
		mmsg = mb.messageChannelID(s, ch)
		emit("m.msg", mmsg)
	}
	sb.WriteString(" xb=" + verifC34Hex([]byte(b.extractChannel(cluster, msg))))
	if mapOK {
		sb.WriteString(" xm=" + verifC34Hex([]byte(mb.extractChannel(mmsg))))
	}
	return sb.String()
}

func TestVerifC34(t *testing.T) {
	opsPath, outPath := os.Getenv("VERIF_OPS"), os.Getenv("VERIF_OUT")
	if opsPath == "" || outPath == "" {
		t.Skip("VERIF_OPS/VERIF_OUT not set")
	}
	in, err := os.Open(opsPath)
	if err != nil {
		t.Fatal(err)
	}
	defer in.Close()
	out, err := os.Create(outPath)
	if err != nil {
		t.Fatal(err)
	}
	defer out.Close()
	w := bufio.NewWriter(out)
	defer w.Flush()
	sc := bufio.NewScanner(in)
	sc.Buffer(make([]byte, 1<<20), 1<<26)
	for sc.Scan() {
		line := strings.TrimRight(sc.Text(), "\r\n")
		if line == "" || strings.HasPrefix(line, "#") {
			fmt.Fprintln(w, "#")
			continue
		}
		fmt.Fprintln(w, verifC34Step(line))
	}
}
