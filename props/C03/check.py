"""C03 — cache recovery delivers the newest visible publication.

Proof: lean/CentrifugeVerif/Props/C03.lean over Model/Recovery.lean.  Tie: the C02 harness
(props/C02/harness, real MemoryBroker + real client subscribe in synctest bubbles) driven with
RecoveryModeCache, client Recover and server AutoCacheRecover, a scripted OnCacheEmpty handler
(error / populated / not populated, publishing 0..3 publications), random eq/neq client and server
tags filters, RecoveryMaxPublicationLimit 0..5 and delta on/off.

Reading of the statement used by the oracle (and by `cache_recovered_iff`): "recovered=true exactly
when the newest publication *visible to the subscription* (passing server and client filters) is
found in the part of history that recovery scans, or the client already holds the current
position".  Without filters this is literally "the channel's newest publication is present in
history".  With filters that exclude every scanned publication the code answers
recovered = client-has-same-state although the channel's newest publication is in history; claiming
recovered=true there would tell a client that is *not* at the current position that it is up to date
while delivering nothing, and an older visible publication may already have been trimmed, so the
conservative answer is the correct one and is not flagged.  Such cases are counted in the histogram
under `literal-reading-differs(...)`, and `Props/C03.lean` carries a decided witness
(`cache_literal_reading_counterexample`).
"""
import os
import sys

sys.path.insert(0, os.path.join(os.path.dirname(os.path.abspath(__file__)), "..", "C02"))
import recovery_common as rc  # noqa: E402

REQUIRED = [
    "config:UseSingleFlight", "overlap:forward-history-parked", "overlap:singleflight,several-retained",
    "via:cmd", "via:connect",
    "state:no-stream(meta-expired-or-never)", "state:empty-top0", "state:cleared-top-kept(expired-or-removed)",
    "state:trimmed", "state:full", "req:no-recovery", "req:auto", "req:client-recover",
    "filters:exclude-all-scanned", "filters:exclude-newest-only", "filters:newest-visible", "filters:none",
    "limit:truncates-scan", "handler:invoked", "handler:retry", "handler:no-retry", "handler:registered-not-invoked",
    "req:client-has-same-state", "req:delta", "impl:rec=1", "impl:rec=0", "impl:disc=3004",
    "literal-reading-differs(newest-present,none-visible,recovered=false)",
]


def run(ctx):
    ctx.rule = ("random scenarios on one channel (publish with tag/size/TTL, clock advance with TTL and meta expiry, "
                "RemoveHistory) followed by cache-mode subscribes: client Recover and/or AutoCacheRecover, positions "
                "around top / 0 / beyond, current/stale/foreign/empty epochs, eq/neq client and server filters, "
                "scripted cache-empty handler (err | populated | not populated, 0..3 publishes), limit 0..5, delta; "
                "non-trivial = contains a subscribe whose state was observable; distinct = distinct scenario text")
    ctx.assumptions = [
        "single node, MemoryBroker, one channel per scenario; the only publications concurrent with a subscribe are "
        "those of the cache-empty handler (they reach the subscriber's buffer synchronously)",
        "operations happen at x.5 s of the virtual clock, sweepers at whole seconds",
        "part of the scenarios run with Config.UseSingleFlight and overlap the subscribe with an application-level "
        "forward Node.History parked inside the (wrapped) broker; the model ignores it: an unrelated read must not "
        "change what cache recovery finds",
        "statement read as 'newest visible publication' (see module docstring)",
    ]
    rc.run_check(ctx, "C03", "cache", {"cache": rc.c03_oracle}, {"cache": rc.c03_branch},
                 quick_n=500, thorough_n=20000, corpus_path="props/C03/corpus.ops", required=REQUIRED)
