//go:build verif

package centrifuge

// Verification harness for C02 / C03 (injected with `go test -overlay`, never part of the repo).
//
// One scenario = a `reset` line followed by operations; every scenario runs inside its own
// testing/synctest bubble against a real Node with the real MemoryBroker, so history TTL / meta TTL
// sweeps happen on the virtual clock.  Operations are performed at x.5 s of the virtual clock, the
// broker's sweepers wake at whole seconds.
//
//	reset meta=<s> limit=<n> [flight=1]         -> ok      (flight=1: Config.UseSingleFlight)
//	pub tag=<n> size=<n> ttl=<s>                -> off=<o> ep=<epoch index>
//	remove                                      -> ok
//	adv n=<s>                                   -> ok
//	sub [via=cmd|connect] mode=stream|cache rec= auto= off= ep= rej= delta= cf= sf= h= [w=<window>]
//	     -> rec=<0|1> pubs=<off:id,…> off=<o> ep=<e> pos=<o> was=<0|1> | err=<code> | disc=<code>
//
// via=cmd (default): client subscribe command (handleSubscribe).  via=connect: a server-side
// subscription returned by OnConnecting (ConnectReply.Subscriptions) whose recovery position comes
// from ConnectRequest.Subs[channel] (connectCmd copies Recover/Offset/Epoch/Delta only: no client
// tags filter and no reject flag exist on that path, so cf must be - and rej 0).
//
// w = events joined by + that happen right after the subscribe's (first) History call returned, i.e.
// while the subscribe is in flight: p<tag>.<size>.<ttl> publishes, s<k> re-delivers through the
// broker's event handler the publication k below the top that History just reported (a lagging
// PUB/SUB copy).  The real MemoryBroker is wrapped only to get that hook.
//
// ov=<limit> (cache mode): an application-level forward Node.History(channel, Limit: limit, no since)
// is started first and parked inside the wrapped broker's History (before it reads anything); the
// subscribe runs while it is parked; then it is released.  An unrelated forward read must not change
// what cache recovery finds (with UseSingleFlight the two reads must not be coalesced).
//
// Epoch strings are replaced by their first-seen index (1, 2, …); request epoch 0 = "", an index
// not seen yet = a foreign string.

import (
	"bufio"
	"context"
	"errors"
	"fmt"
	"os"
	"strconv"
	"strings"
	"sync"
	"testing"
	"testing/synctest"
	"time"

	"github.com/centrifugal/protocol"
)

const verifRecChannel = "verif:recovery"

type verifRecSub struct {
	connect        bool
	cache, auto    bool
	serverFilter   *protocol.FilterNode
	handlerSet     bool
	handlerErr     bool
	handlerPop     bool
	handlerPubs    [][3]int
	handlerInvoked int
	handlerOffsets []string
}

// verifRecBroker is the real MemoryBroker plus a one-shot hook that runs after History produced its
// result and before the result is handed back.
type verifRecBroker struct {
	*MemoryBroker
	after func(sp StreamPosition)

	gateMu  sync.Mutex
	armed   bool
	release chan struct{}
}

func (b *verifRecBroker) History(ch string, opts HistoryOptions) ([]*Publication, StreamPosition, error) {
	b.gateMu.Lock()
	var rel chan struct{}
	if b.armed && !opts.Filter.Reverse && opts.Filter.Since == nil {
		b.armed = false
		rel = b.release
	}
	b.gateMu.Unlock()
	if rel != nil {
		<-rel // parked before reading anything
	}
	pubs, sp, err := b.MemoryBroker.History(ch, opts)
	if err == nil && b.after != nil {
		f := b.after
		b.after = nil
		f(sp)
	}
	return pubs, sp, err
}

type verifRecPub struct {
	tag, id int
}

type verifRecScenario struct {
	t      *testing.T
	node   *Node
	broker *verifRecBroker
	pubs   map[string]map[uint64]verifRecPub
	epochs map[string]int
	nextID int
	cur    *verifRecSub
}

func verifRecKV(ws []string, k string) (string, bool) {
	for _, w := range ws {
		if strings.HasPrefix(w, k+"=") {
			return w[len(k)+1:], true
		}
	}
	return "", false
}

func verifRecInt(ws []string, k string) (int, bool) {
	v, ok := verifRecKV(ws, k)
	if !ok {
		return 0, false
	}
	n, err := strconv.Atoi(v)
	if err != nil || n < 0 {
		return 0, false
	}
	return n, true
}

func verifRecFilter(s string) (*protocol.FilterNode, bool) {
	if s == "-" {
		return nil, true
	}
	if len(s) < 2 {
		return nil, false
	}
	if _, err := strconv.Atoi(s[1:]); err != nil {
		return nil, false
	}
	switch s[0] {
	case 'e':
		return &protocol.FilterNode{Key: "t", Cmp: "eq", Val: s[1:]}, true
	case 'n':
		return &protocol.FilterNode{Key: "t", Cmp: "neq", Val: s[1:]}, true
	}
	return nil, false
}

func (s *verifRecScenario) epochIndex(e string) int {
	if i, ok := s.epochs[e]; ok {
		return i
	}
	i := len(s.epochs) + 1
	s.epochs[e] = i
	return i
}

func (s *verifRecScenario) epochString(i int) string {
	if i == 0 {
		return ""
	}
	for e, j := range s.epochs {
		if j == i {
			return e
		}
	}
	return "foreign" + strconv.Itoa(i)
}

func verifRecTags(tag, id int) map[string]string {
	tags := map[string]string{"id": strconv.Itoa(id)}
	if tag > 0 {
		tags["t"] = strconv.Itoa(tag)
	}
	return tags
}

func (s *verifRecScenario) publish(tag, size, ttl int) (StreamPosition, error) {
	id := s.nextID
	s.nextID++
	res, err := s.node.Publish(verifRecChannel, []byte(`{"id":`+strconv.Itoa(id)+`}`),
		WithHistory(size, time.Duration(ttl)*time.Second), WithTags(verifRecTags(tag, id)))
	if err == nil {
		if s.pubs[res.Epoch] == nil {
			s.pubs[res.Epoch] = map[uint64]verifRecPub{}
		}
		s.pubs[res.Epoch][res.Offset] = verifRecPub{tag: tag, id: id}
	}
	return res.StreamPosition, err
}

// redeliver hands a copy of an already published publication to the node once more, the way a
// lagging PUB/SUB message would arrive.
func (s *verifRecScenario) redeliver(epoch string, offset uint64) {
	p, ok := s.pubs[epoch][offset]
	if !ok {
		return
	}
	pub := &Publication{
		Offset: offset,
		Data:   []byte(`{"id":` + strconv.Itoa(p.id) + `}`),
		Tags:   verifRecTags(p.tag, p.id),
		Time:   time.Now().UnixMilli(),
	}
	_ = s.broker.MemoryBroker.eventHandler.HandlePublication(verifRecChannel, pub,
		StreamPosition{Offset: offset, Epoch: epoch}, false, nil)
}

// peek reports the broker's retained list without going through History (which would create the
// stream and refresh its meta deadline): `-` or top/epoch/len/first/last.
func (s *verifRecScenario) peek() string {
	mb := s.broker.MemoryBroker
	mb.historyHub.RLock()
	defer mb.historyHub.RUnlock()
	stream, ok := mb.historyHub.streams[verifRecChannel]
	if !ok {
		return "-"
	}
	items, top, _ := stream.Get(0, false, -1, false)
	var lo, hi uint64
	if len(items) > 0 {
		lo, hi = items[0].Offset, items[len(items)-1].Offset
	}
	return fmt.Sprintf("%d/%d/%d/%d/%d", top, s.epochIndex(stream.Epoch()), len(items), lo, hi)
}

func (s *verifRecScenario) start(meta, limit int, flight bool) error {
	node, err := New(Config{
		LogLevel:                    LogLevelNone,
		UseSingleFlight:             flight,
		HistoryMetaTTL:              time.Duration(meta) * time.Second,
		RecoveryMaxPublicationLimit: limit,
	})
	if err != nil {
		return err
	}
	mb, err := NewMemoryBroker(node, MemoryBrokerConfig{})
	if err != nil {
		return err
	}
	s.broker = &verifRecBroker{MemoryBroker: mb}
	node.SetBroker(s.broker)
	s.pubs = map[string]map[uint64]verifRecPub{}
	s.node = node
	s.epochs = map[string]int{}
	s.nextID = 1
	subOpts := func() SubscribeOptions {
		cur := s.cur
		opts := SubscribeOptions{
			EnableRecovery:    true,
			AllowTagsFilter:   true,
			AllowedDeltaTypes: []DeltaType{DeltaTypeFossil},
		}
		if cur != nil {
			if cur.cache {
				opts.RecoveryMode = RecoveryModeCache
			}
			opts.AutoCacheRecover = cur.auto
			opts.ServerTagsFilter = cur.serverFilter
		}
		return opts
	}
	node.OnConnecting(func(ctx context.Context, e ConnectEvent) (ConnectReply, error) {
		if cur := s.cur; cur != nil && cur.connect {
			return ConnectReply{Subscriptions: map[string]SubscribeOptions{verifRecChannel: subOpts()}}, nil
		}
		return ConnectReply{}, nil
	})
	node.OnConnect(func(client *Client) {
		client.OnSubscribe(func(e SubscribeEvent, cb SubscribeCallback) {
			cb(SubscribeReply{Options: subOpts()}, nil)
		})
	})
	if err := node.Run(); err != nil {
		return err
	}
	time.Sleep(500 * time.Millisecond)
	return nil
}

func (s *verifRecScenario) cacheEmpty(e CacheEmptyEvent) (CacheEmptyReply, error) {
	cur := s.cur
	cur.handlerInvoked++
	for _, p := range cur.handlerPubs {
		sp, err := s.publish(p[0], p[1], p[2])
		if err != nil {
			return CacheEmptyReply{}, err
		}
		cur.handlerOffsets = append(cur.handlerOffsets, strconv.FormatUint(sp.Offset, 10))
	}
	if cur.handlerErr {
		return CacheEmptyReply{}, errors.New("scripted cache empty error")
	}
	return CacheEmptyReply{Populated: cur.handlerPop}, nil
}

func (s *verifRecScenario) sub(ws []string) string {
	mode, _ := verifRecKV(ws, "mode")
	via, hasVia := verifRecKV(ws, "via")
	if !hasVia {
		via = "cmd"
	}
	if via != "cmd" && via != "connect" {
		return "bad-op"
	}
	rec, ok1 := verifRecInt(ws, "rec")
	auto, ok2 := verifRecInt(ws, "auto")
	offS, ok3 := verifRecKV(ws, "off")
	ep, ok4 := verifRecInt(ws, "ep")
	rej, ok5 := verifRecInt(ws, "rej")
	delta, ok6 := verifRecInt(ws, "delta")
	cfS, ok7 := verifRecKV(ws, "cf")
	sfS, ok8 := verifRecKV(ws, "sf")
	hS, ok9 := verifRecKV(ws, "h")
	if !(ok1 && ok2 && ok3 && ok4 && ok5 && ok6 && ok7 && ok8 && ok9) || (mode != "stream" && mode != "cache") {
		return "bad-op"
	}
	off, err := strconv.ParseUint(offS, 10, 64)
	if err != nil {
		return "bad-op"
	}
	cf, okc := verifRecFilter(cfS)
	sf, oks := verifRecFilter(sfS)
	if !okc || !oks {
		return "bad-op"
	}
	if via == "connect" && (cf != nil || rej == 1) {
		return "bad-op" // not expressible on the connect-time path
	}
	cur := &verifRecSub{connect: via == "connect", cache: mode == "cache", auto: auto == 1, serverFilter: sf}
	if hS != "-" {
		parts := strings.SplitN(hS, ":", 2)
		if len(parts) != 2 {
			return "bad-op"
		}
		cur.handlerSet = true
		switch parts[0] {
		case "err":
			cur.handlerErr = true
		case "0":
		case "1":
			cur.handlerPop = true
		default:
			return "bad-op"
		}
		if parts[1] != "" {
			for _, ps := range strings.Split(parts[1], "+") {
				f := strings.Split(ps, ".")
				if len(f) != 3 {
					return "bad-op"
				}
				var tr [3]int
				for i := range f {
					n, err := strconv.Atoi(f[i])
					if err != nil || n < 0 {
						return "bad-op"
					}
					tr[i] = n
				}
				cur.handlerPubs = append(cur.handlerPubs, tr)
			}
		}
	}
	wS, hasW := verifRecKV(ws, "w")
	if !hasW {
		wS = "-"
	}
	type wev struct {
		stale bool
		k     uint64
		p     [3]int
	}
	var window []wev
	if wS != "-" {
		if mode == "cache" {
			return "bad-op"
		}
		for _, es := range strings.Split(wS, "+") {
			if len(es) < 2 {
				return "bad-op"
			}
			switch es[0] {
			case 's':
				k, err := strconv.ParseUint(es[1:], 10, 64)
				if err != nil {
					return "bad-op"
				}
				window = append(window, wev{stale: true, k: k})
			case 'p':
				f := strings.Split(es[1:], ".")
				if len(f) != 3 {
					return "bad-op"
				}
				var tr [3]int
				for i := range f {
					n, err := strconv.Atoi(f[i])
					if err != nil || n < 0 {
						return "bad-op"
					}
					tr[i] = n
				}
				window = append(window, wev{p: tr})
			default:
				return "bad-op"
			}
		}
	}
	ovS, hasOv := verifRecKV(ws, "ov")
	ovLimit := 0
	if hasOv && ovS != "-" {
		n, err := strconv.Atoi(ovS)
		if err != nil || mode != "cache" || n == 0 {
			return "bad-op"
		}
		ovLimit = n
	} else {
		hasOv = false
	}
	s.cur = cur
	s.broker.after = nil
	if len(window) > 0 {
		s.broker.after = func(sp StreamPosition) {
			for _, e := range window {
				if e.stale {
					if sp.Offset >= e.k && sp.Offset-e.k >= 1 {
						s.redeliver(sp.Epoch, sp.Offset-e.k)
					}
					continue
				}
				if wsp, err := s.publish(e.p[0], e.p[1], e.p[2]); err == nil {
					cur.handlerOffsets = append(cur.handlerOffsets, strconv.FormatUint(wsp.Offset, 10))
				}
			}
		}
	}
	if cur.handlerSet {
		s.node.OnCacheEmpty(s.cacheEmpty)
	} else {
		s.node.OnCacheEmpty(nil)
	}

	pre := s.peek()
	ctx, cancelFn := context.WithCancel(context.Background())
	transport := newTestTransport(cancelFn)
	client, _, err := NewClient(SetCredentials(ctx, &Credentials{UserID: "verif"}), s.node, transport)
	if err != nil {
		return "harness-error new-client"
	}
	req := &protocol.SubscribeRequest{
		Channel: verifRecChannel,
		Recover: rec == 1,
		Offset:  off,
		Epoch:   s.epochString(ep),
		Tf:      cf,
	}
	if rej == 1 {
		req.Flag = subscriptionFlagRejectUnrecovered
	}
	if delta == 1 {
		req.Delta = string(DeltaTypeFossil)
	}
	crw := testReplyWriterWrapper()
	connReq := &protocol.ConnectRequest{}
	if cur.connect {
		connReq.Subs = map[string]*protocol.SubscribeRequest{verifRecChannel: {
			Recover: req.Recover, Offset: req.Offset, Epoch: req.Epoch, Delta: req.Delta,
		}}
	}
	var cerr, herr error
	rw := testReplyWriterWrapper()
	var connRes *protocol.SubscribeResult
	connOutcome := ""
	connectFailed := false
	doSubscribe := func() {
		cerr = client.connectCmd(connReq, &protocol.Command{}, time.Now(), crw.rw)
		if cerr != nil && !cur.connect {
			connectFailed = true
			return
		}
		if cur.connect {
			var d *Disconnect
			var dv Disconnect
			var e *Error
			switch {
			case cerr == nil:
				if len(crw.replies) > 0 && crw.replies[0].Connect != nil {
					connRes = crw.replies[0].Connect.Subs[verifRecChannel]
				}
				if connRes == nil {
					connOutcome = "no-reply"
				}
				client.triggerConnect()
				client.scheduleOnConnectTimers()
			case errors.As(cerr, &d):
				connOutcome = fmt.Sprintf("disc=%d", d.Code)
			case errors.As(cerr, &dv):
				connOutcome = fmt.Sprintf("disc=%d", dv.Code)
			case errors.As(cerr, &e):
				connOutcome = fmt.Sprintf("err=%d", e.Code)
			default:
				connOutcome = "harness-error connect " + cerr.Error()
			}
		} else {
			client.triggerConnect()
			client.scheduleOnConnectTimers()
			herr = client.handleSubscribe(req, &protocol.Command{Id: 1}, time.Now(), rw.rw)
		}
	}
	if hasOv {
		// park an unrelated forward read inside the broker, run the subscribe meanwhile, release
		rel := make(chan struct{})
		s.broker.gateMu.Lock()
		s.broker.armed, s.broker.release = true, rel
		s.broker.gateMu.Unlock()
		bgDone := make(chan struct{})
		go func() {
			defer close(bgDone)
			_, _ = s.node.History(verifRecChannel, WithHistoryFilter(HistoryFilter{Limit: ovLimit}))
		}()
		synctest.Wait()
		subDone := make(chan struct{})
		go func() {
			defer close(subDone)
			doSubscribe()
		}()
		synctest.Wait()
		close(rel)
		<-subDone
		<-bgDone
		s.broker.gateMu.Lock()
		s.broker.armed = false
		s.broker.gateMu.Unlock()
	} else {
		doSubscribe()
	}
	if connectFailed {
		return "harness-error connect"
	}
	synctest.Wait()

	var out string
	switch {
	case herr != nil:
		out = "harness-error handle-subscribe " + herr.Error()
	case connOutcome != "":
		out = connOutcome
	case !cur.connect && len(rw.replies) == 0:
		transport.mu.Lock()
		closed, d := transport.closed, transport.disconnect
		transport.mu.Unlock()
		if closed {
			out = fmt.Sprintf("disc=%d", d.Code)
		} else {
			out = "no-reply"
		}
	case !cur.connect && rw.replies[0].Error != nil:
		out = fmt.Sprintf("err=%d", rw.replies[0].Error.Code)
	default:
		res := connRes
		if !cur.connect {
			res = rw.replies[0].Subscribe
		}
		pubs := make([]string, 0, len(res.Publications))
		for _, p := range res.Publications {
			id := p.Tags["id"]
			if id == "" {
				id = "?"
			}
			if p.Time == -1 {
				id += "F"
			}
			pubs = append(pubs, strconv.FormatUint(p.Offset, 10)+":"+id)
		}
		client.mu.RLock()
		pos := client.channels[verifRecChannel].streamPosition.Offset
		client.mu.RUnlock()
		b := func(v bool) int {
			if v {
				return 1
			}
			return 0
		}
		out = fmt.Sprintf("rec=%d pubs=%s off=%d ep=%d pos=%d was=%d", b(res.Recovered), strings.Join(pubs, ","),
			res.Offset, s.epochIndex(res.Epoch), pos, b(res.WasRecovering))
		if !res.Positioned || !res.Recoverable {
			out += " flags-missing"
		}
	}
	s.broker.after = nil
	_ = client.close(DisconnectForceNoReconnect)
	synctest.Wait()
	return fmt.Sprintf("%s pre=%s post=%s hi=%d hp=%s", out, pre, s.peek(), cur.handlerInvoked, strings.Join(cur.handlerOffsets, ","))
}

func (s *verifRecScenario) step(line string) (res string) {
	defer func() {
		if r := recover(); r != nil {
			res = "PANIC"
		}
	}()
	ws := strings.Fields(line)
	if len(ws) == 0 {
		return "bad-op"
	}
	if s.node == nil {
		return "bad-op"
	}
	switch ws[0] {
	case "pub":
		tag, ok1 := verifRecInt(ws, "tag")
		size, ok2 := verifRecInt(ws, "size")
		ttl, ok3 := verifRecInt(ws, "ttl")
		if !ok1 || !ok2 || !ok3 {
			return "bad-op"
		}
		sp, err := s.publish(tag, size, ttl)
		if err != nil {
			return "error " + err.Error()
		}
		return fmt.Sprintf("off=%d ep=%d", sp.Offset, s.epochIndex(sp.Epoch))
	case "remove":
		if len(ws) != 1 {
			return "bad-op"
		}
		if err := s.node.RemoveHistory(verifRecChannel); err != nil {
			return "error " + err.Error()
		}
		return "ok"
	case "adv":
		n, ok := verifRecInt(ws, "n")
		if !ok {
			return "bad-op"
		}
		time.Sleep(time.Duration(n) * time.Second)
		synctest.Wait()
		return "ok"
	case "sub":
		return s.sub(ws[1:])
	}
	return "bad-op"
}

func verifRecoveryRun(t *testing.T) {
	in, err := os.Open(os.Getenv("VERIF_OPS"))
	if err != nil {
		t.Skip("no VERIF_OPS")
	}
	defer in.Close()
	outF, err := os.Create(os.Getenv("VERIF_OUT"))
	if err != nil {
		t.Fatal(err)
	}
	defer outF.Close()
	w := bufio.NewWriter(outF)
	defer w.Flush()
	sc := bufio.NewScanner(in)
	sc.Buffer(make([]byte, 1<<20), 1<<26)
	var scenarios [][]string
	for sc.Scan() {
		line := sc.Text()
		if strings.HasPrefix(line, "reset") || len(scenarios) == 0 {
			scenarios = append(scenarios, nil)
		}
		scenarios[len(scenarios)-1] = append(scenarios[len(scenarios)-1], line)
	}
	for _, lines := range scenarios {
		outs := make([]string, len(lines))
		for i := range outs {
			outs[i] = "<not-run>"
		}
		lines := lines
		synctest.Test(t, func(t *testing.T) {
			s := &verifRecScenario{t: t}
			defer func() {
				if s.node != nil {
					_ = s.node.Shutdown(context.Background())
					// let delayed jobs (sub dissolver, timers) drain so the bubble can end
					time.Sleep(10 * time.Second)
					synctest.Wait()
				}
			}()
			for i, line := range lines {
				if line == "" || strings.HasPrefix(line, "#") {
					outs[i] = "#"
					continue
				}
				ws := strings.Fields(line)
				if ws[0] == "reset" {
					meta, ok1 := verifRecInt(ws, "meta")
					limit, ok2 := verifRecInt(ws, "limit")
					if !ok1 || !ok2 || s.node != nil {
						outs[i] = "bad-op"
						continue
					}
					fl, _ := verifRecKV(ws, "flight")
					if err := s.start(meta, limit, fl == "1"); err != nil {
						outs[i] = "error " + err.Error()
						continue
					}
					outs[i] = "ok"
					continue
				}
				outs[i] = s.step(line)
			}
		})
		for _, o := range outs {
			fmt.Fprintln(w, o)
		}
		w.Flush()
	}
}

func TestVerifC02(t *testing.T) { verifRecoveryRun(t) }

func TestVerifC03(t *testing.T) { verifRecoveryRun(t) }
