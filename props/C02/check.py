"""C02 — stream recovery is exact or explicitly refused.

Proof: lean/CentrifugeVerif/Props/C02.lean over Model/Recovery.lean (+ Model/RecoveryHub.lean for the
reachable-state invariant).  Tie: random publish / trim(size) / expire(TTL) / remove / meta-expire
histories on the real MemoryBroker inside synctest bubbles, then a real client subscribe with Recover;
reply fields are compared with the Lean driver on the same op lines, and the property statement is
evaluated on the implementation's own observations (publish log, peeked retained range, reply).
"""
import os
import sys

sys.path.insert(0, os.path.dirname(os.path.abspath(__file__)))
import recovery_common as rc  # noqa: E402

REQUIRED = [
    "window:events", "window:fresh-publication", "window:stale-copy",
    "window:fresh-publication-while-recovering-a-gap", "impl:disc=3010",
    "via:cmd", "via:connect", "via:connect,stale-epoch,offset-retained",
    "state:no-stream(meta-expired-or-never)", "state:meta-expired(new-epoch,top0)", "state:empty-top0",
    "state:cleared-top-kept(expired-or-removed)", "state:cleared-after-remove-op", "state:trimmed", "state:full",
    "req:epoch-mismatch", "req:epoch-empty", "req:epoch-match", "req:offset-beyond-top", "req:offset=top",
    "req:gap-not-retained", "req:gap-retained", "req:limit-truncates", "req:offset-near-maxuint64", "filters:set",
    "filters:exclude-all-after-offset", "filters:exclude-some", "filters:exclude-none",
    "impl:rec=1", "impl:rec=0", "impl:err=112",
]


def run(ctx):
    ctx.rule = ("random scenarios on one channel: publish (tag, per-call history size and TTL), advance the virtual clock "
                "(TTL expiry keeps top, meta expiry resets epoch), RemoveHistory, and client subscribes with Recover from "
                "offsets around/beyond top, 0, MaxUint64 and current/stale/future/foreign/empty epochs, with eq/neq tags "
                "filters (client and server), RejectUnrecovered flag and RecoveryMaxPublicationLimit 0..5; "
                "non-trivial = contains a subscribe whose state was observable; distinct = distinct scenario text")
    ctx.assumptions = [
        "single node, MemoryBroker (wrapped only to get a hook after History returned), one channel per scenario; "
        "traffic concurrent with a subscribe = publications made, and old publications re-delivered through the "
        "broker event handler, right after the subscribe's history read returned (they land in the PUB/SUB buffer)",
        "operations happen at x.5 s of the virtual clock, sweepers at whole seconds",
        "theorems assume RStream.Inv (retained list = contiguous suffix ending at top, top+1 < 2^64); it is proved "
        "inductive for the hub mini-model and validated on every peeked broker state",
    ]
    rc.run_check(ctx, "C02", "stream", {"stream": rc.c02_oracle}, {"stream": rc.c02_branch},
                 quick_n=500, thorough_n=20000, corpus_path="props/C02/corpus.ops", required=REQUIRED)
