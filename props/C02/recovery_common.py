"""Shared machinery of the C02 (stream recovery) and C03 (cache recovery) checks.

Scenario = `reset …` line + operations (see lean/CentrifugeVerif/Model/RecoveryDriver.lean for the line
protocol).  The Go harness (props/C02/harness/zz_verif_recovery_test.go, compiled into package
centrifuge) runs each scenario in a synctest bubble on the real MemoryBroker + a real client
subscribe; the Lean driver runs the model on the same lines.  The oracles below evaluate the property
statements on the implementation's own outputs, using only what the harness observed: the publish
log (stream positions returned by Publish), the retained range peeked from the broker before/after
the subscribe, and the subscribe reply.
"""
import concurrent.futures
import json
import threading

from vlib.core import ddmin

U64MAX = 2 ** 64 - 1
HARNESS = "props/C02/harness/zz_verif_recovery_test.go"
FILTERS = ["-", "-", "-", "e1", "e1", "e2", "n1", "n2", "e3"]


# ----------------------------------------------------------------------------- generator
def gen_filter_pair(rng, pfilter):
    if rng.random() >= pfilter:
        return "-", "-"
    k = rng.random()
    if k < 0.45:
        return rng.choice(FILTERS[3:]), "-"
    if k < 0.75:
        return "-", rng.choice(FILTERS[3:])
    return rng.choice(FILTERS[3:]), rng.choice(FILTERS[3:])


def gen_sub(rng, mode, g, sizes, ttls, tags, flight=False, limit=0):
    top = g["top"]
    r = rng.random()
    if r < 0.18:
        off = top
    elif r < 0.50:
        off = max(0, top - rng.choice([1, 1, 2, 2, 3, 4, 6, 9]))
    elif r < 0.60:
        off = 0
    elif r < 0.64:
        off = 1
    elif r < 0.72:
        off = top + 1
    elif r < 0.76:
        off = top + rng.choice([2, 5, 1000])
    elif r < 0.80:
        off = U64MAX
    elif r < 0.82:
        off = U64MAX - 1
    elif r < 0.86:
        off = g["total"]
    else:
        off = rng.randint(0, top + 2)
    eps = max(1, g["eps"])
    r = rng.random()
    if r < 0.58:
        ep = eps
    elif r < 0.70:
        ep = 0
    elif r < 0.80:
        ep = rng.randint(1, eps)
    elif r < 0.86:
        ep = eps + 1
    elif r < 0.94:
        ep = 999
    else:
        ep = max(1, eps - 1)
    cache = mode == "cache"
    rec = 1 if rng.random() < (0.75 if cache else 0.93) else 0
    auto = 1 if rng.random() < (0.35 if cache else 0.08) else 0
    rej = 1 if rng.random() < 0.15 else 0
    delta = 1 if rng.random() < (0.2 if cache else 0.08) else 0
    cf, sf = gen_filter_pair(rng, g["pfilter"])
    h = "-"
    if rng.random() < (0.55 if cache else 0.04):
        kind = rng.choice(["err", "0", "0", "1", "1", "1", "1", "1"])
        pubs = []
        for _ in range(rng.choice([0, 1, 1, 2, 2, 3])):
            pubs.append(f"{rng.choice(tags)}.{rng.choice(sizes)}.{rng.choice(ttls)}")
        h = kind + ":" + "+".join(pubs)
    w = "-"
    if not cache and rng.random() < 0.4:
        # in-window events: fresh publications and late PUB/SUB copies of old ones, after the history read
        evs = []
        for _ in range(rng.choice([1, 1, 2, 2, 3, 4])):
            if rng.random() < 0.6:
                evs.append(f"p{rng.choice(tags)}.{rng.choice(sizes)}.{rng.choice(ttls)}")
            else:
                evs.append(f"s{rng.choice([0, 0, 1, 1, 2, 3, 5, max(0, top - off), max(0, top - off - 1)])}")
        w = "+".join(evs)
    via = "connect" if rng.random() < 0.3 else "cmd"
    if via == "connect":
        # connectCmd copies only Recover/Offset/Epoch/Delta from ConnectRequest.Subs: no client filter, no flag
        if cf != "-" and sf == "-":
            sf = cf
        cf, rej = "-", 0
    ov = ""
    if cache and rng.random() < (0.6 if flight else 0.1):
        # an unrelated forward Node.History parked in the broker while the subscribe runs; usually with the
        # limit the cache recovery read itself uses (1 without filters, else RecoveryMaxPublicationLimit / no limit)
        same = 1 if (cf == "-" and sf == "-") else (limit if limit > 0 else -1)
        ov = f" ov={same if rng.random() < 0.8 else rng.choice([1, -1, 2])}"
    return (f"sub via={via} mode={mode} rec={rec} auto={auto} off={off} ep={ep} rej={rej} delta={delta} "
            f"cf={cf} sf={sf} h={h} w={w}{ov}")


def gen_scenario(rng, mode):
    """mode: 'stream' | 'cache' | 'mixed' (per-sub choice)."""
    meta = rng.choice([3, 4, 6, 10, 20, 60])
    limit = rng.choice([0, 0, 0, 1, 2, 3, 5])
    flight = mode != "stream" and rng.random() < 0.4
    ops = [f"reset meta={meta} limit={limit}" + (" flight=1" if flight else "")]
    size = rng.choice([1, 2, 3, 4, 6, 10])
    ttl = rng.choice([2, 3, 5, 8, 30])
    sizes = [size, size, size, rng.choice([1, 2, 5])]
    ttls = [ttl, ttl, ttl, rng.choice([2, 30])]
    tags = rng.choice([[1], [1, 2], [0, 1, 2], [1, 1, 1, 2], [2, 3], [2]])
    g = {"top": 0, "total": 0, "eps": 0, "idle": 0, "pfilter": rng.choice([0.0, 0.3, 0.6, 0.9])}

    def touch():
        if g["eps"] == 0 or g["idle"] >= meta:
            g["eps"] += 1
            g["top"] = 0
        g["idle"] = 0

    def one_sub():
        m = mode if mode != "mixed" else rng.choice(["stream", "cache"])
        line = gen_sub(rng, m, g, sizes, ttls, tags, flight, limit)
        touch()
        wspec = kvs(line).get("w", "-")
        if wspec != "-":
            npw = sum(1 for e in wspec.split("+") if e.startswith("p"))
            g["top"] += npw
            g["total"] += npw
        if " h=-" not in line and m == "cache":
            hspec = kvs(line)["h"]
            npub = 0 if hspec.endswith(":") else hspec.split(":", 1)[1].count("+") + 1
            g["top"] += npub      # only a guess: the handler may not be invoked
            g["total"] += npub
        return line
    n = rng.randint(3, 22)
    for _ in range(n):
        r = rng.random()
        if r < 0.55:
            touch()
            g["top"] += 1
            g["total"] += 1
            ops.append(f"pub tag={rng.choice(tags)} size={rng.choice(sizes)} ttl={rng.choice(ttls)}")
        elif r < 0.70:
            k = rng.choice([1, 1, 2, 3, 5, ttl, ttl + 1, meta, meta + 1, 70])
            g["idle"] += k
            ops.append(f"adv n={k}")
        elif r < 0.74:
            ops.append("remove")
        else:
            ops.append(one_sub())
    for _ in range(rng.choice([1, 2, 3])):
        ops.append(one_sub())
    return ops


# ----------------------------------------------------------------------------- parsing
def kvs(line):
    d = {}
    for w in line.split():
        if "=" in w:
            k, v = w.split("=", 1)
            d[k] = v
    return d


def parse_state(s):
    if s == "-" or s is None:
        return None
    top, ep, n, lo, hi = (int(x) for x in s.split("/"))
    return {"top": top, "ep": ep, "n": n, "lo": lo, "hi": hi}


def parse_sub_out(out):
    """-> dict(kind=reply|err|disc|other, …)."""
    d = kvs(out)
    r = {"raw": out, "pre": None, "post": None, "hi": 0, "hp": []}
    try:
        r["pre"] = parse_state(d.get("pre"))
        r["post"] = parse_state(d.get("post"))
        r["hi"] = int(d.get("hi", "0"))
        r["hp"] = [int(x) for x in d.get("hp", "").split(",") if x]
    except ValueError:
        r["kind"] = "other"
        return r
    if out.startswith("rec="):
        r["kind"] = "reply"
        try:
            r["rec"] = d["rec"] == "1"
            r["pubs"] = [(int(x.split(":")[0]), x.split(":")[1]) for x in d.get("pubs", "").split(",") if x]
            r["off"] = int(d["off"])
            r["ep"] = int(d["ep"])
            r["pos"] = int(d["pos"])
            r["was"] = d["was"] == "1"
        except (KeyError, ValueError, IndexError):
            r["kind"] = "other"
    elif out.startswith("err="):
        r["kind"] = "err"
        r["code"] = d["err"]
    elif out.startswith("disc="):
        r["kind"] = "disc"
        r["code"] = d["disc"]
    else:
        r["kind"] = "other"
    return r


def pass_one(f, tag):
    if f == "-":
        return True
    v = int(f[1:])
    return tag == v if f[0] == "e" else tag != v


def passes(op, tag):
    return pass_one(op["sf"], tag) and pass_one(op["cf"], tag)


def handler_spec(h):
    """-> None | (kind, [(tag,size,ttl)…])"""
    if h == "-":
        return None
    kind, ps = h.split(":", 1)
    pubs = [tuple(int(x) for x in p.split(".")) for p in ps.split("+") if p]
    return kind, pubs


class Track:
    """What the harness observed of one scenario: publish log per epoch index."""

    def __init__(self, reset_line):
        d = kvs(reset_line)
        self.meta = int(d.get("meta", "0"))
        self.limit = int(d.get("limit", "0"))
        self.flight = d.get("flight") == "1"
        self.log = {}       # epoch -> list of (offset, tag, id)
        self.nextid = 1
        self.removes = 0
        self.advs = 0
        # highest epoch index that existed before the subscribe being judged: a request epoch index
        # above it was sent as a foreign epoch string by the harness
        self.max_ep = 0

    def add(self, ep, off, tag):
        self.log.setdefault(ep, []).append((off, tag, self.nextid))
        self.nextid += 1

    def feed(self, op, out):
        """Update the log from a non-sub op and the implementation's output. Returns False when the
        output is not what the harness prints for a successful op."""
        w = op.split()[0]
        if w == "pub":
            d, o = kvs(op), kvs(out)
            if "off" not in o or "ep" not in o:
                self.nextid += 1
                return False
            self.add(int(o["ep"]), int(o["off"]), int(d["tag"]))
            self.max_ep = max(self.max_ep, int(o["ep"]))
            return True
        if w == "remove":
            self.removes += 1
        if w == "adv":
            self.advs += 1
        return out == "ok"

    def feed_sub(self, op, r):
        """Account the publishes of the cache-empty handler (offsets reported by the harness)."""
        d = kvs(op)
        if not r["hp"]:
            return
        ep = r["post"]["ep"] if r["post"] else 0
        wspec = d.get("w", "-")
        if wspec != "-":
            wtags = [int(e[1:].split(".")[0]) for e in wspec.split("+") if e.startswith("p")]
            for off, tag in zip(r["hp"], wtags):
                self.add(ep, off, tag)
            return
        hs = handler_spec(d.get("h", "-"))
        if not hs:
            return
        for off, (tag, _, _) in zip(r["hp"], hs[1]):
            self.add(ep, off, tag)


def state_invariant(st):
    """The hypothesis `RStream.Inv` of the theorems, on a peeked state. None = holds."""
    if st is None:
        return None
    if st["n"] == 0:
        return None
    if st["hi"] != st["top"] or st["hi"] - st["lo"] + 1 != st["n"] or st["lo"] < 1:
        return f"retained list {st} is not the contiguous suffix ending at top"
    return None


def log_sane(track, ep, top):
    offs = [o for o, _, _ in track.log.get(ep, [])]
    return offs == list(range(1, top + 1))


# ----------------------------------------------------------------------------- C02 oracle
def c02_facts(op, r, track):
    """Classification of one stream-mode subscribe from the implementation's observations."""
    if r["pre"] is None:
        # no stream before the subscribe: its history read created a fresh one (top 0, nothing retained);
        # the post state may already contain publications made while the subscribe was in flight
        if r["post"] is None:
            return None
        st = {"top": 0, "ep": r["post"]["ep"], "n": 0, "lo": 0, "hi": 0}
    else:
        st = r["pre"]
    E, top = st["ep"], st["top"]
    off, ep = int(op["off"]), int(op["ep"])
    epoch_ok = ep == 0 or (ep == E and ep <= track.max_ep)
    if off > top:
        missing = False
    elif off == top:
        missing = False
    else:
        missing = not (st["n"] > 0 and st["lo"] <= off + 1)
    truncated = track.limit > 0 and off < top and top - off > track.limit
    return {"E": E, "top": top, "off": off, "epoch_ok": epoch_ok, "beyond": off > top, "missing": missing,
            "truncated": truncated, "st": st, "fresh": r["pre"] is None}


def c02_oracle(opline, out, track):
    """Property C02 evaluated on the implementation's output. Returns (message|None, facts)."""
    op = kvs(opline)
    r = parse_sub_out(out)
    if r["kind"] == "other":
        return "unparseable/abnormal harness output: " + out[:80], None
    f = c02_facts(op, r, track)
    if f is None:
        return "no stream state observable after subscribe", None
    attempted = op["rec"] == "1"
    rej = op["rej"] == "1"
    window = op.get("w", "-") != "-"
    f["window"] = window
    f["window_stale"] = window and any(e.startswith("s") for e in op["w"].split("+"))
    f["window_pub"] = bool(r["hp"]) and window
    if r["kind"] == "disc":
        if r["code"] == "3010" and window:
            # PUB/SUB traffic during the subscribe: the merge may find a gap it cannot account for
            # (C39 / C01 territory); exactness of *when* is left to the model comparison
            return None, f
        return f"unexpected disconnect {r['code']} instead of a subscribe reply", f
    if r["kind"] == "err":
        if r["code"] != "112":
            return f"unexpected error {r['code']}", f
        if not (attempted and rej):
            return "unrecoverable-position error although the client did not demand it", f
        return None, f
    if not attempted:
        if r["rec"] or r["pubs"]:
            return "recovered / publications reported although no recovery was requested", f
        return None, f
    if not r["rec"]:
        if r["pubs"]:
            return "recovered=false but publications were returned", f
        if rej:
            return "client demanded rejection, got recovered=false reply instead of unrecoverable-position", f
        return None, f
    # recovered = true
    if not f["epoch_ok"]:
        return "recovered=true although the epoch differs", f
    if f["beyond"]:
        return "recovered=true although the requested offset is beyond the stream top", f
    if f["missing"]:
        return "recovered=true although a publication after the requested offset is missing from history", f
    if f["truncated"]:
        return "recovered=true although the recovery publication limit truncated the result", f
    top_now = r["post"]["top"] if r["post"] and r["post"]["ep"] == f["E"] else f["top"]
    if not log_sane(track, f["E"], top_now):
        return None, f   # harness lost track of the log (cannot happen unless Publish failed); no verdict
    exp = [(o, str(i)) for o, t, i in track.log.get(f["E"], []) if o > f["off"] and passes(op, t)]
    if r["pubs"] != exp:
        return f"recovered=true but publications {r['pubs'][:6]} are not exactly the unfiltered ones after the offset {exp[:6]}", f
    return None, f


def c02_branch(op, f, track):
    """Histogram keys for one subscribe."""
    keys = ["via:" + op.get("via", "cmd")]
    if f.get("window"):
        keys.append("window:events")
        if f.get("window_pub"):
            keys.append("window:fresh-publication")
        if f.get("window_stale"):
            keys.append("window:stale-copy")
        if f.get("window_pub") and f["epoch_ok"] and not f["beyond"] and not f["missing"] and not f["truncated"] \
                and f["off"] < f["top"]:
            keys.append("window:fresh-publication-while-recovering-a-gap")
    st = f["st"]
    if op.get("via") == "connect" and not f["epoch_ok"] and f["off"] <= f["top"] and not f["missing"]:
        keys.append("via:connect,stale-epoch,offset-retained")
    if f["fresh"]:
        keys.append("state:no-stream(meta-expired-or-never)")
        if f["E"] > 1:
            keys.append("state:meta-expired(new-epoch,top0)")
    elif st["top"] == 0:
        keys.append("state:empty-top0")
    elif st["n"] == 0:
        keys.append("state:cleared-top-kept(expired-or-removed)")
        if track.removes:
            keys.append("state:cleared-after-remove-op")
        if track.advs:
            keys.append("state:cleared-after-adv-op")
    elif st["lo"] > 1:
        keys.append("state:trimmed")
    else:
        keys.append("state:full")
    if not f["epoch_ok"]:
        keys.append("req:epoch-mismatch")
    elif int(op["ep"]) == 0:
        keys.append("req:epoch-empty")
    else:
        keys.append("req:epoch-match")
    if f["beyond"]:
        keys.append("req:offset-beyond-top")
    elif f["off"] == f["top"]:
        keys.append("req:offset=top")
    elif f["missing"]:
        keys.append("req:gap-not-retained")
    else:
        keys.append("req:gap-retained")
    if f["truncated"]:
        keys.append("req:limit-truncates")
    if f["off"] >= U64MAX - 1:
        keys.append("req:offset-near-maxuint64")
    if op["cf"] != "-" or op["sf"] != "-":
        keys.append("filters:set")
        after = [t for o, t, _ in track.log.get(f["E"], []) if o > f["off"]]
        if after and not f["missing"] and not f["beyond"]:
            npass = sum(1 for t in after if passes(op, t))
            keys.append("filters:exclude-all-after-offset" if npass == 0 else
                        "filters:exclude-none" if npass == len(after) else "filters:exclude-some")
    return keys


# ----------------------------------------------------------------------------- C03 oracle
def c03_visible(op, st, track, has_filter):
    """Newest publication of the scanned window that passes the filters (offset) or None."""
    if st["n"] == 0:
        return None
    if not has_filter:
        return st["hi"]
    lo = st["lo"]
    if track.limit > 0:
        lo = max(lo, st["hi"] - track.limit + 1)
    tags = {o: t for o, t, _ in track.log.get(st["ep"], [])}
    for o in range(st["hi"], lo - 1, -1):
        if o in tags and passes(op, tags[o]):
            return o
    return None


def c03_same(op, st, track):
    off, ep = int(op["off"]), int(op["ep"])
    return off > 0 and off == st["top"] and ep == st["ep"] and ep <= track.max_ep


def c03_oracle(opline, out, track):
    """Property C03 under the reading 'newest *visible* publication' (see props/C03/check.py)."""
    op = kvs(opline)
    r = parse_sub_out(out)
    if r["kind"] == "other":
        return "unparseable/abnormal harness output: " + out[:80], None
    post = r["post"]
    if post is None:
        return "no stream state observable after subscribe", None
    pre = r["pre"] if r["pre"] is not None else {"top": 0, "ep": post["ep"], "n": 0, "lo": 0, "hi": 0}
    has_filter = op["cf"] != "-" or op["sf"] != "-"
    attempted = op["rec"] == "1" or op["auto"] == "1"
    hs = handler_spec(op["h"])
    vis_pre = c03_visible(op, pre, track, has_filter)
    vis_post = c03_visible(op, post, track, has_filter)
    rec_pre = vis_pre is not None or c03_same(op, pre, track)
    invoked = r["hi"] > 0
    retry = invoked and hs is not None and hs[0] == "1" and not rec_pre
    dec = post if retry else pre
    vis_dec = vis_post if retry else vis_pre
    f = {"pre": pre, "post": post, "fresh": r["pre"] is None, "has_filter": has_filter, "vis_pre": vis_pre,
         "vis_dec": vis_dec, "same_dec": c03_same(op, dec, track), "invoked": invoked, "retry": retry, "attempted": attempted,
         "newest_present_dec": dec["n"] > 0, "dec": dec}
    if r["kind"] == "err":
        return f"unexpected error {r['code']} in cache recovery mode", f
    if r["kind"] == "disc":
        if r["code"] == "3004" and invoked and hs is not None and hs[0] == "err":
            return None, f
        return f"unexpected disconnect {r['code']} instead of a subscribe reply", f
    if not attempted:
        if r["rec"] or r["pubs"]:
            return "recovered / publications reported although no recovery was attempted", f
        return None, f
    if r["hi"] > 1:
        return "cache-empty handler invoked more than once", f
    if not r["rec"] and r["pubs"]:
        return "recovered=false but publications were returned", f
    delta = op["delta"] == "1"
    if not delta and len(r["pubs"]) > 1:
        return "more than one publication delivered without delta", f
    logE = track.log.get(post["ep"], [])
    byoff = {o: (t, i) for o, t, i in logE}
    prev = 0
    for o, i in r["pubs"]:
        if o not in byoff or str(byoff[o][1]) != i:
            return f"delivered publication {o}:{i} is not a publication of the current epoch", f
        if not passes(op, byoff[o][0]):
            return f"delivered publication {o} does not pass the subscription's filters", f
        if o <= prev:
            return "delivered publications are not in increasing offset order", f
        prev = o
    if r["pubs"]:
        last = r["pubs"][-1][0]
        newer = [o for o, t, _ in logE if o > last and passes(op, t)]
        if newer:
            return f"delivered publication {last} is stale: newer visible publication {newer[-1]} exists", f
    exp_rec = (vis_dec is not None) or f["same_dec"]
    if r["rec"] != exp_rec:
        if r["rec"]:
            return ("recovered=true although no visible publication is in (the scanned part of) history and the client "
                    "does not hold the current position"), f
        return "recovered=false although the newest visible publication is in history or the client holds the position", f
    if r["rec"] and not f["same_dec"] and not r["pubs"]:
        return "recovered=true for a client not at the current position, but nothing was delivered", f
    return None, f


def c03_branch(op, f, track):
    keys = ["via:" + op.get("via", "cmd")]
    pre = f["pre"]
    if track.flight:
        keys.append("config:UseSingleFlight")
    if op.get("ov", "-") != "-":
        keys.append("overlap:forward-history-parked")
        if track.flight and pre["n"] > 1 and f["attempted"]:
            keys.append("overlap:singleflight,several-retained")
    if f["fresh"]:
        keys.append("state:no-stream(meta-expired-or-never)")
    elif pre["top"] == 0:
        keys.append("state:empty-top0")
    elif pre["n"] == 0:
        keys.append("state:cleared-top-kept(expired-or-removed)")
    elif pre["lo"] > 1:
        keys.append("state:trimmed")
    else:
        keys.append("state:full")
    if not f["attempted"]:
        keys.append("req:no-recovery")
        return keys
    keys.append("req:auto" if op["rec"] == "0" else "req:client-recover")
    if f["has_filter"]:
        if pre["n"] > 0 and f["vis_pre"] is None:
            keys.append("filters:exclude-all-scanned")
            dec = f["dec"]
            if dec["n"] > 0 and f["vis_dec"] is None and not f["same_dec"]:
                keys.append("literal-reading-differs(newest-present,none-visible,recovered=false)")
        elif pre["n"] > 0 and f["vis_pre"] != pre["hi"]:
            keys.append("filters:exclude-newest-only")
        elif pre["n"] > 0:
            keys.append("filters:newest-visible")
        if track.limit > 0 and pre["n"] > track.limit:
            keys.append("limit:truncates-scan")
    else:
        keys.append("filters:none")
    if f["invoked"]:
        keys.append("handler:invoked")
        keys.append("handler:retry" if f["retry"] else "handler:no-retry")
    elif op["h"] != "-":
        keys.append("handler:registered-not-invoked")
    if f["same_dec"]:
        keys.append("req:client-has-same-state")
    if op["delta"] == "1":
        keys.append("req:delta")
    return keys


# ----------------------------------------------------------------------------- running
def split_scenarios(ops):
    scs = []
    for l in ops:
        if l.startswith("reset") or not scs:
            scs.append([])
        scs[-1].append(l)
    return scs


_run_lock = threading.Lock()


def go_run_parallel(ctx, binary, test, scenarios, workers=4):
    """Run scenarios on the harness, split over a few processes. Returns list of output-line lists
    (one per scenario; a crashed chunk yields shorter lists)."""
    if not scenarios:
        return []
    workers = max(1, min(workers, len(scenarios) // 8 or 1))
    chunks = [scenarios[i::workers] for i in range(workers)]

    def job(chunk):
        return _go_run_named(ctx, binary, test, [l for sc in chunk for l in sc])
    with concurrent.futures.ThreadPoolExecutor(max_workers=workers) as ex:
        outs = list(ex.map(job, chunks))
    res = [None] * len(scenarios)
    for w, chunk in enumerate(chunks):
        lines = outs[w]
        pos = 0
        for j, sc in enumerate(chunk):
            res[w + j * workers] = lines[pos:pos + len(sc)]
            pos += len(sc)
    return res


_counter = [0]


def _go_run_named(ctx, binary, test, ops):
    import os
    import subprocess
    from vlib.core import go_env
    with _run_lock:
        _counter[0] += 1
        n = _counter[0]
    opsf = os.path.join(ctx.tmp, f"rc_ops{n}.txt")
    outf = os.path.join(ctx.tmp, f"rc_out{n}.txt")
    open(opsf, "w").write("\n".join(ops) + "\n")
    e = go_env()
    e.update({"VERIF_OPS": opsf, "VERIF_OUT": outf, "VERIF_SEED": str(ctx.seed), "VERIF_TIER": ctx.tier})
    e.setdefault("GOMEMLIMIT", "4GiB")
    try:
        p = subprocess.run([binary, "-test.run", f"^{test}$", "-test.count=1", "-test.timeout=3000s"],
                           stdout=subprocess.PIPE, stderr=subprocess.STDOUT, text=True, env=e, timeout=3100, cwd=ctx.tmp)
        if p.returncode != 0:
            ctx.last_go_crash = p.stdout[-3000:]
            ctx.notes.append("harness process exited non-zero: " + p.stdout[-400:])
    except subprocess.TimeoutExpired:
        ctx.notes.append("harness process timeout")
    res = open(outf).read().splitlines() if os.path.exists(outf) else []
    for f in (opsf, outf):
        try:
            os.remove(f)
        except OSError:
            pass
    return res


def eval_scenario(sc, outs, oracles):
    """Run the oracles (dict: mode -> oracle function) over one scenario's implementation outputs.
    Returns (results, track); results = list of (index, message|None, facts, opline, out) for the
    sub lines, plus ("HARNESS:…") entries for operations the harness could not perform."""
    res = []
    track = Track(sc[0] if sc else "reset")
    if not sc or not sc[0].startswith("reset"):
        return res, track
    for i, op in enumerate(sc):
        out = outs[i] if i < len(outs) else "<missing>"
        if i == 0:
            if out != "ok":
                res.append((i, "HARNESS:" + out, None, op, out))
            continue
        w = op.split()[0] if op.split() else ""
        if w == "sub":
            r = parse_sub_out(out)
            # the log must contain the handler's publishes before the oracle looks at it
            if r["kind"] != "other":
                track.feed_sub(op, r)
            orc = oracles.get(kvs(op).get("mode"))
            if out == "<missing>" or out == "<not-run>":
                res.append((i, "HARNESS:" + out, None, op, out))
            elif orc is not None:
                msg, f = orc(op, out, track)
                res.append((i, msg, f, op, out))
            for st in (r.get("pre"), r.get("post")):
                if st:
                    track.max_ep = max(track.max_ep, st["ep"])
        elif w and not op.startswith("#"):
            if not track.feed(op, out):
                res.append((i, "HARNESS:" + out, None, op, out))
    return res, track


def msg_key(msg):
    """Stable short key of an oracle message (drops concrete numbers)."""
    import re
    return re.sub(r"[\[\(\{].*", "", re.sub(r"\d+", "N", msg)).strip()[:90]


def shrink_scenario(ctx, binary, test, sc, fails):
    """ddmin over the ops after `reset` (budgeted)."""
    budget = [80]

    def f(cand):
        if budget[0] <= 0:
            return False
        budget[0] -= 1
        return fails([sc[0]] + cand)
    body = sc[1:]
    try:
        if not f(body):
            return sc
        small = ddmin(body, f)
    except AssertionError:
        return sc
    return [sc[0]] + small


def run_check(ctx, prop, gen_mode, oracles, branchers, quick_n, thorough_n, corpus_path, required, findings=None):
    """Common driver of the C02 / C03 checks.
    oracles / branchers: dict mode -> function.  required: histogram keys the generator must reach."""
    test = "TestVerif" + prop
    proofs_ok = ctx.lean_obligations()
    ctx.log("lean obligations audited (includes waiting for the shared lake lock)")
    binary = ctx.go_test_binary(".", [HARNESS])
    ctx.log("go harness built")
    if binary is None:
        ctx.violation("correspondence", "harness no longer builds against package centrifuge",
                      signature={"kind": "harness-build"}, replay={"log": getattr(ctx, "build_error", "")},
                      no_input=True)
        if not proofs_ok:
            ctx.proof_broken()
        return
    if ctx.replay:
        scenarios = split_scenarios(json.load(open(ctx.replay)).get("ops", []))
    else:
        corpus = [l.rstrip("\n") for l in open(corpus_path) if l.strip() and not l.startswith("#")]
        scenarios = split_scenarios(corpus)
        for fd in (findings or []):
            scenarios.append(list(fd["replay"]["ops"]))
        n = ctx.scale(quick_n, thorough_n)
        scenarios += [gen_scenario(ctx.rng, gen_mode) for _ in range(n)]
    ctx.log(f"{len(scenarios)} scenarios, {sum(len(s) for s in scenarios)} ops")
    impl = go_run_parallel(ctx, binary, test, scenarios)
    ctx.log("implementation done")
    flat = [l for sc in scenarios for l in sc]
    drv = ctx.lean_driver_build()      # once: every lake call waits for the shared build lock
    model_flat = ctx.run_lines([drv], flat) if drv else None
    if model_flat is None:
        proofs_ok = False
        model_flat = []
    model, pos = [], 0
    for sc in scenarios:
        model.append(model_flat[pos:pos + len(sc)])
        pos += len(sc)
    ctx.log("model done")

    def impl_fails_with(key):
        def fails(cand):
            outs = _go_run_named(ctx, binary, test, cand)
            res, _ = eval_scenario(cand, outs, oracles)
            return any(m and not m.startswith("HARNESS:") and msg_key(m) == key for _, m, _, _, _ in res)
        return fails

    def differs(cand):
        outs = _go_run_named(ctx, binary, test, cand)
        mo = ctx.run_lines([drv], cand)
        return outs != mo and len(outs) == len(cand)

    nprop, ncorr, nsub, nharness = 0, 0, 0, 0
    for si, sc in enumerate(scenarios):
        outs = impl[si] or []
        res, track = eval_scenario(sc, outs, oracles)
        nontriv = False
        bad = None
        for i, msg, f, op, out in res:
            if msg and msg.startswith("HARNESS:"):
                nharness += 1
                ctx.count("harness-problem")
                if len(ctx.notes) < 10:
                    ctx.notes.append(f"harness could not run op `{op}`: {msg}")
                continue
            nsub += 1
            d = kvs(op)
            if f is not None:
                for k in branchers[d["mode"]](d, f, track):
                    ctx.count(k)
                nontriv = True
            ctx.count("impl:" + out.split()[0].split("=")[0] + ("=" + out.split()[0].split("=")[1]
                      if out.startswith(("rec=", "err=", "disc=")) else ""))
            if msg and bad is None:
                bad = (i, msg, op, out)
        for l in sc[1:]:
            ctx.count("op:" + l.split()[0])
        ctx.record(" ; ".join(sc), nontrivial=nontriv)
        if bad is not None:
            nprop += 1
            if nprop <= 3:
                i, msg, op, out = bad
                key = msg_key(msg)
                small = shrink_scenario(ctx, binary, test, sc[:i + 1], impl_fails_with(key))
                souts = _go_run_named(ctx, binary, test, small)
                sres, _ = eval_scenario(small, souts, oracles)
                smsgs = [(m, o) for _, m, _, o, _ in sres if m and not m.startswith("HARNESS:") and msg_key(m) == key]
                fop = kvs(smsgs[0][1]) if smsgs else kvs(op)
                sig = {"oracle": key, "mode": fop.get("mode"), "via": fop.get("via", "cmd"), "filters": fop.get("cf") != "-" or fop.get("sf") != "-",
                       "handler": fop.get("h", "-").split(":")[0]}
                ctx.violation("property", msg, signature=sig,
                              replay={"ops": small, "impl": souts, "original_ops": sc})
        # correspondence
        mo = model[si]
        if model_flat and outs != mo:
            ncorr += 1
            if ncorr <= 3:
                j = next((k for k in range(len(sc)) if (outs[k] if k < len(outs) else "<missing>") !=
                          (mo[k] if k < len(mo) else "<missing>")), 0)
                small = sc[:j + 1]
                if len(outs) == len(sc):
                    small = shrink_scenario(ctx, binary, test, small, differs)
                souts = _go_run_named(ctx, binary, test, small)
                smo = ctx.run_lines([drv], small)
                a = outs[j] if j < len(outs) else "<missing>"
                b = mo[j] if j < len(mo) else "<missing>"
                ctx.violation("correspondence", f"model and implementation differ at `{sc[j]}`: impl `{a}` model `{b}`",
                              signature={"kind": "diff", "op": sc[j].split()[0], "impl": a.split()[0], "model": b.split()[0]},
                              replay={"ops": small, "impl": souts, "model": smo,
                                      "correspondence": "Model/RecoveryDriver.lean vs subscribeCmd on MemoryBroker"},
                              no_input=(nprop == 0))
    ctx.traces_validated = sum(1 for si in range(len(scenarios)) if impl[si] and len(impl[si]) == len(scenarios[si]))
    ctx.extra["disagreements"] = ncorr
    ctx.extra["subscribes_checked"] = nsub
    ctx.extra["harness_problems"] = nharness
    missing = [k for k in required if not ctx.hist.get(k)]
    ctx.extra["required_branches_missing"] = missing
    if missing and not ctx.replay:
        ctx.notes.append("generator did not reach: " + ", ".join(missing))
    if not proofs_ok:
        ctx.proof_broken()
