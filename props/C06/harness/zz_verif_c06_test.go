//go:build verif

package centrifuge

// Verification harness for C06, store part (injected with `go test -overlay`, never part of the repo).
// Differential run of the real MemoryPresenceManager against the Lean model of presenceHub.
// Lines: `reset`, `add <ch> <uid> <clientID> <userID>`, `rm <ch> <uid>`, `get <ch>`, `stats <ch>`.

import (
	"bufio"
	"fmt"
	"os"
	"sort"
	"strings"
	"testing"
)

func vc06StoreStep(pm **MemoryPresenceManager, line string) (res string) {
	defer func() {
		if r := recover(); r != nil {
			res = "PANIC"
		}
	}()
	ws := strings.Fields(line)
	if len(ws) == 0 {
		return "bad-op"
	}
	switch {
	case ws[0] == "reset" && len(ws) == 1:
		m, err := NewMemoryPresenceManager(nil, MemoryPresenceManagerConfig{})
		if err != nil {
			return "ERR"
		}
		*pm = m
		return "ok"
	case ws[0] == "add" && len(ws) == 5:
		if err := (*pm).AddPresence(ws[1], ws[2], &ClientInfo{ClientID: ws[3], UserID: ws[4]}); err != nil {
			return "ERR"
		}
		return "ok"
	case ws[0] == "rm" && len(ws) == 3:
		if err := (*pm).RemovePresence(ws[1], ws[2], ""); err != nil {
			return "ERR"
		}
		return "ok"
	case ws[0] == "get" && len(ws) == 2:
		m, err := (*pm).Presence(ws[1])
		if err != nil {
			return "ERR"
		}
		if m == nil {
			return "nil"
		}
		keys := make([]string, 0, len(m))
		for k := range m {
			keys = append(keys, k)
		}
		sort.Strings(keys)
		parts := make([]string, 0, len(keys))
		for _, k := range keys {
			parts = append(parts, fmt.Sprintf("%s=%s/%s", k, m[k].ClientID, m[k].UserID))
		}
		return strings.Join(parts, ",")
	case ws[0] == "stats" && len(ws) == 2:
		st, err := (*pm).PresenceStats(ws[1])
		if err != nil {
			return "ERR"
		}
		return fmt.Sprintf("clients=%d users=%d", st.NumClients, st.NumUsers)
	}
	return "bad-op"
}

func TestVerifC06Store(t *testing.T) {
	in, err := os.Open(os.Getenv("VERIF_OPS"))
	if err != nil {
		t.Skip("no VERIF_OPS")
	}
	defer in.Close()
	out, err := os.Create(os.Getenv("VERIF_OUT"))
	if err != nil {
		t.Fatal(err)
	}
	defer out.Close()
	w := bufio.NewWriter(out)
	defer w.Flush()
	pm, _ := NewMemoryPresenceManager(nil, MemoryPresenceManagerConfig{})
	sc := bufio.NewScanner(in)
	sc.Buffer(make([]byte, 1<<20), 1<<26)
	for sc.Scan() {
		line := sc.Text()
		if line == "" || strings.HasPrefix(line, "#") {
			fmt.Fprintln(w, "#")
			continue
		}
		fmt.Fprintln(w, vc06StoreStep(&pm, line))
	}
}
