//go:build verif

package centrifuge

// Verification harness for C06, protocol part (injected with `go test -overlay`).
//
// One op line = one scenario on a real Node + Client + MemoryPresenceManager, all scenarios of a
// process inside one testing/synctest bubble; quiescence is detected with synctest.Wait (no sleeps,
// no real-time timeouts):
//
//	prun quiet=<0|1> [map=<0|1|2>] | <label> ...
//
// map=1 / map=2 combine EmitPresence with MapClientPresenceChannel / MapUserPresenceChannel on the
// subscription (MemoryMapBroker + GetMapChannelOptions configured): the regular presence entry is then
// removed by Client.removeMapPresence instead of the else-branch of Client.unsubscribe.
// Fault injection: mrfail=1 makes every MapBroker.Remove return an error (nothing removed there);
// prfail=1 makes PresenceManager.RemovePresence report an error AFTER the removal landed.
//
// Labels: S (start / advance the client-side subscribe attempt), Sf (the OnSubscribe handler answers
// with an error), Sl (the history read after the presence add fails), U (Client.Unsubscribe),
// C (Client.close), T (Client.updatePresence, i.e. one presence tick).
// Gates: OnSubscribe handler, PresenceManager.AddPresence (caller: subscribeCmd or the tick),
// Broker.History, PresenceManager.RemovePresence (caller: unsubscribe, close or the tick's
// compensation), Transport.Close, OnAlive handler.
// Output: `chan=<none|res|sub> present=<b> live=<actor@gate,...> settled=<b> | info=<ok|bad|-> stats=<c>/<u>`.

import (
	"bufio"
	"context"
	"fmt"
	"os"
	"runtime"
	"sort"
	"strings"
	"sync"
	"testing"
	"testing/synctest"
	"time"

	"github.com/centrifugal/protocol"
)

type vc06Gates struct {
	mu       sync.Mutex
	armed    bool
	parked   map[string]chan struct{}
	failSub  bool // next OnSubscribe answer is an error
	failHist bool // next Broker.History answer is an error
}

func (g *vc06Gates) gate(key string) {
	g.mu.Lock()
	if !g.armed {
		g.mu.Unlock()
		return
	}
	ch := make(chan struct{})
	g.parked[key] = ch
	g.mu.Unlock()
	<-ch
}

func (g *vc06Gates) parkedKeys() []string {
	g.mu.Lock()
	defer g.mu.Unlock()
	ks := make([]string, 0, len(g.parked))
	for k := range g.parked {
		ks = append(ks, k)
	}
	sort.Strings(ks)
	return ks
}

func (g *vc06Gates) release(key string) bool {
	g.mu.Lock()
	ch, ok := g.parked[key]
	if ok {
		delete(g.parked, key)
	}
	g.mu.Unlock()
	if ok {
		close(ch)
	}
	return ok
}

func vc06Stack() string {
	buf := make([]byte, 16384)
	n := runtime.Stack(buf, false)
	return string(buf[:n])
}

type vc06Broker struct {
	*MemoryBroker
	g *vc06Gates
}

func (b *vc06Broker) History(ch string, opts HistoryOptions) ([]*Publication, StreamPosition, error) {
	b.g.gate("S@history")
	b.g.mu.Lock()
	fail := b.g.failHist
	b.g.failHist = false
	b.g.mu.Unlock()
	if fail {
		return nil, StreamPosition{}, ErrorNotAvailable
	}
	return b.MemoryBroker.History(ch, opts)
}

type vc06Presence struct {
	*MemoryPresenceManager
	g          *vc06Gates
	failRemove bool
}

type vc06MapBroker struct {
	*MemoryMapBroker
	failRemove bool
}

func (b *vc06MapBroker) Remove(ctx context.Context, ch string, key string, opts MapRemoveOptions) (MapUpdateResult, error) {
	if b.failRemove {
		return MapUpdateResult{}, ErrorInternal
	}
	return b.MemoryMapBroker.Remove(ctx, ch, key, opts)
}

func (p *vc06Presence) AddPresence(ch string, uid string, info *ClientInfo) error {
	st := vc06Stack()
	switch {
	case strings.Contains(st, ".updatePresence"):
		p.g.gate("T@addpres")
	case strings.Contains(st, ".subscribeCmd"):
		p.g.gate("S@addpres")
	}
	return p.MemoryPresenceManager.AddPresence(ch, uid, info)
}

func (p *vc06Presence) RemovePresence(ch string, clientID string, userID string) error {
	st := vc06Stack()
	switch {
	case strings.Contains(st, ".compensateRacedPresence"):
		p.g.gate("T@rmpres")
	case strings.Contains(st, ".subscribeCmd") || strings.Contains(st, ".commitSubscription"):
		// rollback of the subscribe attempt itself: not gated (one harness step with the commit)
	case strings.Contains(st, "(*Client).close"):
		p.g.gate("C@rmpres")
	default:
		p.g.gate("U@rmpres")
	}
	err := p.MemoryPresenceManager.RemovePresence(ch, clientID, userID)
	if err == nil && p.failRemove {
		return ErrorInternal // the removal landed, the call reports a failure
	}
	return err
}

type vc06Transport struct {
	g *vc06Gates
}

func (t *vc06Transport) Write([]byte) error        { return nil }
func (t *vc06Transport) WriteMany(...[]byte) error { return nil }
func (t *vc06Transport) Close(Disconnect) error {
	t.g.gate("C@tclose")
	return nil
}
func (t *vc06Transport) Name() string                     { return "verif" }
func (t *vc06Transport) AcceptProtocol() string           { return "" }
func (t *vc06Transport) Protocol() ProtocolType           { return ProtocolTypeJSON }
func (t *vc06Transport) ProtocolVersion() ProtocolVersion { return ProtocolVersion2 }
func (t *vc06Transport) Unidirectional() bool             { return false }
func (t *vc06Transport) Emulation() bool                  { return false }
func (t *vc06Transport) DisabledPushFlags() uint64        { return PushFlagDisconnect }
func (t *vc06Transport) PingPongConfig() PingPongConfig {
	return PingPongConfig{PingInterval: 100 * time.Hour, PongTimeout: time.Hour}
}

type vc06World struct {
	g      *vc06Gates
	node   *Node
	client *Client
	actors map[string]chan struct{}
	cmdID  uint32
	errs   []string
}

func (w *vc06World) finished(name string) bool {
	d, ok := w.actors[name]
	if !ok {
		return true
	}
	select {
	case <-d:
		return true
	default:
		return false
	}
}

func (w *vc06World) gateOf(name string) string {
	for _, k := range w.g.parkedKeys() {
		if strings.HasPrefix(k, name+"@") {
			return k
		}
	}
	return ""
}

func (w *vc06World) advance(name string, start func()) {
	if _, live := w.actors[name]; live && w.finished(name) {
		delete(w.actors, name)
	}
	if _, live := w.actors[name]; !live {
		d := make(chan struct{})
		w.actors[name] = d
		go func() {
			defer close(d)
			defer func() {
				if r := recover(); r != nil {
					w.g.mu.Lock()
					w.errs = append(w.errs, fmt.Sprintf("panic:%s:%v", name, r))
					w.g.mu.Unlock()
				}
			}()
			start()
		}()
	} else {
		k := w.gateOf(name)
		if k == "" {
			w.errs = append(w.errs, "notparked:"+name)
			return
		}
		w.g.release(k)
	}
	synctest.Wait()
	for n := range w.actors {
		if w.finished(n) {
			delete(w.actors, n)
		}
	}
}

func (w *vc06World) step(label string) {
	switch label {
	case "S", "Sf", "Sl":
		w.g.mu.Lock()
		if label == "Sf" {
			w.g.failSub = true
		}
		if label == "Sl" {
			w.g.failHist = true
		}
		w.g.mu.Unlock()
		w.advance("S", func() {
			w.cmdID++
			w.client.HandleCommand(&protocol.Command{Id: w.cmdID, Subscribe: &protocol.SubscribeRequest{Channel: "ch"}}, 0)
		})
	case "U":
		w.advance("U", func() { w.client.Unsubscribe("ch") })
	case "C":
		w.advance("C", func() { _ = w.client.close(DisconnectForceNoReconnect) })
	case "T":
		w.advance("T", func() { w.client.updatePresence() })
	default:
		w.errs = append(w.errs, "badlabel:"+label)
	}
}

func (w *vc06World) liveList() []string {
	live := []string{}
	parked := map[string]bool{}
	for _, k := range w.g.parkedKeys() {
		live = append(live, k)
		parked[strings.SplitN(k, "@", 2)[0]] = true
	}
	for n := range w.actors {
		if !w.finished(n) && !parked[n] {
			live = append(live, n+"@wait")
		}
	}
	sort.Strings(live)
	return live
}

func (w *vc06World) observe() string {
	c := w.client
	c.mu.RLock()
	ctx, ok := c.channels["ch"]
	c.mu.RUnlock()
	ch := "none"
	if ok {
		ch = "res"
		if channelHasFlag(ctx.flags, flagSubscribed) {
			ch = "sub"
		}
	}
	live := w.liveList()
	present, info := "0", "-"
	pres, err := w.node.Presence("ch")
	if err != nil {
		info = "err"
	} else if ci, ok := pres.Presence[c.ID()]; ok {
		present = "1"
		info = "bad"
		if ci != nil && ci.ClientID == c.ID() && ci.UserID == "u1" {
			info = "ok"
		}
	}
	st, err := w.node.PresenceStats("ch")
	stats := "err"
	if err == nil {
		stats = fmt.Sprintf("%d/%d", st.NumClients, st.NumUsers)
	}
	settled := "0"
	if len(live) == 0 {
		settled = "1"
	}
	return fmt.Sprintf("chan=%s present=%s live=%s settled=%s | info=%s stats=%s", ch, present, strings.Join(live, ","), settled, info, stats)
}

func vc06Scenario(line string) (res string) {
	parts := strings.SplitN(line, "|", 2)
	if len(parts) != 2 || !strings.HasPrefix(strings.TrimSpace(parts[0]), "prun") {
		return "bad-op"
	}
	mapMode, mrFail, prFail := "0", false, false
	for _, kv := range strings.Fields(parts[0]) {
		if strings.HasPrefix(kv, "map=") {
			mapMode = strings.TrimPrefix(kv, "map=")
		}
		mrFail = mrFail || kv == "mrfail=1"
		prFail = prFail || kv == "prfail=1"
	}
	labelPart, expPart, hasExp := strings.Cut(parts[1], ";")
	labels := strings.Fields(labelPart)
	var exp []string
	if hasExp {
		expPart = strings.TrimSpace(expPart)
		if strings.HasPrefix(expPart, "exp=") {
			exp = strings.Split(strings.TrimPrefix(expPart, "exp="), "/")
		}
	}
	defer func() {
		if r := recover(); r != nil {
			res = fmt.Sprintf("PANIC %v", r)
		}
	}()
	g := &vc06Gates{parked: map[string]chan struct{}{}}
	w := &vc06World{g: g, actors: map[string]chan struct{}{}}
	conf := Config{
		LogLevel:                     LogLevelNone,
		ClientPresenceUpdateInterval: 1000 * time.Hour,
	}
	if mapMode != "0" {
		conf.Map = MapConfig{GetMapChannelOptions: func(string) MapChannelOptions {
			return MapChannelOptions{Mode: MapModeEphemeral, KeyTTL: 60 * time.Second, MinPageSize: 1}
		}}
	}
	node, err := New(conf)
	if err != nil {
		return "ERR new-node"
	}
	w.node = node
	if mapMode != "0" {
		mapBroker, err := NewMemoryMapBroker(node, MemoryMapBrokerConfig{})
		if err != nil {
			return "ERR map-broker"
		}
		node.SetMapBroker(&vc06MapBroker{MemoryMapBroker: mapBroker, failRemove: mrFail})
	}
	subOpts := SubscribeOptions{EmitPresence: true, EnablePositioning: true}
	switch mapMode {
	case "1":
		subOpts.MapClientPresenceChannel = "clients:ch"
	case "2":
		subOpts.MapUserPresenceChannel = "users:ch"
	}
	mb, _ := NewMemoryBroker(node, MemoryBrokerConfig{})
	node.SetBroker(&vc06Broker{MemoryBroker: mb, g: g})
	mp, _ := NewMemoryPresenceManager(node, MemoryPresenceManagerConfig{})
	node.SetPresenceManager(&vc06Presence{MemoryPresenceManager: mp, g: g, failRemove: prFail})
	node.OnConnecting(func(context.Context, ConnectEvent) (ConnectReply, error) {
		return ConnectReply{Credentials: &Credentials{UserID: "u1"}}, nil
	})
	node.OnConnect(func(c *Client) {
		c.OnSubscribe(func(e SubscribeEvent, cb SubscribeCallback) {
			g.gate("S@onsub")
			g.mu.Lock()
			fail := g.failSub
			g.failSub = false
			g.mu.Unlock()
			if fail {
				cb(SubscribeReply{}, ErrorPermissionDenied)
				return
			}
			cb(SubscribeReply{Options: subOpts}, nil)
		})
		c.OnAlive(func() { g.gate("T@alive") })
	})
	if err := node.Run(); err != nil {
		return "ERR run"
	}
	client, _, err := NewClient(context.Background(), node, &vc06Transport{g: g})
	if err != nil {
		return "ERR new-client"
	}
	w.client = client
	w.cmdID++
	client.HandleCommand(&protocol.Command{Id: w.cmdID, Connect: &protocol.ConnectRequest{}}, 0)
	synctest.Wait()
	g.mu.Lock()
	g.armed = true
	g.mu.Unlock()
	diverged := -1
	for i, l := range labels {
		w.step(l)
		if len(w.errs) > 0 {
			break
		}
		// the model's in-flight set after every label (when given): stop at the first difference, before a
		// later label could send a goroutine into a lock the model does not know to be held
		if i < len(exp) && strings.Join(w.liveList(), ",") != exp[i] {
			diverged = i
			break
		}
	}
	res = w.observe()
	if diverged >= 0 {
		res += fmt.Sprintf(" diverged=%d", diverged)
	}
	g.mu.Lock()
	errs := append([]string(nil), w.errs...)
	g.armed = false
	g.mu.Unlock()
	if len(errs) > 0 {
		res = "HARNESS-ERR " + strings.Join(errs, ",") + " " + res
	}
	for i := 0; i < 200; i++ {
		ks := g.parkedKeys()
		if len(ks) == 0 {
			break
		}
		// holders of presenceMu (tick, close) before the others
		pick := ks[0]
		for _, k := range ks {
			if strings.HasPrefix(k, "T@") || strings.HasPrefix(k, "C@rmpres") {
				pick = k
				break
			}
		}
		g.release(pick)
		synctest.Wait()
	}
	_ = client.close(DisconnectForceNoReconnect)
	synctest.Wait()
	time.Sleep(3 * time.Second)
	synctest.Wait()
	_ = node.Shutdown(context.Background())
	time.Sleep(3 * time.Second)
	synctest.Wait()
	return res
}

func TestVerifC06Proto(t *testing.T) {
	in, err := os.Open(os.Getenv("VERIF_OPS"))
	if err != nil {
		t.Skip("no VERIF_OPS")
	}
	defer in.Close()
	out, err := os.Create(os.Getenv("VERIF_OUT"))
	if err != nil {
		t.Fatal(err)
	}
	defer out.Close()
	wr := bufio.NewWriter(out)
	defer wr.Flush()
	sc := bufio.NewScanner(in)
	sc.Buffer(make([]byte, 1<<20), 1<<26)
	var lines []string
	for sc.Scan() {
		lines = append(lines, sc.Text())
	}
	// one bubble for all scenarios: internal/timers pools timers globally (see the C10 harness)
	synctest.Test(t, func(t *testing.T) {
		for _, line := range lines {
			if line == "" || strings.HasPrefix(line, "#") {
				fmt.Fprintln(wr, "#")
				continue
			}
			fmt.Fprintln(wr, vc06Scenario(line))
			wr.Flush()
		}
	})
}
