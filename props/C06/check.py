"""C06 — presence reflects live subscriptions; presence statistics count exactly the distinct clients/users.

(a) store: Lean theorem `presenceHub_stats` over Model/PresenceHub.lean (all add/remove sequences);
    tie = differential run of the real MemoryPresenceManager against the Lean driver on random
    add/remove/get/stats sequences + the statement itself evaluated on the implementation's outputs.
(b) protocol: see run_protocol (LTS Model/PresenceProto.lean, gate-scheduled harness).
"""
import json
import os

from vlib.core import diff_lines, VERIF

STORE_HARNESS = "props/C06/harness/zz_verif_c06_test.go"


# ------------------------------------------------------------------ (a) store
def gen_store_ops(rng, n_scen):
    ops = []
    for _ in range(n_scen):
        ops.append("reset")
        nch = rng.choice([1, 1, 2, 3])
        chans = [f"ch{i}" for i in range(nch)]
        nuid = rng.choice([1, 2, 3, 5, 8])
        uids = [f"c{i}" for i in range(nuid)]
        users = [f"u{i}" for i in range(rng.choice([1, 2, 3, 5]))] + ([""] if rng.random() < 0.2 else [])
        for _ in range(rng.choice([3, 8, 15, 30])):
            r = rng.random()
            ch = rng.choice(chans) if rng.random() < 0.95 else "absent"
            uid = rng.choice(uids)
            if r < 0.4:
                # info.ClientID normally equals the key; sometimes not (the store does not care)
                cid = uid if rng.random() < 0.85 else rng.choice(uids)
                ops.append(f"add {ch} {uid} {cid} {rng.choice(users) or 'anon'}")
            elif r < 0.65:
                ops.append(f"rm {ch} {uid if rng.random() < 0.8 else 'ghost'}")
            elif r < 0.82:
                ops.append(f"stats {ch}")
            else:
                ops.append(f"get {ch}")
        for ch in chans:
            ops.append(f"get {ch}")
            ops.append(f"stats {ch}")
    return ops


def store_oracle(ops, outs):
    """Statement (a) on the implementation's own outputs: after every `stats ch`, compare with the presence
    set reconstructed from the implementation's `get ch` (asked right after by the generator or here from
    the spec map), and check `get` against a reference dict (finite-map spec).  Returns list of (i, msg)."""
    bad = []
    spec = {}
    for i, (op, out) in enumerate(zip(ops, outs)):
        ws = op.split()
        if not ws or ws[0].startswith("#"):
            continue
        if out in ("PANIC", "ERR", "bad-op"):
            bad.append((i, "implementation answered " + out))
            continue
        if ws[0] == "reset":
            spec = {}
        elif ws[0] == "add":
            spec.setdefault(ws[1], {})[ws[2]] = (ws[3], ws[4])
        elif ws[0] == "rm":
            if ws[1] in spec and ws[2] in spec[ws[1]]:
                del spec[ws[1]][ws[2]]
                if not spec[ws[1]]:
                    del spec[ws[1]]
        elif ws[0] == "get":
            want = "nil" if ws[1] not in spec else ",".join(
                f"{k}={v[0]}/{v[1]}" for k, v in sorted(spec[ws[1]].items()))
            if out != want:
                bad.append((i, f"presence set `{out}` differs from the finite-map reference `{want}`"))
        elif ws[0] == "stats":
            m = spec.get(ws[1], {})
            want = f"clients={len(set(m))} users={len(set(v[1] for v in m.values()))}"
            if out != want:
                bad.append((i, f"stats `{out}` but the presence set has {want}"))
    return bad


def scenario_of(ops, i):
    """the reset-delimited scenario containing op i, cut after i"""
    j = i
    while j > 0 and ops[j] != "reset":
        j -= 1
    return ops[j:i + 1]


def run_store(ctx, binary):
    if ctx.replay:
        rp = json.load(open(ctx.replay))
        if rp.get("part", "store") != "store":
            return True
        ops = rp.get("ops", [])
    else:
        corpus = [l.strip() for l in open(os.path.join(VERIF, "props/C06/corpus.ops"))
                  if l.strip() and not l.startswith("#")]
        ops = corpus + gen_store_ops(ctx.rng, ctx.scale(400, 20000))
    impl = ctx.go_run(binary, "TestVerifC06Store", ops)
    model = ctx.lean_run(ops)
    ok = True
    if model is None:
        ok = False
        model = []
    nscen = 0
    for op in ops:
        k = op.split()[0]
        ctx.count("store:" + k)
        if k == "reset":
            nscen += 1
    cur = []
    for op in ops + ["reset"]:
        if op == "reset":
            if cur:
                ctx.record(" ; ".join(cur)[:400], nontrivial=sum(1 for o in cur if o.startswith("add")) >= 2)
            cur = []
        else:
            cur.append(op)
    bad = store_oracle(ops, impl + ["<missing>"] * (len(ops) - len(impl)))
    for n, (i, msg) in enumerate(bad[:3]):
        scen = scenario_of(ops, i)
        from vlib.core import ddmin

        def fails(sub):
            s = ["reset"] + [o for o in sub if o != "reset"]
            o = ctx.go_run(binary, "TestVerifC06Store", s)
            return bool(store_oracle(s, o + ["<missing>"] * (len(s) - len(o))))
        try:
            small = ["reset"] + [o for o in ddmin(scen, fails) if o != "reset"]
        except AssertionError:
            small = scen
        sout = ctx.go_run(binary, "TestVerifC06Store", small)
        ctx.violation("property", "store: " + msg,
                      signature={"part": "store", "oracle": msg.split("`")[0][:40], "last_op": small[-1].split()[0]},
                      replay={"part": "store", "ops": small, "impl": sout})
    ndiff = 0
    for i, op, a, b in diff_lines(ops, impl, model):
        ndiff += 1
        if ndiff <= 3 and model:
            ctx.violation("correspondence", f"store: model and implementation differ on `{op}`: impl `{a}` model `{b}`",
                          signature={"part": "store", "kind": "diff", "op": op.split()[0]},
                          replay={"part": "store", "ops": scenario_of(ops, i), "impl": [a], "model": [b]},
                          no_input=not bad)
    ctx.extra["store_disagreements"] = ndiff
    ctx.extra["store_scenarios"] = nscen
    ctx.traces_validated += len(ops)
    return ok


def run(ctx):
    ctx.rule = ("(a) random add/remove/get/stats sequences on 1-3 channels, 1-8 client ids, 1-5 users (same user on "
                "several clients, re-add, remove of absent client/channel, info.ClientID != key); non-trivial = at "
                "least two adds; distinct = distinct scenario")
    ctx.assumptions = ["AddPresence is never called with a nil *ClientInfo (true for every call site in the package)"]
    proofs_ok = ctx.lean_obligations()
    binary = ctx.go_test_binary(".", [STORE_HARNESS])
    if binary is None:
        ctx.violation("correspondence", "harness no longer builds against package centrifuge",
                      signature={"kind": "harness-build"}, replay={"log": getattr(ctx, "build_error", "")},
                      no_input=True)
        return
    if not run_store(ctx, binary):
        proofs_ok = False
    if not proofs_ok:
        ctx.proof_broken()
