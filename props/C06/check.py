"""C06 — presence reflects live subscriptions; presence statistics count exactly the distinct clients/users.

(a) store: Lean theorem `presenceHub_stats` over Model/PresenceHub.lean (all add/remove sequences);
    tie = differential run of the real MemoryPresenceManager against the Lean driver on random
    add/remove/get/stats sequences + the statement itself evaluated on the implementation's outputs.
(b) protocol: see run_protocol (LTS Model/PresenceProto.lean, gate-scheduled harness).
"""
import json
import os

from vlib.core import diff_lines, VERIF

STORE_HARNESS = "props/C06/harness/zz_verif_c06_test.go"
PROTO_HARNESS = "props/C06/harness/zz_verif_c06_proto_test.go"


# ------------------------------------------------------------------ (a) store
def gen_store_ops(rng, n_scen):
    ops = []
    for _ in range(n_scen):
        ops.append("reset")
        nch = rng.choice([1, 1, 2, 3])
        chans = [f"ch{i}" for i in range(nch)]
        nuid = rng.choice([1, 2, 3, 5, 8])
        uids = [f"c{i}" for i in range(nuid)]
        users = [f"u{i}" for i in range(rng.choice([1, 2, 3, 5]))] + ([""] if rng.random() < 0.2 else [])
        for _ in range(rng.choice([3, 8, 15, 30])):
            r = rng.random()
            ch = rng.choice(chans) if rng.random() < 0.95 else "absent"
            uid = rng.choice(uids)
            if r < 0.4:
                # info.ClientID normally equals the key; sometimes not (the store does not care)
                cid = uid if rng.random() < 0.85 else rng.choice(uids)
                ops.append(f"add {ch} {uid} {cid} {rng.choice(users) or 'anon'}")
            elif r < 0.65:
                ops.append(f"rm {ch} {uid if rng.random() < 0.8 else 'ghost'}")
            elif r < 0.82:
                ops.append(f"stats {ch}")
            else:
                ops.append(f"get {ch}")
        for ch in chans:
            ops.append(f"get {ch}")
            ops.append(f"stats {ch}")
    return ops


def store_oracle(ops, outs):
    """Statement (a) on the implementation's own outputs: after every `stats ch`, compare with the presence
    set reconstructed from the implementation's `get ch` (asked right after by the generator or here from
    the spec map), and check `get` against a reference dict (finite-map spec).  Returns list of (i, msg)."""
    bad = []
    spec = {}
    for i, (op, out) in enumerate(zip(ops, outs)):
        ws = op.split()
        if not ws or ws[0].startswith("#"):
            continue
        if out in ("PANIC", "ERR", "bad-op"):
            bad.append((i, "implementation answered " + out))
            continue
        if ws[0] == "reset":
            spec = {}
        elif ws[0] == "add":
            spec.setdefault(ws[1], {})[ws[2]] = (ws[3], ws[4])
        elif ws[0] == "rm":
            if ws[1] in spec and ws[2] in spec[ws[1]]:
                del spec[ws[1]][ws[2]]
                if not spec[ws[1]]:
                    del spec[ws[1]]
        elif ws[0] == "get":
            want = "nil" if ws[1] not in spec else ",".join(
                f"{k}={v[0]}/{v[1]}" for k, v in sorted(spec[ws[1]].items()))
            # a nil map and an empty map are the same presence set
            if (out if out != "nil" else "") != (want if want != "nil" else ""):
                bad.append((i, f"presence set `{out}` differs from the finite-map reference `{want}`"))
        elif ws[0] == "stats":
            m = spec.get(ws[1], {})
            want = f"clients={len(set(m))} users={len(set(v[1] for v in m.values()))}"
            if out != want:
                bad.append((i, f"stats `{out}` but the presence set has {want}"))
    return bad


def scenario_of(ops, i):
    """the reset-delimited scenario containing op i, cut after i"""
    j = i
    while j > 0 and ops[j] != "reset":
        j -= 1
    return ops[j:i + 1]


def run_store(ctx, binary):
    if ctx.replay:
        rp = json.load(open(ctx.replay))
        if rp.get("part", "store") != "store":
            return True
        ops = rp.get("ops", [])
    else:
        corpus = [l.strip() for l in open(os.path.join(VERIF, "props/C06/corpus.ops"))
                  if l.strip() and not l.startswith("#")]
        ops = corpus + gen_store_ops(ctx.rng, ctx.scale(400, 8000))
    impl = ctx.go_run(binary, "TestVerifC06Store", ops)
    model = ctx.lean_run(ops)
    ok = True
    if model is None:
        ok = False
        model = []
    nscen = 0
    for op in ops:
        k = op.split()[0]
        ctx.count("store:" + k)
        if k == "reset":
            nscen += 1
    cur = []
    for op in ops + ["reset"]:
        if op == "reset":
            if cur:
                ctx.record(" ; ".join(cur)[:400], nontrivial=sum(1 for o in cur if o.startswith("add")) >= 2)
            cur = []
        else:
            cur.append(op)
    bad = store_oracle(ops, impl + ["<missing>"] * (len(ops) - len(impl)))
    for n, (i, msg) in enumerate(bad[:3]):
        scen = scenario_of(ops, i)
        from vlib.core import ddmin

        def fails(sub):
            s = ["reset"] + [o for o in sub if o != "reset"]
            o = ctx.go_run(binary, "TestVerifC06Store", s)
            return bool(store_oracle(s, o + ["<missing>"] * (len(s) - len(o))))
        try:
            small = ["reset"] + [o for o in ddmin(scen, fails) if o != "reset"]
        except AssertionError:
            small = scen
        sout = ctx.go_run(binary, "TestVerifC06Store", small)
        ctx.violation("property", "store: " + msg,
                      signature={"part": "store", "oracle": msg.split("`")[0][:40], "last_op": small[-1].split()[0]},
                      replay={"part": "store", "ops": small, "impl": sout})
    ndiff = 0
    for i, op, a, b in diff_lines(ops, impl, model):
        ndiff += 1
        if ndiff <= 3 and model:
            ctx.violation("correspondence", f"store: model and implementation differ on `{op}`: impl `{a}` model `{b}`",
                          signature={"part": "store", "kind": "diff", "op": op.split()[0]},
                          replay={"part": "store", "ops": scenario_of(ops, i), "impl": [a], "model": [b]},
                          no_input=not bad)
    ctx.extra["store_disagreements"] = ndiff
    ctx.extra["store_scenarios"] = nscen
    ctx.traces_validated += len(ops)
    return ok


# ------------------------------------------------------------------ (b) protocol
def proto_oracle(out):
    """Statement (b) at a settled point of the implementation (no subscribe/unsubscribe/close/tick in flight):
    subscribed => the presence contains this connection with its client and user ids; not subscribed => it
    does not; statistics count exactly the presence set.  None = holds / not applicable."""
    head, _, tail = out.partition(" | ")
    kv = dict(w.split("=", 1) for w in (head + " " + tail).split() if "=" in w)
    if kv.get("settled") != "1":
        return None
    if kv.get("chan") == "sub":
        if kv.get("present") != "1":
            return "subscribed-not-present"
        if kv.get("info") != "ok":
            return "presence-info-wrong"
    if kv.get("chan") == "none" and kv.get("present") != "0":
        return "present-not-subscribed"
    if kv.get("chan") == "res":
        return "reservation-left-behind"
    want = "1/1" if kv.get("present") == "1" else "0/0"
    if kv.get("stats") != want:
        return "stats-do-not-count-the-presence-set"
    return None


def local_findings():
    try:
        return json.load(open(os.path.join(VERIF, "props", "C06", "findings.json"))).get("findings", [])
    except FileNotFoundError:
        return []


def install_local_known(ctx):
    """known_findings.json is the union of props/*/findings.json (regenerated by the coordinator); also
    consult this property's own file so the check behaves the same before and after that merge."""
    glob_match = ctx._match_known

    def match(signature):
        hit = glob_match(signature)
        if hit is not None:
            return hit
        for e in local_findings():
            m = e.get("match") or {}
            if e.get("property") == ctx.prop and e.get("status") == "known" and m and \
                    all(signature.get(k) == v for k, v in m.items()):
                return e
        return None
    ctx._match_known = match


def run_protocol(ctx, binary, drv):
    def model(ops):
        return ctx.run_lines([drv], ops) if ops else []

    def impl(ops):
        # a schedule that sends a goroutine into a mutex would hang synctest.Wait: bounded, and then a
        # harness error (the scenarios after it are dropped and counted), never a violation
        return ctx.go_run(binary, "TestVerifC06Proto", ops, timeout=max(120, len(ops) // 4))

    def pline(quiet, labels, mp=0, faults=""):
        return f"prun quiet={int(quiet)} map={mp}{faults} | " + " ".join(labels)

    def map_of(op):
        return int(fields(op.partition("|")[0]).get("map", 0))

    def faults_of(op):
        f = fields(op.partition("|")[0])
        return "".join(f" {k}=1" for k in ("mrfail", "prfail") if f.get(k) == "1")

    def fields(line):
        return dict(w.split("=", 1) for w in line.split() if "=" in w)

    def core(line):
        """state part of a model line (its `trail=` is the expectation handed to the harness)"""
        return line.partition(" trail=")[0]

    def with_exp(op, model_line):
        tr = fields(model_line).get("trail") if "trail=" in model_line else None
        return op if tr is None else op + " ; exp=" + tr

    if ctx.replay:
        rp = json.load(open(ctx.replay))
        if rp.get("part") != "proto":
            return
        run_ops = [op.partition(";")[0].strip() for op in rp.get("ops", [])]
        pm = model(run_ops)
        run_ops = [with_exp(op, m) for op, m in zip(run_ops, pm)]
        expected = [core(m) for m in pm]
    else:
        known_ops = [op for e in local_findings() for op in (e.get("replay") or {}).get("ops", [])]
        corpus = [l.strip() for l in open(os.path.join(VERIF, "props/C06/corpus_proto.ops"))
                  if l.strip() and not l.startswith("#")]
        gens = []
        for _ in range(ctx.scale(500, 6000)):
            quiet = ctx.rng.random() < 0.5
            ln = ctx.rng.choice([4, 8, 12, 18, 26, 40])
            gens.append(f"pgen quiet={int(quiet)} | " + " ".join(str(ctx.rng.randint(0, 9999)) for _ in range(ln)))
        gout = model(gens)
        plain = known_ops + corpus
        pm = model(plain)
        run_ops = [with_exp(op, m) for op, m in zip(plain, pm)]
        expected = [core(m) for m in pm]
        for g, o in zip(gens, gout):
            if not o.startswith("labels="):
                ctx.notes.append("driver pgen failed: " + o[:80])
                continue
            labs, _, rest = o.partition(" ")
            # subscription options: regular presence alone, or combined with a map client / user presence
            # channel (then Client.removeMapPresence is the routine that removes the regular entry)
            mp = ctx.rng.choice([0, 0, 1, 2])
            # fault injection: MapBroker.Remove fails (nothing removed there); RemovePresence reports an
            # error after the removal landed.  Neither may leave the regular presence entry behind.
            faults = (" mrfail=1" if mp and ctx.rng.random() < 0.5 else "") + \
                (" prfail=1" if ctx.rng.random() < 0.25 else "")
            run_ops.append(with_exp(pline("quiet=1" in g.split("|")[0],
                                          [l for l in labs[len("labels="):].split(",") if l], mp, faults), rest))
            expected.append(core(rest))
    out = impl(run_ops)
    if ctx.last_go_crash:
        ctx.notes.append("proto harness process: " + str(ctx.last_go_crash)[-400:])
    harness_errors, seen = 0, {}
    for i, op in enumerate(run_ops):
        o = out[i] if i < len(out) else "<missing>"
        if not o.startswith("chan="):
            harness_errors += 1
            ctx.count("proto:harness-error")
            continue
        labels = op.partition("|")[2].partition(";")[0].split()
        if "diverged" in fields(o):
            # the harness stopped where the implementation left the model's path: the state it reports is the
            # one reached by this prefix of the schedule (a schedule of the real code in its own right)
            labels = labels[:int(fields(o)["diverged"]) + 1]
        quiet = "quiet=1" in op.partition("|")[0]
        mp = map_of(op)
        faults = faults_of(op)
        ctx.count(f"proto:map={mp}")
        for w in faults.split():
            ctx.count("proto-fault:" + w)
        ctx.record(op, nontrivial=len(set(l[0] for l in labels)) >= 2)
        ctx.count("proto:quiet" if quiet else "proto:free")
        for l in labels:
            ctx.count("proto-label:" + l)
        msg = proto_oracle(o)
        ctx.count("proto-oracle:" + (msg or "holds"))
        if msg is None:
            continue
        cls = (msg, quiet, "T" in labels, "C" in labels, mp, faults)
        seen[cls] = seen.get(cls, 0) + 1
        if seen[cls] > 1:
            continue
        # shrink on the model (every scenario is compared with it), confirm on the implementation
        cur, budget = list(labels), 60
        progress = True
        while progress and budget > 0:
            progress = False
            for size in (4, 2, 1):
                cands = [cur[:k] + cur[k + size:] for k in range(0, max(1, len(cur) - size + 1))]
                cands = [c for c in cands if c and len(c) < len(cur)]
                if not cands:
                    continue
                budget -= 1
                mo = model([pline(quiet, c, mp, faults) for c in cands])
                hit = next((c for c, m in zip(cands, mo) if m.startswith("chan=") and
                            proto_oracle(m + " | info=ok stats=" + ("1/1" if "present=1" in m else "0/0")) == msg), None)
                if hit is not None:
                    cur, progress = hit, True
                    break
        sop = pline(quiet, cur, mp, faults)
        sout = impl([sop])
        if not sout or proto_oracle(sout[0]) != msg:
            cur, sop = labels, pline(quiet, labels, mp, faults)
            sout = impl([sop])
            if not sout or proto_oracle(sout[0]) != msg:
                sout = [o]
        sig = {"part": "proto", "violation": msg, "quiet": quiet, "tick": "T" in cur, "close": "C" in cur,
               "map_presence": mp, "faults": faults.strip()}
        ctx.violation("property", f"protocol: {msg} at a settled point: {sout[0]}", signature=sig,
                      replay={"part": "proto", "ops": [sop], "impl": sout, "original_op": op})
    ctx.extra["proto_violation_classes_seen"] = {str(k): v for k, v in seen.items()}
    ctx.extra["proto_harness_errors_dropped"] = harness_errors
    ndiff = 0
    for i, op, a, b in diff_lines(run_ops, [x.partition(" | ")[0] for x in out], expected):
        if not a.startswith("chan="):
            continue
        ndiff += 1
        if ndiff <= 3:
            ctx.violation("correspondence", f"protocol: model and implementation differ: impl `{a}` model `{b}`",
                          signature={"part": "proto", "kind": "diff", "impl": a[:50], "model": b[:50]},
                          replay={"part": "proto", "ops": [op], "impl": [a], "model": [b]}, no_input=True)
    ctx.extra["proto_disagreements"] = ndiff
    ctx.traces_validated += len(run_ops)
    not_repro = [e["id"] for e in local_findings() if e.get("status") == "known" and e["id"] not in
                 [k.get("id") for k in ctx.known_hits]]
    if not_repro and not ctx.replay:
        ctx.extra["known_findings_not_reproduced"] = not_repro


def run(ctx):
    ctx.rule = ("(a) random add/remove/get/stats sequences on 1-3 channels, 1-8 client ids, 1-5 users (same user on "
                "several clients, re-add, remove of absent client/channel, info.ClientID != key); non-trivial = at "
                "least two adds; distinct = distinct scenario.  (b) schedules are paths of the Lean protocol model chosen "
                "by the PRNG: subscribe attempt (incl. handler error / late history error), Client.Unsubscribe, close "
                "and presence tick advanced gate by gate in any interleaving, half of them with the quiet-resubscribe "
                "assumption; every schedule is run to a settled point where Presence()/PresenceStats() are evaluated")
    ctx.assumptions = ["AddPresence is never called with a nil *ClientInfo (true for every call site in the package)"]
    install_local_known(ctx)
    proofs_ok = ctx.lean_obligations()
    binary = ctx.go_test_binary(".", [STORE_HARNESS, PROTO_HARNESS])
    if binary is None:
        ctx.violation("correspondence", "harness no longer builds against package centrifuge",
                      signature={"kind": "harness-build"}, replay={"log": getattr(ctx, "build_error", "")},
                      no_input=True)
        return
    if not run_store(ctx, binary):
        proofs_ok = False
    drv = ctx.lean_driver_build()
    if drv is None:
        proofs_ok = False
    else:
        run_protocol(ctx, binary, drv)
    if not proofs_ok:
        ctx.proof_broken()
