"""C22 — map subscriptions converge to the broker state.

Proof: lean/CentrifugeVerif/Props/C22.lean over Model/MapSub.lean (abstract map broker with the complete
change log as ghost state, stream window, reads incl. Node.MapStreamRead's trim detection, the three phase
handlers + live transition, live delivery, reference client).
Tie: a real Node + real MemoryMapBroker under testing/synctest; a protocol-following reference client issues
STATE / STREAM / LIVE (and recovery) subscribe commands through Client.HandleCommand while the scenario's
broker operations (publish, remove, clear, virtual-time advance => key TTL / stream TTL / meta TTL) run at
gates before each request, before and after each broker read of the server.  The Lean driver replays the
recorded broker events and read points through the model and must predict the same requests, read
parameters, replies, pushes and final client map.
Oracle: the statement on what the real connection received: an independent reference client (below) applies
replies and pushes; once traffic stopped its map must equal the broker's state restricted to admitted keys,
or the client was told (unrecoverable position / insufficient state / disconnect); `recovered = true` requires
every admitted change after the client's position to have been delivered.
"""
import json
import os
import re
from concurrent.futures import ThreadPoolExecutor

HARNESS = ["props/C22/harness/root/zz_verif_c22_test.go"]
KEYS = "abcdef"
TOLD_ERR = {"112"}                    # unrecoverable position
TOLD_PUSH = {"unsub:2500", "disc:3010"}


# ----------------------------------------------------------------------------- generator
def gen(rng):
    size = rng.choice([1, 2, 3, 5, 100, 100])
    sttl = rng.choice([1000, 2000, 60000, 60000])
    kttl = rng.choice([0, 0, 1500, 3000])
    page = rng.choice([1, 2, 3, 100])
    slim = rng.choice([1, 2, 5, 100])
    tlim = rng.choice([0, 0, 0, 2, 5])
    cto = rng.choice([-1, -1, 0])
    flt = rng.choice([0, 0, 1])
    rec = rng.choice(["none", "none", "live", "stream"])
    obs = 1 if rng.random() < 0.35 else 0
    sf = 1 if rng.random() < 0.3 else 0

    def ops(n, adv=True, clear=0.02):
        out = []
        for _ in range(n):
            r = rng.random()
            if r < 0.55:
                out.append("P" + rng.choice(KEYS))
            elif r < 0.72:
                out.append("R" + rng.choice(KEYS))
            elif r < 0.72 + clear:
                out.append("C")
            elif adv:
                out.append("A" + str(rng.choice([300, 700, 1100, 1100, 2500, 4000])))
            else:
                out.append("P" + rng.choice(KEYS))
        return out
    gates = [ops(rng.choice([0, 1, 2, 3, 4, 6]), adv=False, clear=0)]
    busy = rng.choice([0.15, 0.35, 0.6])
    for _ in range(rng.randint(4, 24)):
        gates.append(ops(rng.choice([1, 1, 2, 3])) if rng.random() < busy else [])
    off = ops(rng.choice([0, 1, 2, 4, 7])) if rec != "none" else []
    live = ops(rng.choice([0, 1, 2, 4]), clear=0.04)
    return fmt(dict(size=size, sttl=sttl, kttl=kttl, page=page, slim=slim, tlim=tlim, cto=cto, flt=flt, rec=rec, obs=obs, sf=sf,
                    g=gates, off=off, live=live))


def fmt(sc):
    g = "/".join(",".join(x) if x else "-" for x in sc["g"]) or "-"
    return (f"sc size={sc['size']} sttl={sc['sttl']} kttl={sc['kttl']} page={sc['page']} slim={sc['slim']} tlim={sc['tlim']} "
            f"cto={sc['cto']} flt={sc['flt']} obs={sc.get('obs', 0)} sf={sc.get('sf', 0)} rec={sc['rec']} g={g} off={','.join(sc['off']) or '-'} live={','.join(sc['live']) or '-'}")


def parse(op):
    kv = dict(w.split("=", 1) for w in op.split()[1:])
    lst = lambda s: [] if s in ("-", "") else s.split(",")
    return dict(size=int(kv["size"]), sttl=int(kv["sttl"]), kttl=int(kv["kttl"]), page=int(kv["page"]), slim=int(kv["slim"]),
                tlim=int(kv["tlim"]), cto=int(kv.get("cto", "0")), flt=int(kv["flt"]), rec=kv["rec"], obs=int(kv.get("obs", "0")), sf=int(kv.get("sf", "0")),
                g=[lst(x) for x in kv["g"].split("/")] if kv["g"] != "-" else [], off=lst(kv["off"]), live=lst(kv["live"]))


def cfg_words(op):
    return " ".join(w for w in op.split()[1:] if not re.match(r"^(g|off|live|sttl|kttl|cto)=", w))


# ----------------------------------------------------------------------------- oracle
def admitted(flt, k):
    return (not flt) or (ord(k[0]) - ord("a")) % 2 == 0


def items(s):
    """'k=v@o,k=x@o' -> [(k, v|None, o)]"""
    out = []
    if s in ("-", ""):
        return out
    for w in s.split(","):
        k, r = w.split("=")
        v, o = r.split("@")
        out.append((k, None if v == "x" else int(v), int(o)))
    return out


def oracle(op, out):
    """Evaluate C22 on one transcript.  Returns None (dropped), [] or [(msg, signature)]."""
    if out.startswith("PANIC"):
        return [("panic in the implementation: " + out[:200], {"kind": "panic"})]
    if out.startswith("harness-error") or out in ("<missing>", "bad-op", "#"):
        return None
    sc = parse(op)
    flt, size = sc["flt"], sc["size"]
    head, _, fin = out.partition("| fin ")
    toks = head.split()
    fk = dict(w.split("=", 1) for w in fin.split())
    # independent broker log (ghost) and stream window
    log = []            # [(key, val|None)] of the current epoch; offset = index+1
    lo = 0
    cm = {}             # reference client map
    told = None
    pos = 0             # client's position (offset) as the SDK tracks it
    viol = []
    gaps = []           # undetected gap reads: (cause, path)
    cur_req = None
    cur_read = None
    read_log = None
    delivered = set()   # offsets delivered in the current recovery (stream pages + live reply)
    rec_from = None
    drained = False
    told_at_q1 = None
    for t in toks:
        p = t.split(":")
        if t == "|":
            if not drained:
                drained = True
                told_at_q1 = told
            continue
        if p[0] == "w":
            if p[1] == "P" and p[4] != "-":
                log.append((p[2], int(p[3])))
                lo = max(lo, len(log) - size)
            elif p[1] in ("R", "X") and p[3] != "-":
                log.append((p[2], None))
                lo = max(lo, len(log) - size)
            elif p[1] == "L":
                lo = max(lo, min(int(p[2]), len(log)))
            elif p[1] in ("C", "M"):
                log, lo = [], 0
        elif p[0] == "q":
            cur_req = p
            read_log = None
            if p[1] in ("L", "T") and p[-1] == "1" and rec_from is None:
                rec_from = int(p[2])
                delivered = set()
        elif p[0] == "rd" and p[1] == "T":
            cur_read = (int(p[2]), cur_req)
        elif t == "ex" and cur_req is not None and cur_read is not None:
            # the reply's position (offset, epoch) is the one of the stream this read saw: a Clear that lands
            # after the read starts a new epoch with its own offsets (`log` is rebound, this list stays frozen)
            read_log = log
            since, rq = cur_read
            if since < lo:
                cause = "stream-expired" if lo == len(log) else ("since-zero" if since == 0 else "trimmed")
                path = {"S": "state-to-live", "T": "stream", "L": "recovery-live"}[rq[1]]
                if rq[1] == "T" and rq[-1] == "1":
                    path = "recovery-stream"
                gaps.append((cause, path))
            cur_read = None
        elif p[0] == "a":
            if p[1] == "S":
                for k, v, o in items(p[5]):
                    cm[k] = v
            elif p[1] == "T":
                for k, v, o in items(p[4]):
                    delivered.add(o)
                    if v is None:
                        cm.pop(k, None)
                    else:
                        cm[k] = v
                pos = int(p[2])
            elif p[1] == "L":
                for k, v, o in items(p[5]):
                    cm[k] = v
                for k, v, o in items(p[6]):
                    delivered.add(o)
                    if v is None:
                        cm.pop(k, None)
                    else:
                        cm[k] = v
                newpos = int(p[2])
                if p[4] == "1" and rec_from is not None:
                    # never_false_recovered: every admitted change in (rec_from, newpos] of the log *of the epoch
                    # the reply names* (the stream the recovery read saw) was delivered; what happens to a
                    # client whose epoch was cleared meanwhile is the convergence clause (it must be told)
                    lg = read_log if read_log is not None else log
                    missing = [o for o in range(rec_from + 1, min(newpos, len(lg)) + 1)
                               if admitted(flt, lg[o - 1][0]) and o not in delivered]
                    if missing:
                        und = [g for g in gaps if g[1].startswith("recovery")]
                        cause = und[-1][0] if und else "none"
                        viol.append((f"subscribe reply says recovered=true from offset {rec_from} to {newpos} but changes at offsets {missing} were not delivered",
                                     {"kind": "false-recovered", "cause": cause}))
                pos = newpos
                rec_from = None
            elif p[1] == "err":
                told = "err:" + p[2]
                if p[2] not in TOLD_ERR:
                    viol.append((f"subscribe answered with error {p[2]} (neither success nor unrecoverable position / insufficient state)",
                                 {"kind": "unexpected-error", "code": p[2]}))
            elif p[1] == "disc":
                told = "disc:" + p[2]
                if p[2] not in ("3010", "3008"):
                    viol.append((f"connection closed with code {p[2]} during subscribe", {"kind": "unexpected-error", "code": p[2]}))
        elif p[0] == "p":
            if p[1] in ("unsub", "disc"):
                told = p[1] + ":" + p[2]
                if told not in TOLD_PUSH:
                    viol.append((f"subscription ended by {told} (not insufficient state)", {"kind": "unexpected-end", "code": p[2]}))
            elif told is None:
                (k, v, o), = items(p[1])
                if o != pos + 1 and not flt:
                    viol.append((f"live push at offset {o} while the client's position is {pos}", {"kind": "live-gap"}))
                pos = o
                if v is None:
                    cm.pop(k, None)
                else:
                    cm[k] = v
    # convergence
    bm = {}
    for k, v in log:
        if v is None:
            bm.pop(k, None)
        elif admitted(flt, k):
            bm[k] = v
    if fk.get("q1") is None:
        return None
    mine = ",".join(f"{k}={cm[k]}" for k in sorted(cm)) or "-"
    # cm / bm of the harness are observed before the drain; recompute mine at that point is not possible after
    # drain pushes were applied, so compare the harness's own first observation with the broker it read
    if told_at_q1 is None and fk["q1"] != "eq":
        if fk.get("told2") == "1":
            pass            # told by the periodic position check once traffic stopped
        else:
            cause = gaps[-1][0] if gaps else "none"
            viol.append((f"client map {fk['cm']} differs from the broker state {fk['bm']} after traffic stopped and the client was never told "
                         f"(position {fk['pos']}, stream top {fk['top']})", {"kind": "diverged", "cause": cause}))
    if fk.get("told2") != "1" and fk.get("q2") != "eq":
        if not any(v[1]["kind"] == "diverged" for v in viol):
            cause = gaps[-1][0] if gaps else "none"
            viol.append((f"client map differs from the broker state 100 s after traffic stopped and the client was never told",
                         {"kind": "diverged", "cause": cause}))
    # additional live subscribers with other tags filters: each must hold the broker state restricted to its own filter
    for name in sorted(k for k in fk if re.match(r"^o\d+$", k)):
        if fk.get(name, "ok").startswith("bad"):
            viol.append((f"live subscriber {name} (own tags filter) ended with map/broker-state-under-its-filter {fk[name]} and was never told",
                         {"kind": "observer-diverged"}))
    # the harness's reference client and this one must agree (guards the harness itself)
    exp_bm = ",".join(f"{k}={bm[k]}" for k in sorted(bm)) or "-"
    if fk.get("told2") != "1" and told is None and fk.get("q2") == "eq" and mine != exp_bm:
        viol.append((f"independent reference client holds {mine}, broker log gives {exp_bm}", {"kind": "oracle-disagrees"}))
    return viol


# ----------------------------------------------------------------------------- canonical form for the diff
def canon(line):
    line = re.sub(r" o\d=\S+", "", line)
    return _canon(line)


def _canon(line):
    """inside each maximal run of w:/p: tokens put the w: tokens first (pushes are collected after the writes)"""
    out, run = [], []

    def flush():
        ps = [t for t in run if t.startswith("p:")]
        # the insufficient-state unsubscribe runs on its own goroutine: publications delivered before it
        # completes each trigger one (duplicate unsubscribe pushes); keep one
        ps = [t for i, t in enumerate(ps) if not (t == "p:unsub:2500" and "p:unsub:2500" in ps[:i])]
        out.extend([t for t in run if t.startswith("w:")] + ps)
        run.clear()
    for t in line.split():
        if t.startswith("w:") or t.startswith("p:"):
            run.append(t)
        else:
            flush()
            out.append(t)
    flush()
    return " ".join(out)


# ----------------------------------------------------------------------------- run
def run_go(ctx, binary, ops, workers=4):
    import subprocess
    from vlib.core import go_env
    n = len(ops)
    if n == 0:
        return []
    chunks = [ops[i::workers] for i in range(workers)]

    def one(ic):
        i, lines = ic
        if not lines:
            return []
        opsf = os.path.join(ctx.tmp, f"c22ops{i}_{id(lines)}.txt")
        outp = opsf + ".out"
        open(opsf, "w").write("\n".join(lines) + "\n")
        e = go_env()
        e.update({"VERIF_OPS": opsf, "VERIF_OUT": outp})
        try:
            subprocess.run([binary, "-test.run", "^TestVerifC22$", "-test.count=1", "-test.timeout=3000s"],
                           stdout=subprocess.PIPE, stderr=subprocess.STDOUT, env=e, timeout=3100, cwd=ctx.tmp)
        except subprocess.TimeoutExpired:
            pass
        got = open(outp).read().splitlines() if os.path.exists(outp) else []
        return got + ["<missing>"] * (len(lines) - len(got))
    with ThreadPoolExecutor(max_workers=workers) as ex:
        parts = list(ex.map(one, enumerate(chunks)))
    out = [None] * n
    for w, part in enumerate(parts):
        for j, r in enumerate(part):
            out[w + j * workers] = r
    return out


def shrink(ctx, binary, op, sig):
    sc = parse(op)
    budget = [28]

    def fails(c):
        if budget[0] <= 0:
            return False
        budget[0] -= 1
        o = fmt(c)
        out = run_go(ctx, binary, [o], workers=1)[0]
        v = oracle(o, out)
        return bool(v) and any(x[1] == sig for x in v)
    changed = True
    while changed and budget[0] > 0:
        changed = False
        for key in ("live", "off"):
            for i in range(len(sc[key]) - 1, -1, -1):
                c = dict(sc)
                c[key] = sc[key][:i] + sc[key][i + 1:]
                if fails(c):
                    sc, changed = c, True
                    break
        for gi in range(len(sc["g"]) - 1, -1, -1):
            if not sc["g"][gi]:
                continue
            for i in range(len(sc["g"][gi]) - 1, -1, -1):
                c = dict(sc)
                c["g"] = [list(x) for x in sc["g"]]
                del c["g"][gi][i]
                if fails(c):
                    sc, changed = c, True
                    break
            if changed:
                break
    return fmt(sc)


def run(ctx):
    ctx.rule = ("scenario = channel config (stream size 1..100, stream TTL, key TTL or persistent, page sizes, transition limit, "
                "catch-up timeout, tags filter) x fresh subscribe or recovery (LIVE / STREAM phase) x gate scripts of publish / remove / "
                "clear / virtual-time advance placed before every request and before/after every broker read of the server, offline "
                "ops, live ops; non-trivial = at least one write inside the protocol; distinct = distinct scenario line")
    ctx.assumptions = [
        "unordered map channels (ordered state / score cursors are not explored)",
        "tags are a function of the key (a key never moves in or out of the client's filter)",
        "broker operations and broker reads are atomic (hub lock / pubLock); interleavings are explored at read granularity",
        "MemoryMapBroker (synchronous in-order PUB/SUB delivery); Redis PUB/SUB loss/reorder is not explored here (C01 covers the merge window)",
        "one subscriber; protocol-following client (sends the frozen offset/epoch back on later pages)",
    ]
    proofs_ok = ctx.lean_obligations()
    binary = ctx.go_test_binary(".", HARNESS)
    if binary is None:
        ctx.violation("correspondence", "harness no longer builds against package centrifuge",
                      signature={"kind": "harness-build"}, replay={"log": getattr(ctx, "build_error", "")}, no_input=True)
        return
    if ctx.replay:
        ops = json.load(open(ctx.replay)).get("ops", [])
    else:
        corpus = [l.strip() for l in open("props/C22/corpus.ops") if l.strip() and not l.startswith("#")]
        known = []
        try:
            for f in json.load(open("props/C22/findings.json"))["findings"]:
                known += f.get("replay", {}).get("ops", [])
        except FileNotFoundError:
            pass
        ops = known + corpus + [gen(ctx.rng) for _ in range(ctx.scale(400, 12000))]
    impl = run_go(ctx, binary, ops)
    lean_in = [cfg_words(o) + " :: " + t for o, t in zip(ops, impl)]
    model = ctx.lean_run(lean_in)
    if model is None:
        proofs_ok = False
        model = []
    seen, herr, ndiff, nslow = {}, 0, 0, 0
    for i, (op, out) in enumerate(zip(ops, impl)):
        sc = parse(op)
        nw = sum(len(g) for g in sc["g"][1:])
        ctx.record(op, nontrivial=nw > 0)
        ctx.count("rec:" + sc["rec"])
        ctx.count("observers:" + str(sc["obs"]))
        ctx.count("singleflight-twins:" + str(sc["sf"]))
        v = oracle(op, out)
        if v is None:
            herr += 1
            ctx.count("harness-error")
            continue
        ctx.traces_validated += 1
        for t in out.split():
            if t.startswith("a:"):
                ctx.count(":".join(t.split(":")[:3]) if t.startswith("a:err") or t.startswith("a:disc") else t[:3])
            elif t.startswith("w:"):
                ctx.count(t[:3])
            elif t.startswith("p:unsub") or t.startswith("p:disc"):
                ctx.count(t)
        fin = out.partition("| fin ")[2]
        ctx.count("fin:" + " ".join(w for w in fin.split() if w.split("=")[0] in ("told", "q1", "told2")))
        for msg, sig in v:
            key = json.dumps(sig, sort_keys=True)
            seen[key] = seen.get(key, 0) + 1
            if seen[key] > 1:
                continue
            small = op if ctx.replay else shrink(ctx, binary, op, sig)
            sout = run_go(ctx, binary, [small], workers=1)[0]
            v2 = [x for x in (oracle(small, sout) or []) if x[1] == sig]
            if not v2:
                small, sout, v2 = op, out, [(msg, sig)]
            ctx.violation("property", v2[0][0], signature=sig, replay={"ops": [small], "impl": [sout], "original_op": op})
        # correspondence
        m = model[i] if i < len(model) else "<missing>"
        if "a:disc:3008" in out:
            nslow += 1          # catch-up timeout (virtual time) is outside the model
            continue
        if canon(out) != canon(m):
            ndiff += 1
            if ndiff <= 3:
                a, b = canon(out).split(), canon(m).split()
                j = next((k for k in range(min(len(a), len(b))) if a[k] != b[k]), min(len(a), len(b)))
                ctx.violation("correspondence",
                              f"model and implementation differ at token {j}: impl `{' '.join(a[j:j + 3])}` model `{' '.join(b[j:j + 3])}`",
                              signature={"kind": "diff", "impl": (a[j] if j < len(a) else "-").split(":")[0:2], "rec": sc["rec"]},
                              replay={"ops": [op], "impl": [out], "model": [m],
                                      "correspondence": "Drivers/C22.lean (Model/MapSub.lean handle/transition/readStream) vs client_map.go / node.go / map_broker_memory.go"},
                              no_input=not [x for x in ctx.violations if x["kind"] == "property"])
    ctx.extra["harness_errors_dropped"] = herr
    ctx.extra["disagreements"] = ndiff
    ctx.extra["catch_up_timeouts_outside_model"] = nslow
    if herr > len(ops) // 10:
        ctx.notes.append(f"{herr} scenarios dropped as harness errors")
    if not proofs_ok:
        ctx.proof_broken()
