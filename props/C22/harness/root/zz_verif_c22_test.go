//go:build verif

package centrifuge

// Verification harness for C22 (injected with `go test -overlay`; never part of the repo).
//
// One scenario per op line, one transcript line per scenario.  A real Node + real MemoryMapBroker run
// inside a testing/synctest bubble (key TTL, stream TTL, meta TTL, position check on the virtual clock).
// A protocol-following reference client issues the map subscribe commands (STATE pages, STREAM pages,
// LIVE / recovery) through Client.HandleCommand; the MemoryMapBroker is wrapped so that the scenario's
// broker operations run at *gates*: before each client request, just before each broker read the server
// performs, and just after it (still inside the read call) - i.e. between any two reads of the protocol.
//
//   sc size=N sttl=MS kttl=MS page=L slim=L tlim=N cto=MS flt=0|1 obs=0|1 sf=0|1 rec=none|live|stream g=<ops>/<ops>/… off=<ops> live=<ops>
//     ops = comma separated: Pk (publish key k), Rk (remove key k), A<ms> (advance virtual time), C (clear), - (nothing)
//     g    gate scripts consumed in order of gate occurrence (missing = nothing)
//     off  operations while the client is unsubscribed (between first session and recovery)
//     live operations after the (last) subscribe reply, each followed by a settle
// Transcript tokens (chronological):
//   w:P:k:n:off  w:R:k:off|-  w:X:k:off (key expired)  w:L:lo (stream window now (lo, top]: stream TTL expiry)  w:M (channel removed by meta TTL)  w:C
//   q:S:cursor:off:ep  q:T:off:ep:rec  q:L:off:ep:rec  q:U (unsubscribe)      client requests
//   rd:S | rd:T:since:lim | rd:P , ex , ret                                  broker read entered / executed / returned
//   a:S:cursor:off:ep:entries  a:T:off:ep:pubs  a:L:off:ep:rec:state:pubs  a:err:code  a:disc:code
//   p:k=n@o p:k=x@o  p:unsub:code  p:disc:code                               pushes
//   | fin …                                                                  final observation

import (
	"bufio"
	"context"
	"encoding/json"
	"fmt"
	"os"
	"sort"
	"strconv"
	"strings"
	"sync"
	"testing"
	"testing/synctest"
	"time"

	"github.com/centrifugal/protocol"
)

const verifC22Ch = "m"

type verifC22Transport struct {
	mu     sync.Mutex
	frames []string
	closed bool
	disc   *Disconnect
}

func (t *verifC22Transport) Name() string                    { return "verif" }
func (t *verifC22Transport) AcceptProtocol() string          { return "" }
func (t *verifC22Transport) Protocol() ProtocolType          { return ProtocolTypeJSON }
func (t *verifC22Transport) ProtocolVersion() ProtocolVersion { return ProtocolVersion2 }
func (t *verifC22Transport) Unidirectional() bool            { return false }
func (t *verifC22Transport) Emulation() bool                 { return false }
func (t *verifC22Transport) DisabledPushFlags() uint64       { return 0 }
func (t *verifC22Transport) PingPongConfig() PingPongConfig {
	return PingPongConfig{PingInterval: 100 * time.Hour, PongTimeout: time.Hour}
}
func (t *verifC22Transport) add(b []byte) {
	for _, l := range strings.Split(string(b), "\n") {
		if strings.TrimSpace(l) != "" {
			t.frames = append(t.frames, l)
		}
	}
}
func (t *verifC22Transport) Write(b []byte) error {
	t.mu.Lock()
	t.add(b)
	t.mu.Unlock()
	return nil
}
func (t *verifC22Transport) WriteMany(bs ...[]byte) error {
	t.mu.Lock()
	for _, b := range bs {
		t.add(b)
	}
	t.mu.Unlock()
	return nil
}
func (t *verifC22Transport) Close(d Disconnect) error {
	t.mu.Lock()
	t.closed = true
	dd := d
	t.disc = &dd
	t.mu.Unlock()
	return nil
}

type verifC22PubJSON struct {
	Key     string          `json:"key"`
	Data    json.RawMessage `json:"data"`
	Offset  uint64          `json:"offset"`
	Removed bool            `json:"removed"`
}

type verifC22SubJSON struct {
	Recovered     bool              `json:"recovered"`
	WasRecovering bool              `json:"was_recovering"`
	Offset        uint64            `json:"offset"`
	Epoch         string            `json:"epoch"`
	Phase         int32             `json:"phase"`
	Cursor        string            `json:"cursor"`
	State         []verifC22PubJSON `json:"state"`
	Publications  []verifC22PubJSON `json:"publications"`
}

type verifC22Frame struct {
	ID    uint32 `json:"id"`
	Error *struct {
		Code uint32 `json:"code"`
	} `json:"error"`
	Subscribe   *verifC22SubJSON `json:"subscribe"`
	Unsubscribe *struct{}        `json:"unsubscribe"`
	Push        *struct {
		Channel     string           `json:"channel"`
		Pub         *verifC22PubJSON `json:"pub"`
		Unsubscribe *struct {
			Code uint32 `json:"code"`
		} `json:"unsubscribe"`
	} `json:"push"`
}

// verifC22Handler sits between the broker and the node: records key-expiry removals.
type verifC22Handler struct {
	inner BrokerEventHandler
	s     *verifC22Scn
}

func (h *verifC22Handler) HandlePublication(ch string, pub *Publication, sp StreamPosition, delta bool, prev *Publication) error {
	if ch == verifC22Ch && pub != nil && pub.Removed && !h.s.inRemove {
		h.s.tok(fmt.Sprintf("w:X:%s:%d", pub.Key, pub.Offset))
	}
	return h.inner.HandlePublication(ch, pub, sp, delta, prev)
}
func (h *verifC22Handler) HandleJoin(ch string, info *ClientInfo) error  { return h.inner.HandleJoin(ch, info) }
func (h *verifC22Handler) HandleLeave(ch string, info *ClientInfo) error { return h.inner.HandleLeave(ch, info) }

type verifC22Broker struct {
	*MemoryMapBroker
	s *verifC22Scn
}

func (b *verifC22Broker) RegisterEventHandler(h BrokerEventHandler) error {
	return b.MemoryMapBroker.RegisterEventHandler(&verifC22Handler{inner: h, s: b.s})
}

// verifC22Twin lines two concurrent subscribers up on the same state page (Config.UseSingleFlight): the first
// ReadState parks until released, so that the second subscriber's identical read joins the same singleflight
// call; the stream-position reads that follow wait for each other.
type verifC22Twin struct {
	mu        sync.Mutex
	stateRead int
	release   chan struct{}
	arrived   int
	bothHere  chan struct{}
	closed    bool
}

func (t *verifC22Twin) openBarrier() {
	t.mu.Lock()
	if !t.closed {
		t.closed = true
		close(t.bothHere)
	}
	t.mu.Unlock()
}

func (b *verifC22Broker) ReadState(ctx context.Context, ch string, opts MapReadStateOptions) (MapStateResult, error) {
	if tw := b.s.twin; tw != nil && ch == verifC22Ch {
		tw.mu.Lock()
		tw.stateRead++
		first := tw.stateRead == 1
		tw.mu.Unlock()
		if first {
			<-tw.release
		}
		return b.MemoryMapBroker.ReadState(ctx, ch, opts)
	}
	if !b.s.gated || ch != verifC22Ch {
		return b.MemoryMapBroker.ReadState(ctx, ch, opts)
	}
	b.s.tok("rd:S")
	b.s.gate()
	r, err := b.MemoryMapBroker.ReadState(ctx, ch, opts)
	b.s.tok("ex")
	b.s.gate()
	b.s.tok("ret")
	return r, err
}

func (b *verifC22Broker) ReadStream(ctx context.Context, ch string, opts MapReadStreamOptions) (MapStreamResult, error) {
	if tw := b.s.twin; tw != nil && ch == verifC22Ch {
		if opts.Filter.Since == nil && opts.Filter.Limit == 0 {
			tw.mu.Lock()
			tw.arrived++
			both := tw.arrived >= 2
			tw.mu.Unlock()
			if both {
				tw.openBarrier()
			}
			<-tw.bothHere
		}
		return b.MemoryMapBroker.ReadStream(ctx, ch, opts)
	}
	if !b.s.gated || ch != verifC22Ch {
		return b.MemoryMapBroker.ReadStream(ctx, ch, opts)
	}
	if opts.Filter.Since == nil && opts.Filter.Limit == 0 {
		b.s.tok("rd:P")
	} else if opts.Filter.Since != nil {
		b.s.tok(fmt.Sprintf("rd:T:%d:%d", opts.Filter.Since.Offset, opts.Filter.Limit))
	} else {
		b.s.tok("rd:?")
	}
	b.s.gate()
	r, err := b.MemoryMapBroker.ReadStream(ctx, ch, opts)
	b.s.tok("ex")
	b.s.gate()
	b.s.tok("ret")
	return r, err
}

type verifC22Scn struct {
	node     *Node
	broker   *MemoryMapBroker
	client   *Client
	tr       *verifC22Transport
	toks     []string
	gates    [][]string
	gated    bool
	inRemove bool
	counter  int
	epochs   map[string]int
	cursor   int // frames consumed
	cmdID    uint32
	herr     string
	// last broker snapshot (for expiry detection)
	snapExists bool
	snapLen    int
	snapTop    uint64
	flt        bool
	fltVal     string // tag value the current client's filter admits ("1" for the protocol client)
	twin       *verifC22Twin
	noGates    bool   // observers subscribe without consuming gate scripts / emitting tokens
	mute       bool
}

// verifC22Obs is an additional live map subscriber of the same channel with its own tags filter.
type verifC22Obs struct {
	client  *Client
	closeFn ClientCloseFunc
	tr      *verifC22Transport
	cursor  int
	cmdID   uint32
	ref     *verifC22Ref
	flt     bool
	fltVal  string
}

// with runs f with the observer installed as the scenario's current client (tokens muted).
func (s *verifC22Scn) with(o *verifC22Obs, f func()) {
	c, tr, cur, id, flt, fv, ng, mu := s.client, s.tr, s.cursor, s.cmdID, s.flt, s.fltVal, s.noGates, s.mute
	s.client, s.tr, s.cursor, s.cmdID, s.flt, s.fltVal, s.noGates, s.mute = o.client, o.tr, o.cursor, o.cmdID, o.flt, o.fltVal, true, true
	f()
	o.cursor, o.cmdID = s.cursor, s.cmdID
	s.client, s.tr, s.cursor, s.cmdID, s.flt, s.fltVal, s.noGates, s.mute = c, tr, cur, id, flt, fv, ng, mu
}

func (s *verifC22Scn) tok(t string) {
	if !s.mute {
		s.toks = append(s.toks, t)
	}
}

func (s *verifC22Scn) ep(e string) string {
	if e == "" {
		return "e0"
	}
	if s.mute {
		return "e?" // observers do not take part in the first-seen numbering
	}
	if i, ok := s.epochs[e]; ok {
		return "e" + strconv.Itoa(i)
	}
	i := len(s.epochs) + 1
	s.epochs[e] = i
	return "e" + strconv.Itoa(i)
}

func verifC22Tags(key string) map[string]string {
	if len(key) > 0 && (key[0]-'a')%2 == 0 {
		return map[string]string{"t": "1"}
	}
	return map[string]string{"t": "0"}
}

// snapshot inspects the hub without side effects (a ReadStream would refresh the meta TTL / create the channel).
// n is reported as the window start: the stream retains the offsets (lo, top].
func (s *verifC22Scn) snapshot() (exists bool, lo int, top uint64) {
	h := s.broker.mapHub
	h.RLock()
	defer h.RUnlock()
	c, ok := h.channels[verifC22Ch]
	if !ok || c.stream == nil {
		return false, 0, 0
	}
	items, _, _ := c.stream.Get(0, false, -1, false)
	if len(items) == 0 {
		return true, int(c.stream.Top()), c.stream.Top()
	}
	return true, int(items[0].Offset) - 1, c.stream.Top()
}

func (s *verifC22Scn) resnap() {
	s.snapExists, s.snapLen, s.snapTop = s.snapshot()
}

func (s *verifC22Scn) runOp(op string) {
	ctx := context.Background()
	if op == "" || op == "-" {
		return
	}
	switch op[0] {
	case 'P':
		key := op[1:]
		s.counter++
		n := s.counter
		r, err := s.broker.Publish(ctx, verifC22Ch, key, MapPublishOptions{Data: []byte(`{"v":` + strconv.Itoa(n) + `}`), Tags: verifC22Tags(key)})
		if err != nil || r.Suppressed {
			s.tok(fmt.Sprintf("w:P:%s:%d:-", key, n))
		} else {
			s.tok(fmt.Sprintf("w:P:%s:%d:%d", key, n, r.Position.Offset))
		}
		s.resnap()
	case 'R':
		key := op[1:]
		s.inRemove = true
		r, err := s.broker.Remove(ctx, verifC22Ch, key, MapRemoveOptions{})
		s.inRemove = false
		if err != nil || r.Suppressed {
			s.tok(fmt.Sprintf("w:R:%s:-", key))
		} else {
			s.tok(fmt.Sprintf("w:R:%s:%d", key, r.Position.Offset))
		}
		s.resnap()
	case 'C':
		_ = s.broker.Clear(ctx, verifC22Ch, MapClearOptions{})
		s.tok("w:C")
		s.resnap()
	case 'A':
		ms, _ := strconv.Atoi(op[1:])
		// advance in steps of at most one second so that observations (w:E / w:M) are interleaved with
		// the sweepers' key-expiry broadcasts in the order they happened
		for ms > 0 {
			step := ms
			if step > 1000 {
				step = 1000
			}
			ms -= step
			time.Sleep(time.Duration(step) * time.Millisecond)
			synctest.Wait()
			ex, lo, top := s.snapshot()
			if s.snapExists && !ex {
				s.tok("w:M")
			} else if ex && s.snapExists && lo != s.snapLen {
				// the stream window moved while time passed: stream TTL expiry (and/or size trimming by
				// key-expiry removals, which the model derives itself)
				s.tok(fmt.Sprintf("w:L:%d", lo))
			}
			s.snapExists, s.snapLen, s.snapTop = ex, lo, top
		}
	default:
		s.herr = "bad-op"
	}
}

func (s *verifC22Scn) gate() {
	if s.noGates || len(s.gates) == 0 {
		return
	}
	g := s.gates[0]
	s.gates = s.gates[1:]
	for _, op := range g {
		s.runOp(op)
	}
}

func (s *verifC22Scn) pubs(ps []verifC22PubJSON) string {
	if len(ps) == 0 {
		return "-"
	}
	var out []string
	for _, p := range ps {
		out = append(out, verifC22Pub(p))
	}
	return strings.Join(out, ",")
}

func verifC22Pub(p verifC22PubJSON) string {
	if p.Removed {
		return fmt.Sprintf("%s=x@%d", p.Key, p.Offset)
	}
	var d struct {
		V int `json:"v"`
	}
	_ = json.Unmarshal(p.Data, &d)
	return fmt.Sprintf("%s=%d@%d", p.Key, d.V, p.Offset)
}

// collect decodes frames not yet consumed.  Returns the reply to command id (if any).
func (s *verifC22Scn) collect(id uint32, cl *verifC22Ref) *verifC22Frame {
	synctest.Wait()
	s.tr.mu.Lock()
	frames := append([]string(nil), s.tr.frames[s.cursor:]...)
	s.cursor = len(s.tr.frames)
	closed := s.tr.closed
	disc := s.tr.disc
	s.tr.mu.Unlock()
	var reply *verifC22Frame
	for _, f := range frames {
		var x verifC22Frame
		if json.Unmarshal([]byte(f), &x) != nil {
			continue
		}
		if x.ID != 0 && x.ID == id {
			y := x
			reply = &y
			s.onReply(&y, cl)
			continue
		}
		if x.Push != nil && x.Push.Pub != nil {
			s.tok("p:" + verifC22Pub(*x.Push.Pub))
			cl.apply(*x.Push.Pub)
			if x.Push.Pub.Offset > 0 {
				cl.off = x.Push.Pub.Offset
			}
		}
		if x.Push != nil && x.Push.Unsubscribe != nil {
			s.tok(fmt.Sprintf("p:unsub:%d", x.Push.Unsubscribe.Code))
			cl.told = true
		}
	}
	if closed && !cl.discSeen {
		cl.discSeen = true
		code := uint32(0)
		if disc != nil {
			code = disc.Code
		}
		if reply == nil && id != 0 {
			s.tok(fmt.Sprintf("a:disc:%d", code))
		} else {
			s.tok(fmt.Sprintf("p:disc:%d", code))
		}
		cl.told = true
		cl.phase = "done"
	}
	return reply
}

// verifC22Ref is the reference client (mirrored in Lean: Model/MapSub.lean RefClient).
type verifC22Ref struct {
	m        map[string]int
	off      uint64
	ep       string
	cursor   string
	phase    string // "state" "stream" "live" "done"
	told     bool   // error reply / unsubscribe push / disconnect
	discSeen bool
	first    bool
	rec      bool
	lastRec  string
}

func (c *verifC22Ref) apply(p verifC22PubJSON) {
	if p.Removed {
		delete(c.m, p.Key)
		return
	}
	var d struct {
		V int `json:"v"`
	}
	_ = json.Unmarshal(p.Data, &d)
	c.m[p.Key] = d.V
}

func (s *verifC22Scn) onReply(x *verifC22Frame, cl *verifC22Ref) {
	if x.Error != nil {
		s.tok(fmt.Sprintf("a:err:%d", x.Error.Code))
		cl.told = true
		cl.phase = "done"
		return
	}
	if x.Unsubscribe != nil {
		return
	}
	r := x.Subscribe
	if r == nil {
		s.tok("a:?")
		cl.phase = "done"
		return
	}
	switch r.Phase {
	case MapPhaseState:
		s.tok(fmt.Sprintf("a:S:%s:%d:%s:%s", verifC22Cur(r.Cursor), r.Offset, s.ep(r.Epoch), s.pubs(r.State)))
		for _, p := range r.State {
			cl.apply(p)
		}
		if cl.first {
			cl.off, cl.ep, cl.first = r.Offset, r.Epoch, false
		}
		cl.cursor = r.Cursor
		if r.Cursor == "" {
			cl.phase = "stream"
		}
	case MapPhaseStream:
		s.tok(fmt.Sprintf("a:T:%d:%s:%s", r.Offset, s.ep(r.Epoch), s.pubs(r.Publications)))
		for _, p := range r.Publications {
			cl.apply(p)
		}
		cl.off = r.Offset
		if cl.ep == "" {
			cl.ep = r.Epoch
		}
	case MapPhaseLive:
		rec := "0"
		if r.Recovered {
			rec = "1"
		}
		s.tok(fmt.Sprintf("a:L:%d:%s:%s:%s:%s", r.Offset, s.ep(r.Epoch), rec, s.pubs(r.State), s.pubs(r.Publications)))
		for _, p := range r.State {
			cl.apply(p)
		}
		for _, p := range r.Publications {
			cl.apply(p)
		}
		cl.off, cl.ep = r.Offset, r.Epoch
		cl.phase = "live"
		cl.lastRec = rec
	}
}

func verifC22Cur(c string) string {
	if c == "" {
		return "-"
	}
	return c
}

func verifC22Map(m map[string]int) string {
	if len(m) == 0 {
		return "-"
	}
	var ks []string
	for k := range m {
		ks = append(ks, k)
	}
	sort.Strings(ks)
	var out []string
	for _, k := range ks {
		out = append(out, fmt.Sprintf("%s=%d", k, m[k]))
	}
	return strings.Join(out, ",")
}

// brokerMap reads the broker's state without side effects, restricted to admitted keys.
func (s *verifC22Scn) brokerMap() (map[string]int, uint64, string) {
	h := s.broker.mapHub
	h.RLock()
	defer h.RUnlock()
	out := map[string]int{}
	c, ok := h.channels[verifC22Ch]
	if !ok {
		return out, 0, ""
	}
	for k, e := range c.state {
		if s.flt && verifC22Tags(k)["t"] != s.fltVal {
			continue
		}
		var d struct {
			V int `json:"v"`
		}
		_ = json.Unmarshal(e.Publication.Data, &d)
		out[k] = d.V
	}
	if c.stream == nil {
		return out, 0, ""
	}
	return out, c.stream.Top(), c.stream.Epoch()
}

func verifC22Ops(s string) []string {
	if s == "" || s == "-" {
		return nil
	}
	return strings.Split(s, ",")
}

func (s *verifC22Scn) send(cl *verifC22Ref, req *protocol.SubscribeRequest) {
	s.cmdID++
	id := s.cmdID
	s.gated = true
	s.client.HandleCommand(&protocol.Command{Id: id, Subscribe: req}, 0)
	s.gated = false
	s.collect(id, cl)
}

// session runs the subscribe protocol until live / error.  recMode: "" fresh, "live", "stream".
func (s *verifC22Scn) session(cl *verifC22Ref, page, slim int32, recMode string) {
	var tf *protocol.FilterNode
	if s.flt {
		tf = &protocol.FilterNode{Op: "", Key: "t", Cmp: "eq", Val: s.fltVal}
	}
	switch recMode {
	case "":
		cl.phase, cl.first, cl.cursor = "state", true, ""
		cl.m = map[string]int{}
		cl.off, cl.ep = 0, ""
	case "live":
		cl.phase = "reclive"
	case "stream":
		cl.phase = "stream"
	}
	cl.rec = recMode != ""
	for steps := 0; steps < 200; steps++ {
		if cl.told || cl.phase == "live" || cl.phase == "done" {
			return
		}
		// the gate before each client request
		s.gate()
		switch cl.phase {
		case "state":
			req := &protocol.SubscribeRequest{Channel: verifC22Ch, Type: int32(SubscriptionTypeMap), Phase: MapPhaseState, Limit: page, Cursor: cl.cursor}
			if cl.cursor == "" {
				req.Tf = tf
				s.tok("q:S:-:0:e0")
			} else {
				req.Offset, req.Epoch = cl.off, cl.ep
				s.tok(fmt.Sprintf("q:S:%s:%d:%s", cl.cursor, cl.off, s.ep(cl.ep)))
			}
			s.send(cl, req)
		case "stream":
			req := &protocol.SubscribeRequest{Channel: verifC22Ch, Type: int32(SubscriptionTypeMap), Phase: MapPhaseStream, Limit: slim,
				Offset: cl.off, Epoch: cl.ep, Recover: cl.rec}
			if cl.rec {
				req.Tf = tf
			}
			s.tok(fmt.Sprintf("q:T:%d:%s:%d", cl.off, s.ep(cl.ep), verifC22B(cl.rec)))
			s.send(cl, req)
		case "reclive":
			req := &protocol.SubscribeRequest{Channel: verifC22Ch, Type: int32(SubscriptionTypeMap), Phase: MapPhaseLive,
				Offset: cl.off, Epoch: cl.ep, Recover: true, Tf: tf}
			s.tok(fmt.Sprintf("q:L:%d:%s:1", cl.off, s.ep(cl.ep)))
			s.send(cl, req)
			if cl.phase == "reclive" {
				cl.phase = "done"
			}
		}
	}
	s.herr = "protocol-did-not-terminate"
}

func verifC22B(b bool) int {
	if b {
		return 1
	}
	return 0
}

func verifC22KV(line string) map[string]string {
	m := map[string]string{}
	for _, w := range strings.Fields(line) {
		if i := strings.IndexByte(w, '='); i > 0 {
			m[w[:i]] = w[i+1:]
		}
	}
	return m
}

func verifC22Scenario(t *testing.T, line string) (res string) {
	kv := verifC22KV(line)
	atoi := func(k string, def int) int {
		if v, ok := kv[k]; ok {
			n, err := strconv.Atoi(v)
			if err == nil {
				return n
			}
		}
		return def
	}
	size, sttl, kttl := atoi("size", 100), atoi("sttl", 60000), atoi("kttl", 0)
	page, slim, tlim, cto := atoi("page", 100), atoi("slim", 100), atoi("tlim", 0), atoi("cto", 0)
	flt := kv["flt"] == "1"
	rec := kv["rec"]
	if rec == "" {
		rec = "none"
	}
	var gates [][]string
	if g := kv["g"]; g != "" && g != "-" {
		for _, part := range strings.Split(g, "/") {
			gates = append(gates, verifC22Ops(part))
		}
	}
	offOps, liveOps := verifC22Ops(kv["off"]), verifC22Ops(kv["live"])

	defer func() {
		if r := recover(); r != nil {
			if os.Getenv("VERIF_NOREC") != "" {
				panic(r)
			}
			res = fmt.Sprintf("PANIC %v", r)
		}
	}()
	var out string
	synctest.Test(t, func(t *testing.T) {
		opts := MapChannelOptions{Mode: MapModeRecoverable, StreamSize: size, StreamTTL: time.Duration(sttl) * time.Millisecond,
			KeyTTL: time.Duration(kttl) * time.Millisecond, MinPageSize: 1, LiveTransitionMaxPublicationLimit: tlim,
			SubscribeCatchUpTimeout: time.Duration(cto) * time.Millisecond}
		if kttl == 0 {
			opts.Mode = MapModePersistent
		}
		node, err := New(Config{LogLevel: LogLevelNone, UseSingleFlight: kv["sf"] == "1",
			Map: MapConfig{GetMapChannelOptions: func(string) MapChannelOptions { return opts }}})
		if err != nil {
			out = "harness-error new-node"
			return
		}
		mb, err := NewMemoryMapBroker(node, MemoryMapBrokerConfig{})
		if err != nil {
			out = "harness-error new-broker"
			return
		}
		s := &verifC22Scn{node: node, broker: mb, epochs: map[string]int{}, gates: gates, flt: flt, fltVal: "1"}
		node.SetMapBroker(&verifC22Broker{MemoryMapBroker: mb, s: s})
		node.OnConnecting(func(ctx context.Context, e ConnectEvent) (ConnectReply, error) {
			return ConnectReply{Credentials: &Credentials{UserID: "u"}}, nil
		})
		node.OnConnect(func(c *Client) {
			c.OnSubscribe(func(e SubscribeEvent, cb SubscribeCallback) {
				cb(SubscribeReply{Options: SubscribeOptions{Type: SubscriptionTypeMap, AllowTagsFilter: true}}, nil)
			})
		})
		if err := node.Run(); err != nil {
			out = "harness-error run"
			return
		}
		finish := func() {
			// let delayed dissolver jobs (broker unsubscribe after 1 s) finish before the node stops
			time.Sleep(5 * time.Second)
			synctest.Wait()
			_ = mb.Close(context.Background())
			_ = node.Shutdown(context.Background())
			synctest.Wait()
		}
		s.tr = &verifC22Transport{}
		ctx, cancel := context.WithCancel(context.Background())
		defer cancel()
		client, closeFn, err := NewClient(ctx, node, s.tr)
		if err != nil {
			out = "harness-error new-client"
			finish()
			return
		}
		s.client = client
		s.cmdID = 1
		client.HandleCommand(&protocol.Command{Id: 1, Connect: &protocol.ConnectRequest{}}, 0)
		synctest.Wait()
		s.tr.mu.Lock()
		s.cursor = len(s.tr.frames)
		s.tr.mu.Unlock()
		if s.cursor == 0 {
			out = "harness-error connect"
			_ = closeFn()
			finish()
			return
		}
		// off the sweepers' whole-second ticks
		time.Sleep(500 * time.Microsecond)
		synctest.Wait()

		// optional observers: live subscribers of the same channel whose tags filters differ from the
		// protocol client's (and from each other's); they subscribe while the channel is still empty
		var observers []*verifC22Obs
		if kv["obs"] == "1" {
			for _, spec := range []struct {
				flt bool
				val string
			}{{true, "0"}, {false, ""}, {true, "1"}} {
				otr := &verifC22Transport{}
				oc, ocl, err := NewClient(ctx, node, otr)
				if err != nil {
					continue
				}
				o := &verifC22Obs{client: oc, closeFn: ocl, tr: otr, cmdID: 1, ref: &verifC22Ref{m: map[string]int{}}, flt: spec.flt, fltVal: spec.val}
				oc.HandleCommand(&protocol.Command{Id: 1, Connect: &protocol.ConnectRequest{}}, 0)
				synctest.Wait()
				otr.mu.Lock()
				o.cursor = len(otr.frames)
				otr.mu.Unlock()
				s.with(o, func() { s.session(o.ref, 100, 100, "") })
				observers = append(observers, o)
			}
		}
		obsState := func() []string {
			var out []string
			for _, o := range observers {
				var bm map[string]int
				s.with(o, func() {
					s.collect(0, o.ref)
					bm, _, _ = s.brokerMap()
				})
				switch {
				case o.ref.told:
					out = append(out, "told")
				case verifC22Map(bm) == verifC22Map(o.ref.m):
					out = append(out, "eq")
				default:
					out = append(out, "ne:"+verifC22Map(o.ref.m)+"/"+verifC22Map(bm))
				}
			}
			return out
		}

		cl := &verifC22Ref{m: map[string]int{}}
		s.session(cl, int32(page), int32(slim), "")
		sessions := 1
		if rec != "none" && cl.phase == "live" && !cl.told {
			// live ops of the first session are taken from the gate list: one gate, then unsubscribe
			s.gate()
			s.collect(0, cl)
			if !cl.told {
				s.cmdID++
				s.tok("q:U")
				client.HandleCommand(&protocol.Command{Id: s.cmdID, Unsubscribe: &protocol.UnsubscribeRequest{Channel: verifC22Ch}}, 0)
				s.collect(s.cmdID, cl)
				for _, op := range offOps {
					s.runOp(op)
				}
				synctest.Wait()
				s.collect(0, cl)
				s.session(cl, int32(page), int32(slim), rec)
				sessions = 2
			}
		}
		if kv["sf"] == "1" {
			// two more protocol clients (one with the tags filter, one without) read the same state page
			// concurrently through the node's singleflight group, then stay as live observers
			var twins []*verifC22Obs
			for _, spec := range []struct {
				flt bool
				val string
			}{{true, "1"}, {false, ""}} {
				otr := &verifC22Transport{}
				oc, ocl, err := NewClient(ctx, node, otr)
				if err != nil {
					continue
				}
				o := &verifC22Obs{client: oc, closeFn: ocl, tr: otr, cmdID: 2, ref: &verifC22Ref{m: map[string]int{}, first: true, phase: "state"}, flt: spec.flt, fltVal: spec.val}
				oc.HandleCommand(&protocol.Command{Id: 1, Connect: &protocol.ConnectRequest{}}, 0)
				synctest.Wait()
				otr.mu.Lock()
				o.cursor = len(otr.frames)
				otr.mu.Unlock()
				twins = append(twins, o)
			}
			if len(twins) == 2 {
				s.tok("tw") // the channel exists from here on (the twins' reads create it if it was dropped)
				tw := &verifC22Twin{release: make(chan struct{}), bothHere: make(chan struct{})}
				s.twin = tw
				done := make(chan struct{}, 2)
				for _, o := range twins {
					req := &protocol.SubscribeRequest{Channel: verifC22Ch, Type: int32(SubscriptionTypeMap), Phase: MapPhaseState, Limit: 100}
					if o.flt {
						req.Tf = &protocol.FilterNode{Op: "", Key: "t", Cmp: "eq", Val: o.fltVal}
					}
					oc := o.client
					go func() {
						oc.HandleCommand(&protocol.Command{Id: 2, Subscribe: req}, 0)
						done <- struct{}{}
					}()
					synctest.Wait() // the first parks inside ReadState, the second joins its singleflight call
				}
				close(tw.release)
				synctest.Wait()
				tw.openBarrier()
				<-done
				<-done
				synctest.Wait()
				s.twin = nil
				for _, o := range twins {
					s.with(o, func() { s.collect(2, o.ref) })
					if o.ref.phase != "live" {
						o.ref.told = true // did not go live in one step: not judged as a live observer
					}
					observers = append(observers, o)
				}
			}
		}
		for _, op := range liveOps {
			if cl.told {
				break
			}
			s.runOp(op)
			s.collect(0, cl)
		}
		s.collect(0, cl)
		// first observation: traffic stopped, pushes drained
		bm, top, bep := s.brokerMap()
		q1 := "ne"
		if verifC22Map(bm) == verifC22Map(cl.m) {
			q1 = "eq"
		}
		told1 := cl.told
		fin := fmt.Sprintf("| fin sess=%d phase=%s told=%d q1=%s cm=%s bm=%s pos=%d:%s top=%d:%s rec=%s", sessions, cl.phase, verifC22B(told1), q1,
			verifC22Map(cl.m), verifC22Map(bm), cl.off, s.ep(cl.ep), top, s.ep(bep), verifC22Str(cl.lastRec))
		obs1 := obsState()
		// second observation: let the periodic position check run (virtual 100 s); key TTLs fire as well
		s.tok("|")
		if !cl.told || len(observers) > 0 {
			s.runOp("A100000")
			s.collect(0, cl)
		}
		bm2, _, _ := s.brokerMap()
		q2 := "ne"
		if verifC22Map(bm2) == verifC22Map(cl.m) {
			q2 = "eq"
		}
		fin += fmt.Sprintf(" told2=%d q2=%s", verifC22B(cl.told), q2)
		if len(observers) > 0 {
			// a live observer must hold the broker state restricted to its own filter once traffic stopped,
			// or have been told (at the latest by the periodic position check)
			obs2 := obsState()
			for i := range observers {
				v := "ok"
				if obs1[i] != "eq" && obs1[i] != "told" && obs2[i] != "told" {
					v = "bad:" + obs1[i]
				} else if obs2[i] != "eq" && obs2[i] != "told" {
					v = "bad2:" + obs2[i]
				}
				fin += fmt.Sprintf(" o%d=%s", i+1, v)
			}
		}
		if s.herr != "" {
			out = "harness-error " + s.herr
		} else {
			out = strings.Join(s.toks, " ") + " " + fin
		}
		_ = closeFn()
		for _, o := range observers {
			_ = o.closeFn()
		}
		finish()
	})
	return out
}

func verifC22Str(s string) string {
	if s == "" {
		return "-"
	}
	return s
}

func TestVerifC22(t *testing.T) {
	in, err := os.Open(os.Getenv("VERIF_OPS"))
	if err != nil {
		t.Skip("no VERIF_OPS")
	}
	defer in.Close()
	out, err := os.Create(os.Getenv("VERIF_OUT"))
	if err != nil {
		t.Fatal(err)
	}
	defer out.Close()
	w := bufio.NewWriter(out)
	defer w.Flush()
	sc := bufio.NewScanner(in)
	sc.Buffer(make([]byte, 1<<20), 1<<26)
	for sc.Scan() {
		line := sc.Text()
		if line == "" || strings.HasPrefix(line, "#") {
			fmt.Fprintln(w, "#")
			continue
		}
		fmt.Fprintln(w, verifC22Scenario(t, line))
		w.Flush()
	}
}
