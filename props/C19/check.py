"""C19 — idempotent and versioned publishes suppress exactly the duplicates (memory stream broker part).

Proof: lean/CentrifugeVerif/Props/C19.lean over Model/HistoryHub.lean.
Tie: same synctest harness and line protocol as C17 (real MemoryBroker, HandlePublication recorded),
with a generator that stresses idempotency keys (incl. result-TTL expiry and colliding cache keys) and
versions (incl. version epochs, unversioned publishes in between, versions >= 2^53).
Oracle: the C19 statement evaluated on the implementation's outputs.
Redis / Lua and the map brokers are out of scope of this check (see meta.json).
"""
import os
import sys

sys.path.insert(0, os.path.join(os.path.dirname(os.path.abspath(__file__)), "..", "C17"))
import c17_histlib as H  # noqa: E402


def run(ctx):
    ctx.rule = ("random op timelines on 1-3 channels (names a, b, a_b): publishes with idempotency keys "
                "(k1, k2, b_k1; result TTL 0/0.5/1/1.5/2/3/5 s), versions (1..6 or around 2^53 / 2^64-1) with "
                "version epochs (none/x/y) mixed with unversioned publishes, history reads, removes, sleeps "
                "crossing result-TTL, history-TTL and meta-TTL boundaries; 30 ops per timeline; one case = one "
                "timeline")
    ctx.assumptions = [
        "epoch.Generate() returns pairwise distinct non-empty strings",
        "result TTL granularity is whole seconds (int64(ttl.Seconds())), default 300 s",
        "`holds a version`: the (version, version epoch) of the latest stored versioned publication of the "
        "current stream; an empty version epoch in the request matches any",
        "Redis/Lua brokers and the map brokers are not covered by this check",
    ]
    H.run_hist(ctx, "c19", "drv_c19", "props/C19/corpus.ops", "props/C19/findings.json", 1000, 30000)
