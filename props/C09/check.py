"""C09 — commands are gated by authentication and answered exactly once; pong without ping.

Proof: lean/CentrifugeVerif/Props/C09.lean over Model/ConnProto.lean (dispatchCommand, handle*,
callbacks, close, ping/pong sign trick).
Tie: random command scenarios (all command kinds, several fields per command, ids 0 / duplicate /
2^32-1, empty and oversized fields, several commands per frame, malformed frames; JSON and
Protobuf; synchronous and parked callbacks fired later in any order, also concurrently) run against
a real Node + Client through HandleReadFrame inside a synctest bubble, and through the Lean driver.
Oracle: the property statement evaluated on the implementation's own trace (gate, pong, reply
accounting per command id), independent of the model.
"""
import json
import os
from collections import Counter

HARNESS = ["props/C09/harness/root/zz_verif_c09_test.go"]
ALL_H = ["sub", "unsub", "pub", "rpc", "msg", "pres", "stats", "hist", "refresh", "subrefresh", "mappub", "maprem"]
KINDS = ["subscribe", "unsubscribe", "publish", "presence", "presence_stats", "history", "rpc", "send", "refresh",
         "sub_refresh", "ping", "connect"]
CHAIN = ["connect", "ping", "subscribe", "unsubscribe", "publish", "presence", "presence_stats", "history", "rpc"]
IDS = [1, 2, 3, 5, 7, 4294967295]


# ----------------------------------------------------------------------------------------- generator
def gen_script(rng, kind):
    mode = "A" if rng.random() < 0.35 else "S"
    r = rng.random()
    if r < 0.55:
        res = "ok"
    elif r < 0.69:
        res = "err:%d" % rng.choice([100, 101, 103, 108, 111, 4000])
    elif r < 0.73:
        res = "disc:%d" % rng.choice([3005, 3501, 3507, 3000, 4999])
    elif r < 0.79:
        res = "gen"
    elif kind == "history" and r < 0.90:
        res = "nores"      # library-side error path (Node.History with a stale epoch)
    else:
        res = rng.choice({"subscribe": ["csr", "past", "csr"], "publish": ["nores", "nokey"],
                          "presence": ["nores"], "presence_stats": ["nores"], "history": ["nores", "nores"], "refresh": ["expired", "past", "future"],
                          "sub_refresh": ["past", "future"]}.get(kind, ["ok"]))
    return mode + ":" + res


def gen_cmd(rng, chans, force_kind=None, no_async_sub=False, taken_async_ids=()):
    kind = force_kind or rng.choice(KINDS[:10] + KINDS[:10] + ["ping"])
    fields = [kind]
    if rng.random() < 0.12:
        fields.append(rng.choice(KINDS))
    if rng.random() < 0.03:
        fields.append(rng.choice(KINDS))
    fields = sorted(set(fields), key=KINDS.index)
    r = rng.random()
    cid = rng.choice(IDS) if r < 0.97 else 0
    ch = rng.choice(chans * 6 + ["-", "LONG", "LONG", "zz", "zz"])
    d = {"id": cid, "f": ",".join(fields), "ch": ch, "tok": rng.choice(["t"] * 9 + ["-"]),
         "type": rng.choice([0, 0, 0, 0, 0, 1, 1, 4]) if "publish" in fields or rng.random() < 0.1 else 0,
         "removed": rng.choice([0, 1]), "delta": rng.choice(["-"] * 10 + ["fossil", "fossil", "bogus"]),
         "s": gen_script(rng, kind)}
    if "subscribe" in fields and d["type"] in (1, 2, 3):
        d["type"] = 0  # map subscriptions are not modelled
    if no_async_sub and "subscribe" in fields and d["s"].startswith("A"):
        d["s"] = "S" + d["s"][1:]   # a second parked subscribe would hang the bubble (see gen_scenario)
    if d["s"].startswith("A") and d["id"] in taken_async_ids:
        # two parked-script commands with one id in one frame: the oracle could not attribute a
        # synchronous (validation) answer to one of them
        d["s"] = "S" + d["s"][1:]
    return d


def fmt_cmd(d):
    return " ".join(f"{k}={d[k]}" for k in ("id", "f", "ch", "tok", "type", "removed", "delta", "s"))


def gen_scenario(rng):
    hs = [h for h in ALL_H if rng.random() < rng.choice([1.0, 0.9, 0.6])]
    conn = rng.choice(["ok"] * 26 + ["exp"] * 4 + ["none"] * 4 + ["subexp"] * 3 + ["nocred", "nonenocred", "err:101", "err:4000",
                                                            "disc:3500", "disc:3000", "gen", "expired"])
    lines = ["reset proto=%s H=%s conn=%s csr=%d rwq=%d chlimit=%d" % (
        rng.choice(["json", "pb"]), ",".join(hs) or "-", conn, rng.choice([0, 1, 1, 1, 1, 1]), rng.choice([0, 0, 1]),
        rng.choice([0, 0, 0, 0, 1, 2]))]
    chans = ["a", "b", "c"]
    npend = 0
    # synctest limitation: while a subscribe callback is parked, close() sits 5 virtual seconds in the
    # unsubscribe wait gate holding connectMu; a second close() spawned by the same op then blocks on that
    # mutex (not a "durable" block), virtual time cannot advance and the bubble hangs.  After the first
    # parked subscribe the generator therefore emits ops that can spawn at most one close, and no second
    # parked subscribe (the gate's own timeout path spawns a close as well).
    parked_sub = False
    # phase 1: before connect
    if rng.random() < 0.15:
        for _ in range(rng.randint(1, 2)):
            r = rng.random()
            if r < 0.6:
                lines.append("frame " + fmt_cmd(gen_cmd(rng, chans)))
            elif r < 0.75:
                lines.append("frame id=0 f=")
            elif r < 0.9:
                lines.append("frame " + rng.choice(["!empty", "!garbage", "!trunc", "!toolarge"]))
            else:
                lines.append("ping")
    c = {"id": rng.choice(IDS + [1, 1, 1]) if rng.random() < 0.95 else 0, "f": "connect", "ch": "-", "tok": "-", "type": 0,
         "removed": 0, "delta": "-", "s": "S:ok"}
    if rng.random() < 0.15:
        c["f"] = "connect," + rng.choice(KINDS[:10])
    first = fmt_cmd(c)
    if rng.random() < 0.2:
        x = gen_cmd(rng, chans, no_async_sub=parked_sub)
        parked_sub = parked_sub or ("subscribe" in x["f"] and x["s"].startswith("A"))
        first += " | " + fmt_cmd(x)
    lines.append("frame " + first)
    for _ in range(rng.randint(2, 14)):
        r = rng.random()
        if r < 0.52:
            cmds = []
            for _ in range(1 if parked_sub or rng.random() < 0.75 else rng.randint(2, 4)):
                cmds.append(gen_cmd(rng, chans, no_async_sub=parked_sub,
                                    taken_async_ids=[x["id"] for x in cmds if x["s"].startswith("A")]))
                if "subscribe" in cmds[-1]["f"] and cmds[-1]["s"].startswith("A"):
                    parked_sub = True
                    break
            npend += sum(1 for x in cmds if x["s"].startswith("A"))
            line = "frame " + " | ".join(fmt_cmd(x) for x in cmds)
            if rng.random() < 0.04 and not parked_sub:
                line += " | " + rng.choice(["!garbage", "!trunc", "!toolarge", "!empty"])
            lines.append(line)
        elif r < 0.70:
            if npend and rng.random() < 0.9:
                k = 1 if parked_sub or rng.random() < 0.7 else rng.randint(2, 3)
                idx = sorted(set(rng.randrange(0, npend + 1) for _ in range(k)))
                lines.append("fire " + ",".join(map(str, idx)))
                npend = max(0, npend - len(idx))
            else:
                lines.append("fire 0")
        elif r < 0.86:
            lines.append("ping")
            if rng.random() < 0.8:
                lines.append("frame id=0 f=" + rng.choice(["", "", "", "rpc", "subscribe,ping"]))
        elif r < 0.89:
            lines.append("frame id=0 f=" + rng.choice(["", "", "rpc", "history"]))
        elif r < 0.91:
            lines.append("eof")
        elif r < 0.93:
            lines.append("frame " + rng.choice(["!empty", "!garbage", "!trunc", "!toolarge"]))
        elif r < 0.95:
            lines.append("frame " + fmt_cmd(gen_cmd(rng, chans, "connect")))
        else:
            c2 = gen_cmd(rng, chans, rng.choice(["subscribe", "unsubscribe", "sub_refresh"]), no_async_sub=parked_sub)
            c2["ch"] = rng.choice(chans)
            c2["type"] = 0
            parked_sub = parked_sub or ("subscribe" in c2["f"] and c2["s"].startswith("A"))
            lines.append("frame " + fmt_cmd(c2))
    if rng.random() < 0.3:
        # subscription flow: subscribe with client-side refresh, then sub_refresh with / without token,
        # duplicate subscribe, unsubscribe, sub_refresh after unsubscribe
        ch = rng.choice(chans)
        flow = [{"f": "subscribe", "s": "S:" + rng.choice(["csr", "csr", "ok"]), "tok": "t"},
                {"f": "sub_refresh", "s": rng.choice(["S:ok", "S:future", "A:ok", "S:past", "S:err:109"]),
                 "tok": rng.choice(["t", "t", "-"])},
                {"f": rng.choice(["subscribe", "sub_refresh", "presence"]), "s": "S:ok", "tok": rng.choice(["t", "-"])},
                {"f": "unsubscribe", "s": "S:ok", "tok": "t"},
                {"f": "sub_refresh", "s": "S:ok", "tok": "t"}]
        for st in flow[: rng.randint(2, 5)]:
            c3 = {"id": rng.choice(IDS), "f": st["f"], "ch": ch, "tok": st["tok"], "type": 0, "removed": 0, "delta": "-",
                  "s": st["s"]}
            if st["s"].startswith("A"):
                npend += 1
            lines.append("frame " + fmt_cmd(c3))
    while npend > 0 and rng.random() < 0.8:
        lines.append("fire 0")
        npend -= 1
    return lines


# ----------------------------------------------------------------------------------------- parsing
def parse_out(line):
    ws = line.split()
    kv = {}
    flags = []
    for w in ws:
        if "=" in w:
            k, v = w.split("=", 1)
            kv[k] = v
        else:
            flags.append(w)
    lst = lambda x: [] if x in (None, "-") else x.split(",")
    return {"fr": lst(kv.get("fr")), "h": lst(kv.get("h")), "d": lst(kv.get("d")), "p": kv.get("p", "-"),
            "pend": kv.get("pend"), "racy": "racy" in flags, "unmodelled": "unmodelled" in flags,
            "codes": [c for c in kv.get("codes", "").split("/") if c]}


def parse_frame(op):
    cmds, tail = [], None
    for part in op[len("frame"):].split("|"):
        part = part.strip()
        if not part:
            continue
        if part.startswith("!"):
            tail = part
            continue
        kv = dict(w.split("=", 1) for w in part.split() if "=" in w)
        fields = [f for f in kv.get("f", "").split(",") if f]
        cmds.append({"id": int(kv.get("id", "0")), "fields": fields, "async": kv.get("s", "S:ok").startswith("A"),
                     "kv": kv})
    return cmds, tail


def is_pong(c):
    return c["id"] == 0 and "send" not in c["fields"]


def send_selected(c):
    return "send" in c["fields"] and not any(f in c["fields"] for f in CHAIN)


def canon_h(hs):
    """unsubscribe callbacks fired by close() come in Go map order: sort each run of them."""
    out, run = [], []
    for h in hs:
        if h.startswith("unsub:"):
            run.append(h)
        else:
            out += sorted(run)
            run = []
            out.append(h)
    return out + sorted(run)


def reply_id(f):
    if f[0] in "re" and f[1:2].isdigit():
        return int(f[1:].split(":")[0])
    return None


# ----------------------------------------------------------------------------------------- oracle
def oracle(ops, outs):
    """The property statement evaluated on the implementation's trace of one scenario.
    Returns None or (message, index of the offending op, signature dict)."""
    auth = False        # a connect reply has been written
    closed = False      # the transport has been closed
    dead = False        # connect answered with an error: the client is unusable, only a close may follow
    outstanding = False  # a server ping is unanswered
    pending = []        # ids of parked callbacks, in handler invocation order
    nclose = 0
    for i, (op, line) in enumerate(zip(ops, outs)):
        if op.startswith("reset") or line in ("#", "ok"):
            continue
        if line.startswith("PANIC") or line == "<missing>":
            return "implementation panicked / produced no output", i, {"kind": "panic"}
        o = parse_out(line)
        nclose += len(o["d"])
        if nclose > 1:
            return "transport closed more than once", i, {"kind": "double-close"}
        replies = Counter(x for x in (reply_id(f) for f in o["fr"]) if x is not None)
        if closed:
            if o["fr"] or o["h"] or o["d"]:
                return "activity after the transport was closed", i, {"kind": "after-close"}
            if op.startswith("fire"):
                idx = sorted({int(x) for x in op.split()[1].split(",") if x.isdigit()})
                pending = [p for k, p in enumerate(pending) if k not in idx]
            continue
        closing = bool(o["d"])
        if op.startswith("frame"):
            cmds, tail = parse_frame(op)
            was_auth = auth
            must_bad_at = None     # position of the first command that must be refused with BadRequest
            clean_prefix = True    # everything before that position was a pong / successful connect
            owed = Counter()
            owed_async = []
            stopped = False
            for k, c in enumerate(cmds):
                if dead:
                    must_bad_at = k
                    break
                if not auth and "connect" not in c["fields"]:
                    must_bad_at = k
                    break
                if is_pong(c):
                    if outstanding:
                        outstanding = False
                        continue
                    must_bad_at = k
                    break
                if "connect" in c["fields"]:
                    if (("r%d:connect" % c["id"]) in o["fr"] or "connect" in o["h"]) and not auth:
                        auth = True
                        owed[c["id"]] += 1
                        continue
                    # refused connect (already authenticated, handler error, no credentials …): reading stops
                    owed[c["id"]] += 1
                    if any(f.startswith("e%d:" % c["id"]) for f in o["fr"]):
                        dead = True
                    elif not closing:
                        return "refused connect neither answered nor closed", i, {"kind": "connect-unanswered"}
                    stopped = True
                    break
                clean_prefix = False
                if send_selected(c):
                    continue
                owed[c["id"]] += 1
                if c["async"]:
                    owed_async.append(c["id"])
            if must_bad_at is None and not stopped and (tail not in (None, "!empty") or not cmds):
                must_bad_at = len(cmds)
            if must_bad_at is not None:
                strict = clean_prefix
                if strict and o["d"] != ["3501"]:
                    what = "pong without a pending ping" if (was_auth or auth) and must_bad_at < len(cmds) and \
                        is_pong(cmds[must_bad_at]) else \
                        ("command before connect" if must_bad_at < len(cmds) else "malformed or empty frame")
                    return f"{what} did not close the connection with bad request (close codes {o['d']})", i, \
                        {"kind": "no-bad-request", "what": what}
                if not strict and not o["d"]:
                    return "refused command did not close the connection", i, {"kind": "no-close"}
                if must_bad_at == 0 and [h for h in o["h"] if not h.startswith(("disconnect:", "unsub:"))]:
                    return f"application handler invoked for a refused command: {o['h']}", i, \
                        {"kind": "handler-on-refused", "auth": was_auth}
                if not was_auth and not auth and [h for h in o["h"] if h != "connecting"]:
                    return f"application handler invoked before authentication: {o['h']}", i, \
                        {"kind": "handler-before-auth"}
            if not was_auth and not auth and [h for h in o["h"] if h != "connecting"]:
                return f"application handler invoked before authentication: {o['h']}", i, {"kind": "handler-before-auth"}
            # reply accounting
            extra = replies - owed - Counter({0: replies.get(0, 0)})
            if extra:
                return f"replies with ids {dict(extra)} that no command of the frame carries", i, {"kind": "spurious-reply"}
            if not closing:
                newly = []
                rem = Counter(replies)
                # synchronous commands must be answered now
                sync_owed = owed - Counter(owed_async)
                for cid, n in sync_owed.items():
                    if rem[cid] < n:
                        return f"command id {cid}: {n} command(s), {rem[cid]} repl(ies), connection not closing", i, \
                            {"kind": "missing-reply", "async": False}
                    rem[cid] -= n
                for cid in owed_async:
                    if rem[cid] > 0:
                        rem[cid] -= 1      # answered synchronously (validation error, handler not set …)
                    else:
                        newly.append(cid)
                left = +rem - Counter({0: rem.get(0, 0)})
                if left:
                    return f"duplicate replies for ids {dict(left)}", i, {"kind": "duplicate-reply"}
                pending += newly
                if o["pend"] is not None and int(o["pend"]) != len(pending):
                    return (f"{len(pending)} command(s) are unanswered but {o['pend']} callback(s) are parked: a command "
                            "was neither answered nor handed to the application"), i, {"kind": "lost-command"}
        elif op.startswith("fire"):
            idx = sorted({int(x) for x in op.split()[1].split(",") if x.isdigit()})
            fired = Counter(pending[k] for k in idx if k < len(pending))
            pending = [p for k, p in enumerate(pending) if k not in idx]
            extra = replies - fired
            if extra:
                return f"callback completion produced replies {dict(extra)} not owed", i, {"kind": "spurious-reply"}
            if not closing and replies != fired:
                return f"fired callbacks for ids {dict(fired)} but replies {dict(replies)}, connection not closing", i, \
                    {"kind": "missing-reply", "async": True}
        elif op == "ping":
            if replies:
                return "ping produced command replies", i, {"kind": "spurious-reply"}
            if "P" in o["fr"]:
                outstanding = True
        if closing:
            closed = True
    return None


# ----------------------------------------------------------------------------------------- comparison
def compare(impl_line, model_line, op="", ignore_pend=False):
    """None when model and implementation agree on the op (modulo the documented races)."""
    if impl_line == model_line:
        return None
    multi = op.startswith("fire") and "," in op
    if ignore_pend:   # after a racy op the number of parked callbacks is not determined
        strip = lambda l: " ".join(w for w in l.split() if not w.startswith("pend="))
        impl_line, model_line = strip(impl_line), strip(model_line)
        if impl_line == model_line:
            return None
    if model_line in ("#", "ok", "bad-op") or impl_line in ("#", "ok", "bad-op", "<missing>"):
        return "different"
    a, b = parse_out(impl_line), parse_out(model_line)
    if b["unmodelled"]:
        return "unmodelled"
    if not b["racy"] and b["d"] and b["d"][0] in ("3000", "3008") and b["fr"]:
        # close(ConnectionClosed / Slow) does not flush the queue: frames of the same op may be lost
        b["racy"] = True
        b["codes"] = list(b["d"])
    if not b["racy"]:
        # a publication push goes through the queue, a ReplyWithoutQueue reply does not: no fixed order
        for x in (a, b):
            x["fr"] = [f for f in x["fr"] if f != "pub"] + [f for f in x["fr"] if f == "pub"]
        if multi:  # callbacks fired concurrently: order of their effects is not fixed
            a["fr"], b["fr"], a["h"], b["h"] = sorted(a["fr"]), sorted(b["fr"]), sorted(a["h"]), sorted(b["h"])
        if (a["fr"], canon_h(a["h"]), a["d"], a["p"], a["pend"]) == (b["fr"], canon_h(b["h"]), b["d"], b["p"], b["pend"]):
            return None
        return "different"
    # racy: the close goroutine may run before later effects of the same op
    if len(a["d"]) != 1 or a["d"][0] not in b["codes"]:
        return "racy: close code"
    fa = Counter(f for f in a["fr"] if not f.startswith("D"))
    fb = Counter(f for f in b["fr"] if not f.startswith("D"))
    if fa - fb:
        return "racy: frames not a subset"
    ha = Counter(h for h in a["h"] if not h.startswith(("unsub:", "disconnect:")))
    hb = Counter(h for h in b["h"] if not h.startswith(("unsub:", "disconnect:")))
    if ha - hb:
        return "racy: handlers not a subset"
    return None


def split_scenarios(ops):
    sc = []
    for i, op in enumerate(ops):
        if op.startswith("reset") or not sc:
            sc.append([])
        sc[-1].append(i)
    return sc


def run(ctx):
    ctx.rule = ("random scenarios: node/handler configuration (which handlers are registered, OnConnecting outcome, "
                "client-side refresh, ReplyWithoutQueue, channel limit, JSON/Protobuf), then frames of 1-4 commands of all "
                "12 kinds (several fields per command, ids 0/duplicate/2^32-1, empty/oversized channel, missing token, "
                "unknown delta, map publish/remove) with synchronous or parked callbacks (ok / error / disconnect / "
                "generic error / expiry variants), callback firing in any order (also concurrently), server pings, pongs, "
                "transport EOF, malformed/empty/truncated/oversized frames, before and after connect; non-trivial = "
                "scenario reaches an authenticated connection and contains a parked callback or a multi-command frame")
    ctx.assumptions = [
        "a spawned `go c.close(d)` is modelled as running at the end of the op that spawned it; ops whose output "
        "depends on that race are compared modulo the race (frames/handlers subset, close code among the spawned ones)",
        "map subscriptions (SubscribeRequest.Type 1..3) and shared-poll channels are outside the model",
        "`send` is one-way: a send that carries an id is not owed a reply (DESIGN.md §4 C09)",
        "the application invokes each handler callback exactly once (the harness does)"]
    proofs_ok = ctx.lean_obligations()
    ctx.log("lean obligations done")
    binary = ctx.go_test_binary(".", HARNESS)
    ctx.log("harness built")
    if binary is None:
        ctx.violation("correspondence", "harness no longer builds against package centrifuge",
                      signature={"kind": "harness-build"}, replay={"log": getattr(ctx, "build_error", "")}, no_input=True)
        return
    if ctx.replay:
        ops = json.load(open(ctx.replay)).get("ops", [])
    else:
        corpus = [l.rstrip("\n") for l in open("props/C09/corpus.ops") if l.strip() and not l.startswith("#")]
        ops = list(corpus)
        for _ in range(ctx.scale(4000, 120000)):
            ops += gen_scenario(ctx.rng)
    impl = par_go_run(ctx, binary, ops)
    ctx.log("implementation run done")
    model = ctx.lean_run(ops)
    if model is None:
        proofs_ok = False
        model = []
    ctx.log("model run done")
    nviol = ndiff = 0
    for idxs in split_scenarios(ops):
        sops = [ops[i] for i in idxs]
        souts = [impl[i] if i < len(impl) else "<missing>" for i in idxs]
        smodel = [model[i] if i < len(model) else "<missing>" for i in idxs]
        if "<dropped>" in souts:
            ctx.count("dropped-scenario(harness timeout)")
            continue
        nontrivial = any(":connect" in x for x in souts) and (any(" s=A:" in o for o in sops) or any("|" in o for o in sops))
        ctx.record(sops, nontrivial=nontrivial)
        for op, out in zip(sops, souts):
            ctx.count("op:" + op.split()[0])
            if op.startswith("frame"):
                for c in parse_frame(op)[0]:
                    for f in c["fields"] or ["<none>"]:
                        ctx.count("kind:" + f)
                    ctx.count("id:" + ("0" if c["id"] == 0 else "max" if c["id"] == 4294967295 else "n"))
                o = parse_out(out)
                for f in o["fr"]:
                    ctx.count("frame:" + (f[0] if f[0] in "rePD" else f))
                    if f[0] == "e":
                        ctx.count("error:" + f.split(":")[1])
                for d in o["d"]:
                    ctx.count("close:" + d)
        bad = oracle(sops, souts)
        if bad:
            nviol += 1
            if nviol <= 3:
                msg, at, sig = bad
                small = shrink(ctx, binary, sops, sig)
                sout = ctx.go_run(binary, "TestVerifC09", small)
                b2 = oracle(small, sout) or bad
                ctx.violation("property", b2[0], signature=b2[2],
                              replay={"ops": small, "impl": sout, "original_ops": sops})
        after_racy = False
        for k, (op, a, b) in enumerate(zip(sops, souts, smodel)):
            r = compare(a, b, op, ignore_pend=after_racy)
            after_racy = after_racy or " racy" in b or " d=3000 " in b or " d=3008 " in b
            if r == "unmodelled":
                ctx.count("unmodelled-op")
                break
            if r is not None:
                ndiff += 1
                if ndiff <= 3 and model:
                    ctx.violation("correspondence", f"model and implementation differ ({r}): impl `{a}` model `{b}`",
                                  signature={"kind": "diff", "op": op.split()[0]},
                                  replay={"ops": sops[:k + 1], "impl": souts[:k + 1], "model": smodel[:k + 1],
                                          "correspondence": "Drivers/C09.lean vs Client.HandleCommand"},
                                  no_input=(nviol == 0))
                break
            if parse_out(b)["racy"]:
                ctx.count("racy-op")
    ctx.traces_validated = len(split_scenarios(ops))
    ctx.extra["disagreements"] = ndiff
    ctx.extra["oracle_failures"] = nviol
    if not proofs_ok:
        ctx.proof_broken()


def par_go_run(ctx, binary, ops, nproc=4):
    """run the harness on the scenarios in `nproc` processes (scenarios are independent)."""
    import subprocess
    from concurrent.futures import ThreadPoolExecutor
    from vlib.core import go_env
    scs = split_scenarios(ops)
    if len(scs) < 8:
        return ctx.go_run(binary, "TestVerifC09", ops)
    chunks = [scs[i::nproc] for i in range(nproc)]

    def work(j):
        idxs = [i for sc in chunks[j] for i in sc]
        fin = os.path.join(ctx.tmp, f"par{j}.ops")
        fout = os.path.join(ctx.tmp, f"par{j}.out")
        open(fin, "w").write("\n".join(ops[i] for i in idxs) + "\n")
        e = go_env()
        e.update({"VERIF_OPS": fin, "VERIF_OUT": fout, "GOMEMLIMIT": "4GiB", "GOMAXPROCS": "4"})
        timed_out = False
        try:
            p = subprocess.run([binary, "-test.run", "^TestVerifC09$", "-test.count=1", "-test.timeout=3000s"],
                               stdout=subprocess.PIPE, stderr=subprocess.STDOUT, text=True, env=e, timeout=ctx.scale(400, 2400),
                               cwd=ctx.tmp)
            if p.returncode != 0:
                ctx.notes.append("go harness: " + p.stdout[-600:])
        except subprocess.TimeoutExpired:
            ctx.notes.append("go harness timeout: scenarios of one chunk dropped (harness error, not a verdict)")
            ctx.count("harness-timeout-chunk")
            timed_out = True
        lines = open(fout).read().splitlines() if os.path.exists(fout) else []
        if timed_out:
            lines += ["<dropped>"] * (len(idxs) - len(lines))
        return idxs, lines
    impl = ["<missing>"] * len(ops)
    with ThreadPoolExecutor(nproc) as ex:
        for idxs, lines in ex.map(work, range(nproc)):
            for i, l in zip(idxs, lines):
                impl[i] = l
    return impl


def shrink(ctx, binary, sops, sig):
    """drop ops (never the reset line) while the oracle still fails with the same kind."""
    from vlib.core import ddmin

    def fails(body):
        ops = [sops[0]] + list(body)
        out = ctx.go_run(binary, "TestVerifC09", ops)
        b = oracle(ops, out)
        return bool(b) and b[2].get("kind") == sig.get("kind")
    body = sops[1:]
    try:
        if len(body) > 1 and fails(body):
            body = ddmin(body, fails)
    except Exception:
        pass
    return [sops[0]] + list(body)
