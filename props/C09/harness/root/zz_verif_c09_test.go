//go:build verif

package centrifuge

// Verification harness for C09 (injected with `go test -overlay`, never part of the repo).
//
// One scenario = the op lines between two `reset` lines; it runs against a real Node + Client
// with a recording Transport inside a testing/synctest bubble (virtual clock; `synctest.Wait`
// is the only synchronisation: an op is finished when every goroutine is durably blocked).
// Frames are fed through the real HandleReadFrame after being encoded with the protocol
// package's JSON / Protobuf command encoders.
//
// Ops (see props/C09/check.py for the generator and Drivers/C09.lean for the model):
//   reset proto=json|pb H=<handlers,> conn=<ok|nocred|err:N|disc:N|gen|expired|none|nonenocred> csr=0|1 rwq=0|1 chlimit=N
//   frame <cmd> [| <cmd>]* [| !empty|!garbage|!trunc|!toolarge]
//       cmd = id=N f=<fields,> ch=<tok> tok=<tok> type=N removed=0|1 delta=<tok> s=<S|A>:<res>
//   fire i[,j…]     run pending asynchronous callbacks (concurrently when several)
//   ping            what the ping timer does (Client.sendPing) when the client is connected
//   eof             the transport handler's deferred close function
// Output per op: `fr=<frames> h=<handler log> d=<transport close codes> p=<proceed> pend=<#parked callbacks>`

import (
	"bufio"
	"bytes"
	"context"
	"errors"
	"fmt"
	"os"
	"sort"
	"strconv"
	"strings"
	"sync"
	"testing"
	"testing/synctest"
	"time"

	"github.com/centrifugal/protocol"
)

type verifC09Transport struct {
	mu     sync.Mutex
	proto  ProtocolType
	frames []string
	closed bool
	closes []string
	late   int
}

func (t *verifC09Transport) Name() string                     { return "verif" }
func (t *verifC09Transport) AcceptProtocol() string           { return "" }
func (t *verifC09Transport) Protocol() ProtocolType           { return t.proto }
func (t *verifC09Transport) ProtocolVersion() ProtocolVersion { return ProtocolVersion2 }
func (t *verifC09Transport) Unidirectional() bool             { return false }
func (t *verifC09Transport) Emulation() bool                  { return false }
func (t *verifC09Transport) DisabledPushFlags() uint64        { return 0 }
func (t *verifC09Transport) PingPongConfig() PingPongConfig {
	return PingPongConfig{PingInterval: 24 * time.Hour, PongTimeout: 12 * time.Hour}
}

func (t *verifC09Transport) decode(data []byte) string {
	var rep *protocol.Reply
	var err error
	if t.proto == ProtocolTypeJSON {
		rep, err = protocol.NewJSONReplyDecoder(data).Decode()
	} else {
		rep = &protocol.Reply{}
		err = rep.UnmarshalVT(data)
	}
	if rep == nil || (err != nil && t.proto != ProtocolTypeJSON) {
		return "?undecodable"
	}
	switch {
	case rep.Error != nil:
		return fmt.Sprintf("e%d:%d", rep.Id, rep.Error.Code)
	case rep.Push != nil:
		p := rep.Push
		switch {
		case p.Disconnect != nil:
			return fmt.Sprintf("D%d", p.Disconnect.Code)
		case p.Unsubscribe != nil:
			return "U"
		case p.Pub != nil:
			return "pub"
		default:
			return "push"
		}
	case rep.Id == 0 && rep.Connect == nil && rep.Subscribe == nil && rep.Unsubscribe == nil && rep.Publish == nil &&
		rep.Presence == nil && rep.PresenceStats == nil && rep.History == nil && rep.Rpc == nil && rep.Refresh == nil &&
		rep.SubRefresh == nil:
		return "P"
	default:
		kind := "?"
		switch {
		case rep.Connect != nil:
			kind = "connect"
		case rep.Subscribe != nil:
			kind = "sub"
		case rep.Unsubscribe != nil:
			kind = "unsub"
		case rep.Publish != nil:
			kind = "pub"
		case rep.Presence != nil:
			kind = "pres"
		case rep.PresenceStats != nil:
			kind = "stats"
		case rep.History != nil:
			kind = "hist"
		case rep.Rpc != nil:
			kind = "rpc"
		case rep.Refresh != nil:
			kind = "refresh"
		case rep.SubRefresh != nil:
			kind = "subrefresh"
		}
		return fmt.Sprintf("r%d:%s", rep.Id, kind)
	}
}

func (t *verifC09Transport) Write(m []byte) error { return t.WriteMany(m) }
func (t *verifC09Transport) WriteMany(ms ...[]byte) error {
	t.mu.Lock()
	defer t.mu.Unlock()
	for _, m := range ms {
		if t.closed {
			t.late++
			continue
		}
		t.frames = append(t.frames, t.decode(m))
	}
	return nil
}
func (t *verifC09Transport) Close(d Disconnect) error {
	t.mu.Lock()
	defer t.mu.Unlock()
	t.closed = true
	t.closes = append(t.closes, strconv.Itoa(int(d.Code)))
	return nil
}

type verifC09Scenario struct {
	mu       sync.Mutex
	node     *Node
	client   *Client
	closeFn  ClientCloseFunc
	tr       *verifC09Transport
	hlog     []string
	pending  []func()
	handlers map[string]bool
	conn     string
	csr      bool
	rwq      bool
}

func (s *verifC09Scenario) logH(x string) {
	s.mu.Lock()
	s.hlog = append(s.hlog, x)
	s.mu.Unlock()
}

// run executes f now ("S:") or parks it as a pending callback ("A:").
func (s *verifC09Scenario) run(script string, f func(res string)) {
	mode, res := "S", script
	if i := strings.IndexByte(script, ':'); i >= 0 {
		mode, res = script[:i], script[i+1:]
	}
	if mode == "A" {
		s.mu.Lock()
		s.pending = append(s.pending, func() { f(res) })
		s.mu.Unlock()
		return
	}
	f(res)
}

func verifC09Err(res string) (error, bool) {
	switch {
	case strings.HasPrefix(res, "err:"):
		n, _ := strconv.Atoi(res[4:])
		return &Error{Code: uint32(n), Message: "scripted"}, true
	case strings.HasPrefix(res, "disc:"):
		n, _ := strconv.Atoi(res[5:])
		return Disconnect{Code: uint32(n), Reason: "scripted"}, true
	case res == "gen":
		return errors.New("scripted generic error"), true
	}
	return nil, false
}

func verifC09Script(b string) string {
	b = strings.Trim(b, `"`)
	if i := strings.LastIndexByte(b, '#'); i >= 0 {
		return b[i+1:]
	}
	return b
}

func verifC09Tok(tok string) string {
	switch tok {
	case "-", "":
		return ""
	case "LONG":
		return strings.Repeat("x", 300)
	}
	return tok
}

// nodes are shared by the scenarios of one run (creating a Node per scenario dominated the run
// time); the node-level handlers forward to the scenario that is current.
var verifC09Nodes = map[string]*Node{}
var verifC09Cur *verifC09Scenario

func verifC09Node(chlimit int, connecting bool) *Node {
	key := fmt.Sprintf("%d/%v", chlimit, connecting)
	if n, ok := verifC09Nodes[key]; ok {
		return n
	}
	cfg := Config{LogLevel: LogLevelNone, ClientStaleCloseDelay: 240 * time.Hour}
	if chlimit > 0 {
		cfg.ClientChannelLimit = chlimit
	}
	node, err := New(cfg)
	if err != nil {
		panic(err)
	}
	if connecting {
		node.OnConnecting(func(ctx context.Context, e ConnectEvent) (ConnectReply, error) {
			return verifC09Cur.onConnecting(ctx, e)
		})
	}
	node.OnConnect(func(c *Client) { verifC09Cur.onConnect(c) })
	if err := node.Run(); err != nil {
		panic(err)
	}
	verifC09Nodes[key] = node
	return node
}

func (s *verifC09Scenario) onConnecting(ctx context.Context, e ConnectEvent) (ConnectReply, error) {
	s.logH("connecting")
	if err, ok := verifC09Err(s.conn); ok {
		return ConnectReply{}, err
	}
	rep := ConnectReply{ClientSideRefresh: s.csr, ReplyWithoutQueue: s.rwq}
	switch s.conn {
	case "nocred":
	case "expired":
		rep.Credentials = &Credentials{UserID: "u", ExpireAt: time.Now().Unix() - 10}
	case "exp":
		rep.Credentials = &Credentials{UserID: "u", ExpireAt: time.Now().Unix() + 864000}
	case "subexp":
		// the connect fails after authentication: a connect-time server-side subscription whose
		// expiration lies in the past is answered with ErrorExpired
		rep.Credentials = &Credentials{UserID: "u"}
		rep.Subscriptions = map[string]SubscribeOptions{"srv": {ExpireAt: time.Now().Unix() - 10}}
	default:
		rep.Credentials = &Credentials{UserID: "u"}
	}
	return rep, nil
}

func (s *verifC09Scenario) setup(kv map[string]string) {
	chlimit, _ := strconv.Atoi(kv["chlimit"])
	s.handlers = map[string]bool{}
	for _, h := range strings.Split(kv["H"], ",") {
		if h != "" && h != "-" {
			s.handlers[h] = true
		}
	}
	s.conn = kv["conn"]
	s.csr = kv["csr"] == "1"
	s.rwq = kv["rwq"] == "1"
	verifC09Cur = s
	node := verifC09Node(chlimit, s.conn != "none" && s.conn != "nonenocred")
	s.node = node
	s.tr = &verifC09Transport{proto: ProtocolTypeJSON}
	if kv["proto"] == "pb" {
		s.tr.proto = ProtocolTypeProtobuf
	}
	ctx := context.Background()
	if s.conn == "none" {
		ctx = SetCredentials(ctx, &Credentials{UserID: "u"})
	}
	c, closeFn, err := NewClient(ctx, node, s.tr)
	if err != nil {
		panic(err)
	}
	s.client, s.closeFn = c, closeFn
}

func (s *verifC09Scenario) onConnect(c *Client) {
	{

		s.logH("connect")
		if s.handlers["sub"] {
			c.OnSubscribe(func(e SubscribeEvent, cb SubscribeCallback) {
				s.logH("sub:" + e.Channel)
				s.run(verifC09Script(string(e.Data)), func(res string) {
					if err, ok := verifC09Err(res); ok {
						cb(SubscribeReply{}, err)
						return
					}
					rep := SubscribeReply{}
					switch res {
					case "csr":
						rep.ClientSideRefresh = true
						rep.Options.ExpireAt = time.Now().Unix() + 864000
					case "past":
						rep.Options.ExpireAt = time.Now().Unix() - 10
					}
					cb(rep, nil)
				})
			})
		}
		if s.handlers["unsub"] {
			c.OnUnsubscribe(func(e UnsubscribeEvent) { s.logH("unsub:" + e.Channel) })
		}
		if s.handlers["pub"] {
			c.OnPublish(func(e PublishEvent, cb PublishCallback) {
				s.logH("pub")
				s.run(verifC09Script(string(e.Data)), func(res string) {
					if err, ok := verifC09Err(res); ok {
						cb(PublishReply{}, err)
						return
					}
					if res == "nores" {
						cb(PublishReply{}, nil)
						return
					}
					cb(PublishReply{Result: &PublishResult{}}, nil)
				})
			})
		}
		if s.handlers["mappub"] {
			c.OnMapPublish(func(e MapPublishEvent, cb MapPublishCallback) {
				s.logH("mappub")
				s.run(verifC09Script(string(e.Data)), func(res string) {
					if err, ok := verifC09Err(res); ok {
						cb(MapPublishReply{}, err)
						return
					}
					if res == "nokey" {
						cb(MapPublishReply{Result: &MapUpdateResult{}}, nil)
						return
					}
					if res == "nores" {
						cb(MapPublishReply{Key: "k"}, nil) // the library publishes itself (Node.MapPublish)
						return
					}
					cb(MapPublishReply{Key: "k", Result: &MapUpdateResult{}}, nil)
				})
			})
		}
		if s.handlers["maprem"] {
			c.OnMapRemove(func(e MapRemoveEvent, cb MapRemoveCallback) {
				s.logH("maprem")
				// MapRemoveEvent carries no payload: the script travels in the key.
				s.run(verifC09Script(e.Key), func(res string) {
					if err, ok := verifC09Err(res); ok {
						cb(MapRemoveReply{}, err)
						return
					}
					if res == "nokey" {
						cb(MapRemoveReply{Result: &MapUpdateResult{}}, nil)
						return
					}
					if res == "nores" {
						cb(MapRemoveReply{Key: "k"}, nil)
						return
					}
					cb(MapRemoveReply{Key: "k", Result: &MapUpdateResult{}}, nil)
				})
			})
		}
		if s.handlers["pres"] {
			c.OnPresence(func(e PresenceEvent, cb PresenceCallback) {
				s.logH("pres")
				s.run(verifC09Script(e.Channel), func(res string) {
					if err, ok := verifC09Err(res); ok {
						cb(PresenceReply{}, err)
						return
					}
					if res == "nores" {
						cb(PresenceReply{}, nil)
						return
					}
					cb(PresenceReply{Result: &PresenceResult{}}, nil)
				})
			})
		}
		if s.handlers["stats"] {
			c.OnPresenceStats(func(e PresenceStatsEvent, cb PresenceStatsCallback) {
				s.logH("stats")
				s.run(verifC09Script(e.Channel), func(res string) {
					if err, ok := verifC09Err(res); ok {
						cb(PresenceStatsReply{}, err)
						return
					}
					if res == "nores" {
						cb(PresenceStatsReply{}, nil)
						return
					}
					cb(PresenceStatsReply{Result: &PresenceStatsResult{}}, nil)
				})
			})
		}
		if s.handlers["hist"] {
			c.OnHistory(func(e HistoryEvent, cb HistoryCallback) {
				s.logH("hist")
				s.run(verifC09Script(e.Channel), func(res string) {
					if err, ok := verifC09Err(res); ok {
						cb(HistoryReply{}, err)
						return
					}
					if res == "nores" {
						cb(HistoryReply{}, nil) // the library reads the history itself (Node.History)
						return
					}
					cb(HistoryReply{Result: &HistoryResult{}}, nil)
				})
			})
		}
		if s.handlers["rpc"] {
			c.OnRPC(func(e RPCEvent, cb RPCCallback) {
				s.logH("rpc")
				s.run(verifC09Script(e.Method), func(res string) {
					if err, ok := verifC09Err(res); ok {
						cb(RPCReply{}, err)
						return
					}
					cb(RPCReply{Data: []byte(`{}`)}, nil)
				})
			})
		}
		if s.handlers["msg"] {
			c.OnMessage(func(e MessageEvent) { s.logH("msg") })
		}
		if s.handlers["refresh"] {
			c.OnRefresh(func(e RefreshEvent, cb RefreshCallback) {
				s.logH("refresh")
				s.run(verifC09Script(e.Token), func(res string) {
					if err, ok := verifC09Err(res); ok {
						cb(RefreshReply{}, err)
						return
					}
					rep := RefreshReply{}
					switch res {
					case "expired":
						rep.Expired = true
					case "past":
						rep.ExpireAt = time.Now().Unix() - 10
					case "future":
						rep.ExpireAt = time.Now().Unix() + 864000
					}
					cb(rep, nil)
				})
			})
		}
		if s.handlers["subrefresh"] {
			c.OnSubRefresh(func(e SubRefreshEvent, cb SubRefreshCallback) {
				s.logH("subrefresh")
				s.run(verifC09Script(e.Token), func(res string) {
					if err, ok := verifC09Err(res); ok {
						cb(SubRefreshReply{}, err)
						return
					}
					rep := SubRefreshReply{}
					switch res {
					case "past":
						rep.ExpireAt = time.Now().Unix() - 10
					case "future":
						rep.ExpireAt = time.Now().Unix() + 864000
					}
					cb(rep, nil)
				})
			})
		}
		c.OnDisconnect(func(e DisconnectEvent) { s.logH(fmt.Sprintf("disconnect:%d", e.Code)) })
	}
}

func verifC09KV(ws []string) map[string]string {
	m := map[string]string{}
	for _, w := range ws {
		if i := strings.IndexByte(w, '='); i > 0 {
			m[w[:i]] = w[i+1:]
		}
	}
	return m
}

// buildCommand turns the structured op into a protocol.Command.
func verifC09Command(kv map[string]string) *protocol.Command {
	id, _ := strconv.ParseUint(kv["id"], 10, 32)
	cmd := &protocol.Command{Id: uint32(id)}
	ch := verifC09Tok(kv["ch"])
	tok := verifC09Tok(kv["tok"])
	script := kv["s"]
	typ, _ := strconv.Atoi(kv["type"])
	withScript := func(base string) string { return base + "#" + script }
	for _, f := range strings.Split(kv["f"], ",") {
		switch f {
		case "connect":
			cmd.Connect = &protocol.ConnectRequest{}
		case "ping":
			cmd.Ping = &protocol.PingRequest{}
		case "subscribe":
			cmd.Subscribe = &protocol.SubscribeRequest{Channel: ch, Data: []byte(`"` + script + `"`), Type: int32(typ),
				Delta: verifC09Tok(kv["delta"])}
		case "unsubscribe":
			cmd.Unsubscribe = &protocol.UnsubscribeRequest{Channel: ch}
		case "publish":
			cmd.Publish = &protocol.PublishRequest{Channel: ch, Data: []byte(`"` + script + `"`), Type: int32(typ),
				Removed: kv["removed"] == "1", Key: withScript("k")}
		case "presence":
			c := ch
			if c != "" {
				c = withScript(c)
			}
			cmd.Presence = &protocol.PresenceRequest{Channel: c}
		case "presence_stats":
			c := ch
			if c != "" {
				c = withScript(c)
			}
			cmd.PresenceStats = &protocol.PresenceStatsRequest{Channel: c}
		case "history":
			c := ch
			if c != "" {
				c = withScript(c)
			}
			cmd.History = &protocol.HistoryRequest{Channel: c}
			if strings.HasSuffix(script, ":nores") {
				// a position in an epoch the broker never had
				cmd.History.Since = &protocol.StreamPosition{Offset: 3, Epoch: "stale"}
				cmd.History.Limit = 10
			}
		case "rpc":
			cmd.Rpc = &protocol.RPCRequest{Method: withScript("m")}
		case "send":
			cmd.Send = &protocol.SendRequest{Data: []byte(`{}`)}
		case "refresh":
			t := tok
			if t != "" {
				t = withScript(t)
			}
			cmd.Refresh = &protocol.RefreshRequest{Token: t}
		case "sub_refresh":
			t := tok
			if t != "" {
				t = withScript(t)
			}
			cmd.SubRefresh = &protocol.SubRefreshRequest{Channel: ch, Token: t}
		}
	}
	return cmd
}

func (s *verifC09Scenario) frameBytes(rest string) []byte {
	var buf bytes.Buffer
	isJSON := s.tr.proto == ProtocolTypeJSON
	parts := strings.Split(rest, "|")
	for i, part := range parts {
		part = strings.TrimSpace(part)
		if strings.HasPrefix(part, "!") {
			switch part {
			case "!empty":
			case "!garbage":
				if isJSON {
					buf.WriteString("{{{not json")
				} else {
					buf.Write([]byte{3, 0xff, 0xff, 0xff})
				}
			case "!trunc":
				if isJSON {
					buf.WriteString(`{"id":7,"rpc":{"method":"m`)
				} else {
					buf.Write([]byte{10, 0x08, 0x07})
				}
			case "!toolarge":
				if isJSON {
					buf.WriteString(`{"id":7,"rpc":{"method":"` + strings.Repeat("y", 70000) + `"}}`)
				} else {
					buf.Write([]byte{0x80, 0x80, 0x08}) // varint 131072 > limit
					buf.Write(bytes.Repeat([]byte{0}, 100))
				}
			}
			continue
		}
		cmd := verifC09Command(verifC09KV(strings.Fields(part)))
		var data []byte
		var err error
		if isJSON {
			data, err = protocol.NewJSONCommandEncoder().Encode(cmd)
		} else {
			data, err = protocol.NewProtobufCommandEncoder().Encode(cmd)
		}
		if err != nil {
			panic(err)
		}
		buf.Write(data)
		if isJSON && i < len(parts)-1 {
			buf.WriteByte('\n')
		}
	}
	return buf.Bytes()
}

func (s *verifC09Scenario) collect(proceed string, sortFrames bool) string {
	synctest.Wait()
	// A spawned close() may sit in unsubscribe's 5 s wait gate (one per reserved channel) while
	// holding connectMu: let virtual time pass until it is through, so that the op's effects are
	// complete.
	for i := 0; i < 12; i++ {
		if s.client.connectMu.TryLock() {
			s.client.connectMu.Unlock()
			break
		}
		time.Sleep(5100 * time.Millisecond)
		synctest.Wait()
	}
	s.tr.mu.Lock()
	fr := s.tr.frames
	s.tr.frames = nil
	cl := s.tr.closes
	s.tr.closes = nil
	s.tr.mu.Unlock()
	s.mu.Lock()
	hl := s.hlog
	s.hlog = nil
	npend := len(s.pending)
	s.mu.Unlock()
	if sortFrames {
		sort.Strings(fr)
		sort.Strings(hl)
	}
	j := func(xs []string) string {
		if len(xs) == 0 {
			return "-"
		}
		return strings.Join(xs, ",")
	}
	return fmt.Sprintf("fr=%s h=%s d=%s p=%s pend=%d", j(fr), j(hl), j(cl), proceed, npend)
}

func (s *verifC09Scenario) step(line string) (res string) {
	defer func() {
		if r := recover(); r != nil {
			res = fmt.Sprintf("PANIC %v", r)
		}
	}()
	ws := strings.Fields(line)
	switch ws[0] {
	case "frame":
		data := s.frameBytes(strings.TrimSpace(strings.TrimPrefix(line, "frame")))
		ok := HandleReadFrame(s.client, bytes.NewReader(data), 65536)
		p := "0"
		if ok {
			p = "1"
		}
		return s.collect(p, false)
	case "fire":
		s.mu.Lock()
		var fs []func()
		idx := map[int]bool{}
		for _, x := range strings.Split(ws[1], ",") {
			i, err := strconv.Atoi(x)
			if err == nil && i >= 0 && i < len(s.pending) && !idx[i] {
				idx[i] = true
				fs = append(fs, s.pending[i])
			}
		}
		var rest []func()
		for i, f := range s.pending {
			if !idx[i] {
				rest = append(rest, f)
			}
		}
		s.pending = rest
		s.mu.Unlock()
		if len(fs) == 1 {
			fs[0]()
		} else {
			for _, f := range fs {
				go f()
			}
		}
		return s.collect("-", len(fs) > 1)
	case "ping":
		s.client.mu.RLock()
		connected := s.client.status == statusConnected
		s.client.mu.RUnlock()
		if connected {
			s.client.sendPing()
		}
		return s.collect("-", false)
	case "eof":
		_ = s.closeFn()
		return s.collect("-", false)
	}
	return "bad-op"
}

func TestVerifC09(t *testing.T) {
	in, err := os.Open(os.Getenv("VERIF_OPS"))
	if err != nil {
		t.Skip("no VERIF_OPS")
	}
	defer in.Close()
	out, err := os.Create(os.Getenv("VERIF_OUT"))
	if err != nil {
		t.Fatal(err)
	}
	defer out.Close()
	w := bufio.NewWriter(out)
	defer w.Flush()
	sc := bufio.NewScanner(in)
	sc.Buffer(make([]byte, 1<<20), 1<<26)
	var scenarios [][]string
	for sc.Scan() {
		line := sc.Text()
		if strings.HasPrefix(line, "reset") || len(scenarios) == 0 {
			scenarios = append(scenarios, nil)
		}
		scenarios[len(scenarios)-1] = append(scenarios[len(scenarios)-1], line)
	}
	synctest.Test(t, func(t *testing.T) {
		for _, lines := range scenarios {
			outs := make([]string, len(lines))
			var s *verifC09Scenario
			for i, line := range lines {
				switch {
				case line == "" || strings.HasPrefix(line, "#"):
					outs[i] = "#"
				case strings.HasPrefix(line, "reset"):
					s = &verifC09Scenario{}
					s.setup(verifC09KV(strings.Fields(line)))
					outs[i] = "ok"
				case s == nil:
					outs[i] = "bad-op"
				default:
					outs[i] = s.step(line)
				}
			}
			if s != nil {
				_ = s.closeFn()
				synctest.Wait()
				time.Sleep(2 * time.Second) // dissolver jobs of this scenario (1 s delay)
			}
			for _, o := range outs {
				fmt.Fprintln(w, o)
			}
			w.Flush()
		}
		for _, n := range verifC09Nodes {
			_ = n.Shutdown(context.Background())
		}
		time.Sleep(10 * time.Second)
		synctest.Wait()
	})
}
