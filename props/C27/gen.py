"""Translator for C27/C28: runs the Go extractor (props/C27/extract) on the current source tree and renders
the extracted facts as the Lean module CentrifugeVerif.Gen.ControlCodec.

The Lean file contains, per server-side operation (subscribe, unsubscribe, disconnect, refresh):
  * the option record (only the fields some public With* constructor can set) and the With* constructors,
  * the control message `encodeX` built by pubX,
  * `localX`  : the hub call Node.X makes on its own node,
  * `remoteX` : the hub call Node.handleControl makes on another node from the decoded message,
  * `roundtripX` (Bool) : remote (encode o) = local o, modulo the option-record fields that only Node.X reads,
  * `probes`  : the round trip evaluated on records that differ from the default in one option at a time,
  * a small line interface used by the drivers (`applyXOpt`, `roundtripLine`).
Everything is rendered from the extracted syntax; nothing about which field maps to which is written here.
"""
import json
import os
import subprocess

HERE = os.path.dirname(os.path.abspath(__file__))


class GenError(Exception):
    pass


def extract(repo, env):
    p = subprocess.run(["go", "run", ".", repo], cwd=os.path.join(HERE, "extract"), env=env,
                       stdout=subprocess.PIPE, stderr=subprocess.PIPE, text=True, timeout=600)
    if p.returncode != 0:
        raise GenError("extractor failed: " + p.stderr.strip()[-2000:])
    return json.loads(p.stdout)


# --------------------------------------------------------------------------------------------- types

PRIM = {"string": "String", "bool": "Bool", "int64": "Int", "uint64": "Nat", "uint32": "UInt32", "uint8": "UInt8",
        "[]byte": "List UInt8", "[]string": "List String", "time.Duration": "Int"}
DEFAULT = {"String": '""', "Bool": "false", "Int": "0", "Nat": "0", "UInt32": "0", "UInt8": "0"}
OPS = ["subscribe", "unsubscribe", "disconnect", "refresh"]


class Gen:
    def __init__(self, facts):
        self.f = facts
        self.structs = facts["structs"]
        self.named = facts["named_types"]
        self.fresh = 0
        self.out = []

    # Go type -> canonical Go type (named scalar types resolved)
    def canon(self, t):
        if t.startswith("protocol."):
            t = t[len("protocol."):]
        if t in self.named and self.named[t] in PRIM:
            return self.named[t]
        return t

    def lean_struct_name(self, t):
        if t.startswith("controlpb."):
            return "Ctl" + t[len("controlpb."):]
        return "G" + t

    def lt(self, t, ctl=False):
        """Lean type of a Go type; ctl=True when the type occurs inside package controlpb."""
        t = self.canon(t)
        if t in PRIM:
            return PRIM[t]
        if t.startswith("..."):
            return self.lean_struct_name(t[3:] + "s")
        if t.startswith("[]*") and t[3:].endswith("FilterNode"):
            return self.lt(t[3:], ctl) + "s"
        if t.startswith("*"):
            return "Option " + self.lt(t[1:], ctl)
        if ctl and not t.startswith("controlpb."):
            t = "controlpb." + t
        if t in self.structs:
            return self.lean_struct_name(t)
        raise GenError(f"no Lean type for Go type {t}")

    def default(self, leant):
        if leant in DEFAULT:
            return DEFAULT[leant]
        if leant.startswith("List "):
            return "[]"
        if leant.startswith("Option "):
            return "none"
        if leant.endswith("FilterNodes"):
            return "." + "nil"
        return "{}"

    def fields(self, t, ctl=None):
        if t not in self.structs:
            raise GenError(f"unknown struct {t}")
        return self.structs[t]

    def field_type(self, t, name):
        t = self.canon(t)
        for fl in self.fields(t):
            if fl["name"] == name:
                ft = fl["type"]
                if t.startswith("controlpb.") and not self.canon(ft.lstrip("*[]")) in PRIM and "controlpb." not in ft:
                    # types inside controlpb refer to controlpb types
                    stars = ft[:len(ft) - len(ft.lstrip("*[]"))]
                    ft = stars + "controlpb." + ft.lstrip("*[]")
                return ft
        raise GenError(f"struct {t} has no field {name}")

    # ----------------------------------------------------------------------------------- expressions
    def key(self, e):
        return json.dumps(e, sort_keys=True)

    def render(self, e, env, binds=()):
        """-> (lean text, go type).  env: input name -> (lean text, go type)."""
        k = e["k"]
        kk = self.key(e)
        for bk, bv, bt in binds:
            if bk == kk:
                return bv, bt
        if k == "in":
            if e["name"] not in env:
                raise GenError(f"unbound input {e['name']}")
            return env[e["name"]]
        if k == "sel":
            tx, ty = self.render(e["x"], env, binds)
            if ty.startswith("*"):
                raise GenError(f"field {e['name']} selected through a pointer outside a nil guard")
            return f"({tx}).{e['name']}" if not tx.isidentifier() else f"{tx}.{e['name']}", self.field_type(ty, e["name"])
        if k == "ifnn":
            tx, ty = self.render(e["x"], env, binds)
            if not ty.startswith("*"):
                raise GenError("nil guard on a non-pointer")
            self.fresh += 1
            v = f"v{self.fresh}"
            nb = tuple(binds) + ((self.key(e["x"]), v, ty[1:]),)
            tyy, tty = self.render(e["y"], env, nb)
            tz, ttz = self.render(e["z"], env, binds)
            return f"(match {tx} with | some {v} => {tyy} | none => {tz})", (tty if tty != "nil" else ttz)
        if k == "deref":
            tx, ty = self.render(e["x"], env, binds)
            if ty.startswith("*"):
                raise GenError("dereference outside a nil guard")
            return tx, ty
        if k == "addr":
            tx, ty = self.render(e["x"], env, binds)
            return f"(some {tx})", "*" + ty
        if k == "lit":
            t = e["type"]
            given = {fi["name"]: fi["x"] for fi in e.get("fields", [])}
            known = [fl["name"] for fl in self.fields(t)]
            for g in given:
                if g not in known:
                    raise GenError(f"literal of {t} sets unknown field {g}")
            parts = []
            for fl in self.fields(t):
                if fl["name"] in given and given[fl["name"]].get("k") == "nil":
                    parts.append(f"{fl['name']} := {self.default(self.lt(fl['type'], t.startswith('controlpb.')))}")
                elif fl["name"] in given:
                    tx, _ = self.render(given[fl["name"]], env, binds)
                    parts.append(f"{fl['name']} := {tx}")
            txt = "({ " + ", ".join(parts) + " } : " + self.lean_struct_name(t) + ")"
            if e.get("ptr"):
                return f"(some {txt})", "*" + t
            return txt, t
        if k == "nil":
            return "none", "nil"
        if k == "str":
            return json.dumps(e.get("str", "")), "string"
        if k == "int":
            return e["str"], "int"
        if k == "bool":
            return e["str"], "bool"
        if k == "const":
            return e["name"], self.f["consts"][e["name"]]["type"]
        if k == "conv":
            tx, ty = self.render(e["x"], env, binds)
            src, dst = self.canon(ty), self.canon(e["type"])
            if src == dst:
                return tx, e["type"]
            tbl = {("uint8", "uint32"): "toUInt32", ("uint32", "uint8"): "toUInt8"}
            if (src, dst) not in tbl:
                raise GenError(f"unsupported conversion {src} -> {dst}")
            return f"({tx}).{tbl[(src, dst)]}", dst
        if k == "call":
            tx, ty = self.render(e["args"][0], env, binds)
            conv = {c["name"]: c for c in self.f["filter_convs"]}[e["name"]]
            if self.canon(ty.lstrip("*")) != self.canon(conv["from"]):
                raise GenError(f"{e['name']} applied to {ty}")
            return f"({tx}).map {e['name']}", "*" + conv["to"]
        if k == "and":
            a, _ = self.render(e["x"], env, binds)
            b, _ = self.render(e["y"], env, binds)
            return f"({a} && {b})", "bool"
        if k == "eq":
            a, _ = self.render(e["x"], env, binds)
            b, _ = self.render(e["y"], env, binds)
            return f"({a} == {b})", "bool"
        if k == "neq":
            a, _ = self.render(e["x"], env, binds)
            b, _ = self.render(e["y"], env, binds)
            return f"({a} != {b})", "bool"
        if k == "rawopts":
            return env["o"]
        if k == "optlist":
            txt = "({} : " + self.lean_struct_name(e["type"] + "s") + ")"
            for o in e.get("args", []):
                args = " ".join(self.render(a, env, binds)[0] for a in o.get("args", []))
                txt = f"({o['name']} {args} {txt})"
            return txt, e["type"] + "s"
        raise GenError(f"cannot render expression kind {k}")

    # ----------------------------------------------------------------------------------- emitters
    def w(self, s=""):
        self.out.append(s)

    def emit_struct(self, t, only=None):
        name = self.lean_struct_name(t)
        ctl = t.startswith("controlpb.")
        self.w(f"structure {name} where")
        n = 0
        for fl in self.fields(t):
            if only is not None and fl["name"] not in only:
                continue
            lty = self.lt(fl["type"], ctl)
            self.w(f"  {fl['name']} : {lty} := {self.default(lty)}")
            n += 1
        if n == 0:
            self.w("  mk ::")
        self.w("  deriving DecidableEq, Repr, Inhabited")
        self.w()

    def emit_filter(self, t):
        name = self.lean_struct_name(t)
        ctl = t.startswith("controlpb.")
        args = []
        for fl in self.fields(t):
            args.append(f"({fl['name']} : {self.lt(fl['type'], ctl)})")
        self.w("mutual")
        self.w(f"inductive {name} where")
        self.w(f"  | mk {' '.join(args)}")
        self.w(f"inductive {name}s where")
        self.w("  | nil")
        self.w(f"  | cons (head : {name}) (tail : {name}s)")
        self.w("end")
        self.w(f"deriving instance DecidableEq, Repr for {name}, {name}s")
        self.w(f"instance : Inhabited {name}s := ⟨.nil⟩")
        self.w()

    def emit_filter_conv(self, c):
        src, dst = self.canon(c["from"]), self.canon(c["to"])
        sname, dname = self.lean_struct_name(src), self.lean_struct_name(dst)
        sf, df = self.fields(src), self.fields(dst)
        pats = " ".join("x" + fl["name"] for fl in sf)
        srcnames = {fl["name"] for fl in sf}
        vals = []
        for fl in df:
            if fl["name"] in c["copies"] and fl["name"] in srcnames:
                vals.append("x" + fl["name"])
            elif fl["name"] == c["recurse"]:
                vals.append(f"({c['name']}List x{fl['name']})")
            else:
                vals.append(self.default(self.lt(fl["type"], dst.startswith("controlpb."))))
        for cp in c["copies"]:
            if cp not in srcnames or cp not in {fl["name"] for fl in df}:
                raise GenError(f"{c['name']} copies unknown field {cp}")
        self.w("mutual")
        self.w(f"def {c['name']} : {sname} → {dname}")
        self.w(f"  | .mk {pats} => .mk {' '.join(vals)}")
        self.w(f"def {c['name']}List : {sname}s → {dname}s")
        self.w("  | .nil => .nil")
        self.w(f"  | .cons n ns => .cons ({c['name']} n) ({c['name']}List ns)")
        self.w("end")
        self.w()

    def settable(self, optstype):
        s = []
        for oc in self.f["options"][optstype]:
            for st in oc["sets"]:
                if st["name"] not in s:
                    s.append(st["name"])
        return s

    def private_fields(self, optstype):
        return [x for x in self.settable(optstype) if not x[0].isupper()]

    def sample(self, gotype):
        t = self.canon(gotype)
        tbl = {"string": '"x"', "bool": "true", "int64": "7", "uint8": "3", "uint32": "9", "uint64": "5",
               "time.Duration": "5000000000", "[]byte": "[1, 2]", "[]string": '["a", "b"]'}
        if gotype == "RecoveryMode":
            return "1"
        if t in tbl:
            return tbl[t]
        if t.startswith("*"):
            return f"(some {self.sample(t[1:])})"
        if t == "FilterNode":
            return "sampleFilter"
        if t in self.structs:
            parts = [f"{fl['name']} := {self.sample(fl['type'])}" for fl in self.fields(t)]
            return "({ " + ", ".join(parts) + " } : " + self.lean_struct_name(t) + ")"
        raise GenError(f"no sample value for {gotype}")

    def parser_for(self, gotype):
        t = self.canon(gotype)
        tbl = {"string": "pStr", "bool": "pBool", "int64": "pInt", "uint8": "pU8", "time.Duration": "pInt",
               "[]byte": "pBytes", "[]string": "pStrList", "*StreamPosition": "pSP", "*FilterNode": "pFilter",
               "Unsubscribe": "pUnsub", "Disconnect": "pDisc"}
        if t in tbl:
            return tbl[t]
        raise GenError(f"no line parser for option parameter type {gotype}")

    def emit_sample_filter(self):
        def node(i, child):
            parts = []
            for fl in self.fields("FilterNode"):
                t = self.canon(fl["type"])
                if t == "string":
                    parts.append(f'"{fl["name"].lower()}{i}"')
                elif t == "[]string":
                    parts.append(f'["{fl["name"].lower()}{i}"]')
                elif t.startswith("[]*"):
                    parts.append(child)
                else:
                    raise GenError(f"FilterNode field {fl['name']} has unsupported type {t}")
            return "(.mk " + " ".join(parts) + ")"
        leaf = node(2, ".nil")
        self.w(f"def sampleFilter : GFilterNode := {node(1, '(.cons ' + leaf + ' .nil)')}")
        self.w()

    def emit_named_filters(self, named):
        """named: name -> python tree {Op,Key,Cmp,Val,Vals,Nodes}"""
        def node(tr):
            parts = []
            for fl in self.fields("FilterNode"):
                t = self.canon(fl["type"])
                v = tr.get(fl["name"])
                if t == "string":
                    parts.append(json.dumps(v or ""))
                elif t == "[]string":
                    parts.append("[" + ", ".join(json.dumps(x) for x in (v or [])) + "]")
                elif t.startswith("[]*"):
                    lst = ".nil"
                    for ch in reversed(v or []):
                        lst = f"(.cons {node(ch)} {lst})"
                    parts.append(lst)
                else:
                    raise GenError("unsupported FilterNode field")
            return "(.mk " + " ".join(parts) + ")"
        self.w("def pFilter (s : String) : Option (Option GFilterNode) :=")
        self.w('  if s == "nil" then some none')
        for nm, tr in named.items():
            self.w(f'  else if s == "{nm}" then some (some {node(tr)})')
        self.w("  else none")
        self.w()

    def emit_op(self, key):
        op = self.f["ops"][key]
        ot = op["options_type"]
        oname = self.lean_struct_name(ot)
        K = key.capitalize()
        msgt = "controlpb." + op["msg_type"]
        settable = self.settable(ot)
        self.w(f"/-! ## {key}: Node.{op['node_method']} / {op['pub_func']} / handleControl -/")
        self.w(f"-- option record fields no public With* option of Node.{op['node_method']} sets (left at zero, not modelled): "
               + ", ".join(self.f["unsettable"].get(ot) or ["<none>"]))
        self.emit_struct(ot, only=settable)
        priv = self.private_fields(ot)
        self.w(f"/-- The option record as Client.{op['node_method']} sees it: the unexported fields "
               f"({', '.join(priv)}) are read by Node.{op['node_method']} only. -/")
        resets = ", ".join(f"{p} := {self.default(self.lt(self.field_type(ot, p)))}" for p in priv)
        self.w(f"@[simp] def {oname}.clientView (o : {oname}) : {oname} := {{ o with {resets} }}")
        self.w()
        for oc in self.f["options"][ot]:
            ps = " ".join(f"({p['name']} : {self.lt(p['type'])})" for p in oc["params"])
            env = {p["name"]: (p["name"], p["type"]) for p in oc["params"]}
            sets = ", ".join(f"{s['name']} := {self.render(s['x'], env)[0]}" for s in oc["sets"])
            self.w(f"@[simp] def {oc['name']} {ps} (opts : {oname}) : {oname} := {{ opts with {sets} }}")
        self.w()
        # hub call record
        methods = [m for m in [op["local"].get("then"), op["local"]["else"], op["remote"].get("then"), op["remote"]["else"]] if m]
        cfields = []
        for m in methods:
            for prm in self.f["hub"][m["method"]]:
                if prm["name"] not in [c[0] for c in cfields]:
                    cfields.append((prm["name"], prm["type"]))
                elif dict(cfields)[prm["name"]] != prm["type"]:
                    raise GenError(f"hub methods of {key} disagree on the type of {prm['name']}")
        self.w(f"structure {K}Call where")
        self.w('  method : String := ""')
        for n, t in cfields:
            lty = self.lt(t)
            self.w(f"  {n} : {lty} := {self.default(lty)}")
        self.w("  deriving DecidableEq, Repr, Inhabited")
        self.w()
        has_opts = any(t.startswith("...") for _, t in cfields)
        optsf = [n for n, t in cfields if t.startswith("...")]
        if has_opts:
            self.w(f"@[simp] def {K}Call.view (c : {K}Call) : {K}Call := {{ c with {optsf[0]} := c.{optsf[0]}.clientView }}")
        else:
            self.w(f"@[simp] def {K}Call.view (c : {K}Call) : {K}Call := c")
        self.w()
        nparams = " ".join(f"({p['name']} : {self.lt(p['type'])})" for p in op["node_params"])
        nargs = " ".join(p["name"] for p in op["node_params"])
        env = {p["name"]: (p["name"], p["type"]) for p in op["node_params"]}
        env["o"] = ("o", ot)
        msg_txt, _ = self.render(dict(op["msg"], ptr=False), env)
        self.w(f"/-- the control message {op['pub_func']} builds -/")
        self.w(f"def encode{K} {nparams} (o : {oname}) : {self.lean_struct_name(msgt)} :=")
        self.w(f"  {msg_txt}")
        self.w()

        def call_txt(hc, env):
            prms = self.f["hub"][hc["method"]]
            parts = [f'method := "{hc["method"]}"']
            for prm, a in zip(prms, hc["args"]):
                if a.get("k") == "nil":     # Go nil for a slice / pointer parameter
                    parts.append(f"{prm['name']} := {self.default(self.lt(prm['type']))}")
                else:
                    parts.append(f"{prm['name']} := {self.render(a, env)[0]}")
            return "{ " + ", ".join(parts) + " }"

        def dispatch_txt(d, env):
            if d.get("then"):
                c, _ = self.render(d["cond"], env)
                return f"if {c} then {call_txt(d['then'], env)} else {call_txt(d['else'], env)}"
            return call_txt(d["else"], env)
        self.w(f"/-- the hub call Node.{op['node_method']} makes on the calling node -/")
        self.w(f"def local{K} {nparams} (o : {oname}) : {K}Call :=")
        self.w(f"  {dispatch_txt(op['local'], env)}")
        self.w()
        renv = {"c": ("c", msgt)}
        self.w(f"/-- the hub call handleControl makes on a node that receives the message -/")
        self.w(f"def remote{K} (c : {self.lean_struct_name(msgt)}) : {K}Call :=")
        self.w(f"  {dispatch_txt(op['remote'], renv)}")
        self.w()
        self.w(f"def roundtrip{K} {nparams} (o : {oname}) : Bool :=")
        self.w(f"  decide ((remote{K} (encode{K} {nargs} o)).view = (local{K} {nargs} o).view)")
        self.w()
        # differing fields
        self.w(f"def diff{K} (a b : {K}Call) : List String :=")
        parts = ['(if a.method = b.method then [] else ["method"])']
        for n, t in cfields:
            if t.startswith("..."):
                for fn in settable:
                    if fn in priv:
                        continue
                    parts.append(f'(if a.{n}.{fn} = b.{n}.{fn} then [] else ["{n}.{fn}"])')
            else:
                parts.append(f'(if a.{n} = b.{n} then [] else ["{n}"])')
        self.w("  " + " ++\n  ".join(parts))
        self.w()
        # probes: one option at a time, for every value of the string call arguments in {"", "u"}
        argsets = [[]]
        for p in op["node_params"]:
            if p["type"] != "string":
                raise GenError("non-string call parameter")
            argsets = [a + [v] for a in argsets for v in ('""', '"u"')]
        self.w(f"def probes{K} : List (String × Bool) := [")
        rows = []
        for oc in self.f["options"][ot]:
            vals = " ".join(self.sample(p["type"]) for p in oc["params"])
            checks = " && ".join(f"roundtrip{K} {' '.join(a)} ({oc['name']} {vals} {{}})" for a in argsets)
            rows.append(f'  ("{oc["name"]}", {checks})')
        allopts = "{}"
        for oc in self.f["options"][ot]:
            vals = " ".join(self.sample(p["type"]) for p in oc["params"])
            allopts = f"({oc['name']} {vals} {allopts})"
        checks = " && ".join(f"roundtrip{K} {' '.join(a)} {{}}" for a in argsets)
        rows.append(f'  ("<defaults>", {checks})')
        self.w(",\n".join(rows) + "]")
        self.w()
        # line interface
        self.w(f"def apply{K}Opt (o : {oname}) (name val : String) : Option {oname} :=")
        first = True
        for oc in self.f["options"][ot]:
            kw = "if" if first else "else if"
            first = False
            if len(oc["params"]) != 1:
                raise GenError(f"{oc['name']}: line interface supports one-parameter options only")
            self.w(f'  {kw} name == "{oc["name"]}" then ({self.parser_for(oc["params"][0]["type"])} val).map (fun v => {oc["name"]} v o)')
        self.w("  else none" if not first else "  none")
        self.w()
        self.w(f"def line{K} (args : List String) (kvs : List (String × String)) : String :=")
        self.w(f"  match args with")
        pat = ", ".join(f"a{i}" for i in range(len(op["node_params"])))
        self.w(f"  | [{pat}] =>")
        self.w(f"    match kvs.foldl (fun acc kv => acc.bind (fun o => apply{K}Opt o kv.1 kv.2)) (some ({{}} : {oname})) with")
        self.w('    | none => "bad-op"')
        self.w("    | some o =>")
        aa = " ".join(f"a{i}" for i in range(len(op["node_params"])))
        self.w(f"      let d := diff{K} (remote{K} (encode{K} {aa} o)).view (local{K} {aa} o).view")
        self.w(f'      if roundtrip{K} {aa} o then "eq" else "diff " ++ joinWith "," d')
        self.w('  | _ => "bad-op"')
        self.w()

    def generate(self, named_filters):
        f = self.f
        self.w("/-")
        self.w("GENERATED by /verif/props/C27/gen.py from the Go source tree — do not edit; regenerated on every check run.")
        self.w("Source of every definition: node.go (Node.Subscribe/Unsubscribe/Disconnect/Refresh, pubXxx, handleControl,")
        self.w("controlpbFilterFromProto/protoFilterFromControlpb), options.go, hub.go signatures, internal/controlpb/control.pb.go.")
        self.w("-/")
        self.w("import CentrifugeVerif.DriverLib")
        self.w("namespace CentrifugeVerif.Gen.ControlCodec")
        self.w("open CentrifugeVerif.DriverLib")
        self.w()
        for t in ["StreamPosition", "Unsubscribe", "Disconnect", "controlpb.StreamPosition"]:
            self.emit_struct(t)
        self.emit_filter("FilterNode")
        self.emit_filter("controlpb.FilterNode")
        for key in OPS:
            self.emit_struct("controlpb." + f["ops"][key]["msg_type"])
        for c in f["filter_convs"]:
            self.emit_filter_conv(c)
        for name, val in sorted(f["consts"].items()):
            txt, ty = self.render(val, {})
            self.w(f"def {name} : {self.lt(ty)} := {txt}")
        self.w()
        self.emit_sample_filter()
        # value parsers for the line interface
        self.w('def pBool (s : String) : Option Bool := if s == "1" then some true else if s == "0" then some false else none')
        self.w("def pInt (s : String) : Option Int := s.toInt?")
        self.w("def pU8 (s : String) : Option UInt8 := s.toNat?.bind (fun n => if n < 256 then some (UInt8.ofNat n) else none)")
        self.w("def pU32 (s : String) : Option UInt32 := s.toNat?.bind (fun n => if n < 4294967296 then some (UInt32.ofNat n) else none)")
        self.w("def pBytes (s : String) : Option (List UInt8) := unhex s")
        self.w("def pStr (s : String) : Option String := (unhex s).map (fun bs => String.ofList (bs.map (fun b => Char.ofNat b.toNat)))")
        self.w('def pStrList (s : String) : Option (List String) := if s == "-" then some [] else (s.splitOn ",").mapM pStr')
        self.w("def pSP (s : String) : Option (Option GStreamPosition) :=")
        self.w('  if s == "nil" then some none else match s.splitOn ":" with')
        self.w("  | [a, b] => match a.toNat?, pStr b with")
        sp = self.fields("StreamPosition")
        if [x["name"] for x in sp] != ["Offset", "Epoch"]:
            raise GenError("StreamPosition layout changed")
        self.w("    | some n, some e => some (some { Offset := n, Epoch := e })")
        self.w("    | _, _ => none")
        self.w("  | _ => none")
        for nm, st in (("pUnsub", "Unsubscribe"), ("pDisc", "Disconnect")):
            if [x["name"] for x in self.fields(st)] != ["Code", "Reason"]:
                raise GenError(f"{st} layout changed")
            self.w(f"def {nm} (s : String) : Option {self.lean_struct_name(st)} := match s.splitOn \":\" with")
            self.w("  | [a, b] => match pU32 a, pStr b with")
            self.w("    | some n, some r => some { Code := n, Reason := r }")
            self.w("    | _, _ => none")
            self.w("  | _ => none")
        self.emit_named_filters(named_filters)
        for key in OPS:
            self.emit_op(key)
        self.w("def probes : List (String × String × Bool) :=")
        self.w("  " + " ++\n  ".join(f'(probes{k.capitalize()}.map fun p => ("{k}", p.1, p.2))' for k in OPS))
        self.w()
        self.w("def roundtripLine (op : String) (args : List String) (kvs : List (String × String)) : String :=")
        first = True
        for k in OPS:
            self.w(f'  {"if" if first else "else if"} op == "{k}" then line{k.capitalize()} args kvs')
            first = False
        self.w('  else "bad-op"')
        self.w()
        self.w("end CentrifugeVerif.Gen.ControlCodec")
        return "\n".join(self.out) + "\n"


NAMED_FILTERS = {
    "F1": {"Op": "", "Key": "region", "Cmp": "eq", "Val": "eu"},
    "F2": {"Op": "", "Key": "tier", "Cmp": "in", "Vals": ["pro", "free"]},
    "F3": {"Op": "and", "Nodes": [{"Op": "", "Key": "region", "Cmp": "eq", "Val": "eu"},
                                  {"Op": "not", "Nodes": [{"Op": "", "Key": "tier", "Cmp": "eq", "Val": "free"}]}]},
    "F4": {"Op": "", "Key": "region", "Cmp": "ex"},
    "F5": {"Op": "", "Key": "region", "Cmp": "bogus", "Val": "x"},   # rejected by filter.Validate
}


def render(facts):
    """-> Lean text; contains `genStamp`, a hash of the rest of the text, echoed by the drivers so that a check can
    tell that the driver binary it runs was built from this very file."""
    import hashlib
    txt = Gen(facts).generate(NAMED_FILTERS)
    st = hashlib.sha1(txt.encode()).hexdigest()[:12]
    return txt.replace("end CentrifugeVerif.Gen.ControlCodec\n", f'def genStamp : String := "{st}"\n\nend CentrifugeVerif.Gen.ControlCodec\n')


def stamp_of(text):
    import re
    m = re.search(r'def genStamp : String := "([0-9a-f]+)"', text)
    return m.group(1) if m else None


if __name__ == "__main__":
    import sys
    sys.path.insert(0, os.path.dirname(os.path.dirname(HERE)))
    from vlib.core import go_env, REPO
    facts = extract(REPO, go_env())
    sys.stdout.write(render(facts))
