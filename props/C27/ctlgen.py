"""Scenario / call generators and observation helpers shared by the C27 and C28 checks."""
import json

BASE = 946684800  # synctest bubbles start at 2000-01-01T00:00:00Z


def hx(s):
    if isinstance(s, str):
        s = s.encode()
    return s.hex() or "-"


def unhx(s):
    return "" if s in ("-", "") else bytes.fromhex(s).decode()


USERS = ["u1", "u1", "u2", ""]
CHANS = ["chA", "chB", "chH"]
LABELSETS = [{}, {"region": "eu"}, {"region": "us"}, {"region": "eu", "tier": "pro"}, {"region": "eu", "tier": "free"},
             {"tier": "pro"}]
JSONS = [b"", b'{"a":1}', b'"s"', b'[1,2]']


def gen_scenario(rng, min_conns=2, max_conns=6, hist=True):
    """-> (lines, scenario dict)"""
    conns = []
    n = rng.randint(min_conns, max_conns)
    for i in range(n):
        uni = rng.random() < 0.5
        conns.append({"id": f"c{i + 1}", "node": rng.choice("AB"), "user": rng.choice(USERS), "uni": uni,
                      "session": f"s{i + 1}" if uni else "", "labels": dict(rng.choice(LABELSETS)), "subs": {}})
    lines = ["reset"]
    for c in conns:
        lb = ",".join(f"{k}:{v}" for k, v in sorted(c["labels"].items())) or "-"
        lines.append(f"conn id={c['id']} node={c['node']} user={hx(c['user'])} uni={int(c['uni'])} "
                     f"session={hx(c['session'])} labels={lb}")
    hist_n = rng.choice([0, 1, 3]) if hist else 0
    if hist_n:
        lines.append(f"hist ch={hx('chH')} n={hist_n}")
    for c in conns:
        for ch in CHANS:
            if rng.random() < 0.45:
                fl = {"P": rng.random() < 0.4, "J": rng.random() < 0.4, "L": rng.random() < 0.2,
                      "O": ch == "chH" and rng.random() < 0.5}
                side = "client" if (not c["uni"] and rng.random() < 0.4) else "server"
                opts = []
                if fl["P"]:
                    opts.append("WithEmitPresence:1")
                if fl["J"]:
                    opts.append("WithEmitJoinLeave:1")
                if fl["L"]:
                    opts.append("WithPushJoinLeave:1")
                if fl["O"]:
                    opts.append("WithPositioning:1")
                c["subs"][ch] = dict(fl, side=side)
                lines.append(f"presub id={c['id']} ch={hx(ch)} side={side} opts={';'.join(opts) or '-'}")
    return lines, {"conns": conns, "hist": hist_n}


def value_for(rng, optname, ptype, sc):
    """A random textual value for option parameter type `ptype` (Go type string)."""
    ids = [c["id"] for c in sc["conns"]]
    sessions = [c["session"] for c in sc["conns"] if c["session"]]
    if ptype == "bool":
        return str(rng.randint(0, 1))
    if ptype == "int64":
        return str(rng.choice([0, BASE + 100, BASE + 3600, BASE - 5, BASE + 1]))
    if ptype == "uint8":
        return str(rng.choice([0, 1, 2, 255]))
    if ptype == "RecoveryMode":
        return str(rng.choice([0, 1, 1]))
    if ptype == "time.Duration":
        return str(rng.choice([0, 10 ** 9, 5 * 10 ** 9, 3600 * 10 ** 9, 5 * 10 ** 8]))
    if ptype == "[]byte":
        return hx(rng.choice(JSONS))
    if ptype == "string":
        if "Session" in optname:
            return hx(rng.choice(sessions + ["nope", ""]))
        if "Client" in optname:
            return hx(rng.choice(ids + ["nope", ""]))
        return hx(rng.choice(["x", ""]))
    if ptype == "*StreamPosition":
        r = rng.random()
        if r < 0.2:
            return "nil"
        return f"{rng.randint(0, 4)}:{rng.choice([hx('@'), hx('@'), hx('zz'), '-'])}"
    if ptype == "*FilterNode":
        return rng.choice(["nil", "F1", "F2", "F3", "F4", "F1", "F3", "F5"])
    if ptype == "Unsubscribe":
        return f"{rng.choice([2500, 0, 2000, 4294967295])}:{hx(rng.choice(['bye', '', 'custom reason']))}"
    if ptype == "Disconnect":
        return f"{rng.choice([4000, 3000, 3503, 0, 4294967295])}:{hx(rng.choice(['bye', '', 'custom reason']))}"
    if ptype == "[]string":
        k = rng.randint(0, min(3, len(ids)))
        sel = rng.sample(ids, k)
        return ",".join(hx(x) for x in sel) or "-"
    raise ValueError(f"no value generator for parameter type {ptype} of {optname}")


def gen_call(rng, facts, sc, op=None, p_opt=0.3):
    op = op or rng.choice(["subscribe", "subscribe", "unsubscribe", "disconnect", "refresh"])
    of = facts["ops"][op]
    ctors = facts["options"][of["options_type"]]
    user = rng.choice(["u1", "u1", "u1", "u2", "u2", "", "", "", "nobody"])
    if rng.random() < 0.75:     # mostly a user that has connections in this scenario
        user = rng.choice([c["user"] for c in sc["conns"]])
    opts = []
    for oc in ctors:
        # options that narrow the set of addressed connections are drawn less often, otherwise most calls address nobody
        narrowing = any(k in oc["name"] for k in ("Client", "Session", "LabelFilter", "Whitelist"))
        if rng.random() < (p_opt * 0.4 if narrowing else p_opt):
            if len(oc["params"]) != 1:
                raise ValueError(f"{oc['name']}: option with {len(oc['params'])} parameters")
            opts.append(f"{oc['name']}:{value_for(rng, oc['name'], oc['params'][0]['type'], sc)}")
    rng.shuffle(opts)
    parts = [f"call op={op} user={hx(user)}"]
    if op in ("subscribe", "unsubscribe"):
        if op == "subscribe":
            ch = rng.choice(["chN", "chH", "chH", "chA", ""] if rng.random() < 0.9 else [""])
        else:
            ch = rng.choice(["chA", "chB", "chH", "chN", ""])
        parts.append(f"ch={hx(ch)}")
    parts.append("opts=" + (";".join(opts) or "-"))
    return " ".join(parts)


def parse_call(line):
    kv = {}
    for w in line.split()[1:]:
        k, _, v = w.partition("=")
        kv[k] = v
    opts = []
    if kv.get("opts", "-") not in ("-", ""):
        for it in kv["opts"].split(";"):
            n, _, v = it.partition(":")
            opts.append((n, v))
    return kv, opts


def fmt_call(kv, opts):
    parts = [f"call op={kv['op']} user={kv['user']}"]
    if "ch" in kv:
        parts.append(f"ch={kv['ch']}")
    parts.append("opts=" + (";".join(f"{n}:{v}" for n, v in opts) or "-"))
    return " ".join(parts)


def is_join_leave(w):
    try:
        d = json.loads(w)
    except Exception:
        return False
    d = d.get("push", d)
    return isinstance(d, dict) and ("join" in d or "leave" in d)


def strip_obs(o):
    """Observation used for the local/remote comparison.  Not compared: the error returned to the caller
    (a remote node cannot report one) and join/leave pushes delivered to a connection that is itself a
    target of the same call (whether it still/already receives another target's join/leave depends on
    goroutine scheduling, on one node as much as across nodes; the join/leave *publications* are compared
    through `backend`)."""
    out = {k: v for k, v in o.items() if k not in ("call_err", "remote_err", "conns")}
    conns = []
    for c in (o.get("conns") or []):
        c = dict(c)
        rest = [w for w in (c.get("writes") or []) if not is_join_leave(w)]
        if rest or c.get("events") or c.get("closed"):
            c["writes"] = rest
        conns.append(c)
    out["conns"] = conns
    return out


def affected(o):
    return any(c.get("writes") or c.get("events") or c.get("closed") for c in (o.get("conns") or []))


def split_blocks(ops):
    """Split an op list into scenario blocks starting with `reset`."""
    blocks, cur = [], []
    for l in ops:
        if l.startswith("reset") and cur:
            blocks.append(cur)
            cur = []
        cur.append(l)
    if cur:
        blocks.append(cur)
    return blocks


def load(line):
    try:
        return json.loads(line)
    except Exception:
        return None


def go_run_parallel(ctx, binary, test, ops, nproc=3, timeout=3000):
    """Like ctx.go_run, but the op list is cut at `reset` lines into nproc chunks that run as concurrent
    harness processes (scenarios are independent).  Returns the concatenated output lines."""
    import os
    import subprocess
    from concurrent.futures import ThreadPoolExecutor
    from vlib.core import go_env
    blocks = split_blocks(ops)
    if len(blocks) < 2 * nproc:
        return ctx.go_run(binary, test, ops, timeout=timeout)
    total = sum(len(b) for b in blocks)
    chunks, cur, acc = [], [], 0
    for b in blocks:
        cur.append(b)
        acc += len(b)
        if acc >= total / nproc and len(chunks) < nproc - 1:
            chunks.append(cur)
            cur, acc = [], 0
    if cur:
        chunks.append(cur)

    def one(k):
        lines = [l for b in chunks[k] for l in b]
        opsf = os.path.join(ctx.tmp, f"pops{k}.txt")
        outf = os.path.join(ctx.tmp, f"pout{k}.txt")
        open(opsf, "w").write("\n".join(lines) + "\n")
        if os.path.exists(outf):
            os.remove(outf)
        e = go_env()
        e.update({"VERIF_OPS": opsf, "VERIF_OUT": outf, "VERIF_SEED": str(ctx.seed), "VERIF_TIER": ctx.tier})
        e.setdefault("GOMEMLIMIT", "6GiB")
        crash = None
        try:
            p = subprocess.run([binary, "-test.run", f"^{test}$", "-test.count=1", f"-test.timeout={timeout}s"],
                               stdout=subprocess.PIPE, stderr=subprocess.STDOUT, text=True, env=e, timeout=timeout + 30,
                               cwd=ctx.tmp)
            if p.returncode != 0:
                crash = p.stdout[-3000:]
        except subprocess.TimeoutExpired:
            crash = "timeout"
        res = open(outf).read().splitlines() if os.path.exists(outf) else []
        res += ["<missing>"] * (len(lines) - len(res))
        return res, crash
    with ThreadPoolExecutor(max_workers=nproc) as ex:
        results = list(ex.map(one, range(len(chunks))))
    out = []
    ctx.last_go_crash = None
    for res, crash in results:
        out += res
        if crash:
            ctx.last_go_crash = crash
    return out
