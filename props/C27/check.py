"""C27 — server-side operations act the same from any node.

Proof  : lean/CentrifugeVerif/Props/C27.lean over the *regenerated* Gen/ControlCodec.lean
         (props/C27/extract = Go go/ast extractor, props/C27/gen.py = renderer).
Tie T1 : the codec is re-extracted from the current source on every run; a dropped / swapped field makes the
         theorems fail to check; the executable probes (one option at a time) name the field.
Tie T2 : props/C27/harness — two-node in-process cluster; every call is made once from the node that holds the
         connection (local path) and once from the other node (control message path) on identical fresh
         scenarios; oracle = the observable state of every connection is the same.
"""
import json
import os
import sys

HERE = os.path.dirname(os.path.abspath(__file__))
sys.path.insert(0, HERE)
import gen as cgen  # noqa: E402
import ctlgen as G  # noqa: E402
from vlib.core import go_env, REPO  # noqa: E402

HARNESS = ["props/C27/harness/zz_verif_c27_test.go"]
TEST = "TestVerifC27"


def regen(ctx):
    facts = cgen.extract(REPO, go_env())
    text = cgen.render(facts)
    ctx.write_gen("ControlCodec.lean", text)
    ctx.gen_stamp = cgen.stamp_of(text)
    return facts


# ------------------------------------------------------------------------------------------------ sweep
SWEEP_SCENARIO = [
    "reset",
    f"conn id=c1 node=B user={G.hx('u1')} uni=0 session=- labels=region:eu,tier:pro",
    f"conn id=c2 node=B user={G.hx('u1')} uni=1 session={G.hx('s2')} labels=region:us",
    f"conn id=c3 node=A user={G.hx('u1')} uni=1 session={G.hx('s3')} labels=region:eu,tier:free",
    f"conn id=c4 node=B user=- uni=0 session=- labels=-",
    f"conn id=c5 node=B user=- uni=1 session={G.hx('s5')} labels=region:eu",
    f"conn id=c6 node=A user={G.hx('u2')} uni=0 session=- labels=tier:pro",
    f"hist ch={G.hx('chH')} n=3",
    f"presub id=c1 ch={G.hx('chA')} side=server opts=WithEmitPresence:1;WithEmitJoinLeave:1",
    f"presub id=c1 ch={G.hx('chB')} side=client opts=WithPushJoinLeave:1",
    f"presub id=c2 ch={G.hx('chA')} side=server opts=WithPushJoinLeave:1",
    f"presub id=c3 ch={G.hx('chA')} side=server opts=WithEmitPresence:1",
    f"presub id=c4 ch={G.hx('chA')} side=client opts=WithEmitJoinLeave:1",
    f"presub id=c5 ch={G.hx('chB')} side=server opts=-",
]
SWEEP_SCENARIO_DICT = {"conns": [{"id": f"c{i}", "session": s} for i, s in
                                 ((1, ""), (2, "s2"), (3, "s3"), (4, ""), (5, "s5"), (6, ""))]}

SWEEP_VALUES = {
    "bool": ["1"], "int64": [str(G.BASE + 100), str(G.BASE - 5)], "uint8": ["1", "255"], "RecoveryMode": ["1"],
    "time.Duration": [str(5 * 10 ** 9), str(3600 * 10 ** 9)], "[]byte": [G.hx(b'{"a":1}')],
    "*StreamPosition": [f"1:{G.hx('zz')}", f"1:{G.hx('@')}", f"3:{G.hx('@')}"],
    "*FilterNode": ["F1", "F3", "F2", "F5"], "Unsubscribe": [f"2500:{G.hx('bye')}", "0:-"],
    "Disconnect": [f"4000:{G.hx('bye')}", "3000:-"], "[]string": [G.hx("c1"), f"{G.hx('c2')},{G.hx('c3')}"],
}
# options that only act together with others (kept minimal; found by reading subscribeCmd)
ENABLERS = {
    "WithRecoveryMode": [[("WithRecovery", "1"), ("WithRecoverSince", f"1:{G.hx('zz')}")],
                         [("WithRecovery", "1"), ("WithAutoCacheRecover", "1")]],
    "WithAutoCacheRecover": [[("WithRecovery", "1"), ("WithRecoveryMode", "1")]],
    "WithRecoverSince": [[("WithRecovery", "1")]],
}


def sweep_ops(facts):
    """One option at a time (plus its enablers) on a rich fixed scenario, for both a named user and the
    anonymous / all-users addressing."""
    ops = list(SWEEP_SCENARIO)
    for op in cgen.OPS:
        of = facts["ops"][op]
        for oc in facts["options"][of["options_type"]]:
            pt = oc["params"][0]["type"]
            if pt == "string":
                vals = [G.hx("s2"), G.hx("s5")] if "Session" in oc["name"] else [G.hx("c1"), G.hx("c3"), G.hx("c4")]
            else:
                if pt not in SWEEP_VALUES:
                    raise cgen.GenError(f"no sweep value for parameter type {pt} of {oc['name']}")
                vals = SWEEP_VALUES[pt]
            for v in vals:
                for extra in [[]] + ENABLERS.get(oc["name"], []):
                    for user, more in (("u1", []), ("", [("ALLUSERS", "1")])):
                        opts = [(oc["name"], v)] + extra
                        for n, val in more:
                            au = [c["name"] for c in facts["options"][of["options_type"]] if c["name"].endswith("AllUsers")]
                            if au and au[0] != oc["name"]:
                                opts.append((au[0], val))
                        kv = {"op": op, "user": G.hx(user)}
                        if op == "subscribe":
                            kv["ch"] = G.hx("chH")
                        elif op == "unsubscribe":
                            kv["ch"] = G.hx("chA")
                        ops.append(G.fmt_call(kv, opts))
    return ops


# ------------------------------------------------------------------------------------------------ oracle
def oracle(out):
    """The property on the implementation's output: same observable effect locally and remotely."""
    d = G.load(out)
    if d is None:
        return "unparseable harness output: " + out[:80], None
    l, r = d.get("L", {}), d.get("R", {})
    if l.get("error") or r.get("error"):
        return "harness-error", d
    if G.strip_obs(l) != G.strip_obs(r):
        return "effect on connections differs between the local and the remote call", d
    return None, d


def describe_diff(d):
    out = []
    for a, b in zip(d["L"].get("conns") or [], d["R"].get("conns") or []):
        if a != b:
            out.append({"conn": a.get("id"), "local_path": a if a["node"] == "B" else b,
                        "remote_path": b if a["node"] == "B" else a})
    if d["L"].get("backend") != d["R"].get("backend"):
        out.append({"backend_L": d["L"].get("backend"), "backend_R": d["R"].get("backend")})
    return out[:3]


def run_block(ctx, binary, setup, call):
    res = ctx.go_run(binary, TEST, setup + [call])
    return res[-1] if len(res) == len(setup) + 1 else "<missing>"


def run_blocks(ctx, binary, blocks):
    """blocks: list of (setup, call); one harness process for all of them; -> list of output lines."""
    ops, idx = [], []
    for setup, call in blocks:
        ops += setup + [call]
        idx.append(len(ops) - 1)
    res = ctx.go_run(binary, TEST, ops)
    return [res[k] if k < len(res) else "<missing>" for k in idx]


def shrink(ctx, binary, setup, call, stop_after_options=None):
    """Greedy: drop options, then connections / scenario lines, while the local/remote difference persists.
    All candidates of a round run in one harness process."""
    kv, opts = G.parse_call(call)

    def failing(cands):
        outs = run_blocks(ctx, binary, [(s, G.fmt_call(kv, o)) for s, o in cands])
        res = []
        for o in outs:
            msg, _ = oracle(o)
            res.append(msg is not None and msg != "harness-error")
        return res
    for _ in range(12):
        cands = [(setup, opts[:i] + opts[i + 1:]) for i in range(len(opts))]
        if not cands:
            break
        fl = failing(cands)
        if not any(fl):
            break
        opts = cands[fl.index(True)][1]
    if stop_after_options is not None and stop_after_options(opts):
        return setup, G.fmt_call(kv, opts), opts      # the signature is already that of a known finding
    for _ in range(12):
        cands = []
        for i in range(len(setup) - 1, 0, -1):
            if setup[i].startswith("conn"):
                cid = [w for w in setup[i].split() if w.startswith("id=")][0]
                cands.append(([l for j, l in enumerate(setup) if j != i and not (l.startswith("presub") and cid in l.split())], opts))
            else:
                cands.append((setup[:i] + setup[i + 1:], opts))
        if not cands:
            break
        fl = failing(cands)
        if not any(fl):
            break
        setup = cands[fl.index(True)][0]
    return setup, G.fmt_call(kv, opts), opts


def run(ctx):
    ctx.rule = ("scenario = 2..6 connections on two nodes (users u1/u2/anonymous, uni/bidirectional, sessions, labels, "
                "pre-subscriptions with presence/join-leave/positioning, channel with history); call = one of the four "
                "Node operations with a random subset of ALL extracted With* options and boundary values, made once on "
                "the node holding the connection and once on the other node; plus a sweep with one option at a time. "
                "non-trivial = at least one connection was visibly affected; distinct = distinct (scenario, call)")
    ctx.assumptions = [
        "protobuf encoding of controlpb messages is the identity on field values (exercised by the harness, not modelled)",
        "the client never reads the unexported targeting fields of the option records (checked syntactically by the extractor)",
        "nil and empty []byte / []string are not distinguished",
        "given the same hub call the hub/client code behaves the same on every node (sampled by the harness)"]
    ctx.trusted_base = ["Lean 4.33.0 kernel", "axioms: propext, Classical.choice, Quot.sound",
                        "props/C27/extract (go/ast extractor, fails on unknown syntax) + props/C27/gen.py (renderer)",
                        "two-node harness + canonicalisation (props/C27/harness, vlib)"]
    # ---- T1: regenerate the model
    try:
        facts = regen(ctx)
    except cgen.GenError as e:
        ctx.obligation_errors.append({"stage": "lake build", "modules": ["Gen.ControlCodec"], "log": str(e)})
        ctx.violation("proof", "the control-codec extractor no longer understands the source: " + str(e)[:300],
                      signature={"kind": "extractor"}, replay={"log": str(e)}, no_input=True)
        return
    if facts.get("private_reads"):
        ctx.violation("proof", "unexported option fields are read outside node.go/options.go: "
                      + "; ".join(facts["private_reads"][:3]), signature={"kind": "private-reads"},
                      replay={"reads": facts["private_reads"]}, no_input=True)
    proofs_ok = ctx.lean_obligations()
    binary = ctx.go_test_binary(".", HARNESS)
    if binary is None:
        ctx.violation("correspondence", "harness no longer builds against package centrifuge",
                      signature={"kind": "harness-build"}, replay={"log": getattr(ctx, "build_error", "")}, no_input=True)
        return
    # ---- ops
    if ctx.replay:
        ops = json.load(open(ctx.replay)).get("ops", [])
    else:
        corpus = [l.strip() for l in open(os.path.join(HERE, "corpus.ops")) if l.strip() and not l.startswith("#")]
        ops = corpus + sweep_ops(facts)
        ncases = ctx.scale(400, 8000)
        while ncases > 0:
            lines, sc = G.gen_scenario(ctx.rng)
            ops += lines
            k = ctx.rng.randint(3, 8)
            for _ in range(k):
                ops.append(G.gen_call(ctx.rng, facts, sc, p_opt=ctx.rng.choice([0.15, 0.3, 0.5])))
            ncases -= k
    ctx.log(f"harness built; {len(ops)} op lines")
    model = ctx.lean_run(["probes"] + ops)
    ctx.log("driver ran")
    impl = G.go_run_parallel(ctx, binary, TEST, ops, nproc=3)
    if ctx.last_go_crash:
        ctx.notes.append("harness process: " + str(ctx.last_go_crash)[-600:])
    dropped = {}
    if model:
        st = [w for w in model[0].split() if w.startswith("stamp=")]
        if not st or st[0] != "stamp=" + str(getattr(ctx, "gen_stamp", None)):
            raise RuntimeError(f"driver binary is not built from the regenerated codec ({st} vs {getattr(ctx, 'gen_stamp', None)})")
        for w in model[0].split()[2:]:
            k, _, v = w.partition("=")
            o, _, name = k.partition("/")
            if v == "0":
                dropped.setdefault(o, set()).add(name)
        model = model[1:]
    else:
        # the regenerated model / driver does not build: name violations with the options the known findings name,
        # so that a finding that is already known is not reported as a new one
        proofs_ok = False
        model = []
        try:
            for f_ in json.load(open(os.path.join(HERE, "findings.json"))).get("findings", []):
                mt = f_.get("match", {})
                for n in mt.get("option", "").split("+"):
                    if n and not n.startswith("<none>"):
                        dropped.setdefault(mt.get("op", ""), set()).add(n)
        except Exception:
            pass
        ctx.notes.append("driver unavailable: option attribution falls back to props/C27/findings.json")
    ctx.extra["model_dropped_options"] = {k: sorted(v) for k, v in dropped.items()}
    # ---- compare
    ctx.log(f"model+impl ran on {len(ops)} lines")
    cases = []          # (setup, op, out)
    setup = []
    for i, op in enumerate(ops):
        if not op.startswith("call"):
            if op.startswith("reset"):
                setup = []
            setup.append(op)
            continue
        cases.append((list(setup), op, impl[i] if i < len(impl) else "<missing>", model[i] if i < len(model) else "<missing>"))
    # a genuine local/remote difference is deterministic: candidates are re-run three times (one process)
    cand = [k for k, (s_, o_, out, _) in enumerate(cases) if out != "<missing>" and oracle(out)[0] not in (None, "harness-error")]
    confirmed = set(cand)
    if cand:
        again = run_blocks(ctx, binary, [(cases[k][0], cases[k][1]) for k in cand for _ in range(3)])
        for j, k in enumerate(cand):
            if not all(oracle(o)[0] not in (None, "harness-error") for o in again[3 * j:3 * j + 3]):
                confirmed.discard(k)
                ctx.count("impl:nondeterministic-difference")
                ctx.notes.append("nondeterministic difference (not reported): " + cases[k][1])
    ctx.log(f"{len(cand)} differing cases, {len(confirmed)} confirmed deterministic")
    nprop = 0
    shrunk = set()
    herr = 0
    unobs = 0
    for k, (setup, op, out, m) in enumerate(cases):
        kv, opts = G.parse_call(op)
        ctx.count("op:" + kv["op"])
        ctx.count(f"nopts:{min(len(opts), 6)}")
        for n, _ in opts:
            ctx.count("opt:" + n)
        if out == "<missing>":
            ctx.violation("correspondence", "harness produced no output (crash?) " + str(ctx.last_go_crash)[-300:],
                          signature={"kind": "harness-crash"}, replay={"ops": setup + [op]}, no_input=True)
            break
        msg, d = oracle(out)
        if msg == "harness-error":
            herr += 1
            ctx.count("harness-error")
            if herr <= 3:
                ctx.notes.append("harness error: " + json.dumps(d)[:300])
            continue
        if msg and k not in confirmed:
            msg = None
        ctx.record(setup + [op], nontrivial=G.affected(d["L"]) or G.affected(d["R"]))
        ctx.count("affected" if G.affected(d["L"]) else "no-connection-affected")
        ctx.count("model:" + m.split()[0])
        if msg:
            nprop += 1
            ctx.count("impl:differs")
            pre = (kv["op"], tuple(sorted({n for n, _ in opts} & dropped.get(kv["op"], set()))) or tuple(sorted(n for n, _ in opts)))
            if pre not in shrunk and len(shrunk) < 8:
                shrunk.add(pre)
                def is_known(o_):
                    lost_ = sorted({n for n, _ in o_} & dropped.get(kv["op"], set()))
                    return bool(lost_) and ctx._match_known({"op": kv["op"], "option": "+".join(lost_)}) is not None
                s2, c2, o2 = shrink(ctx, binary, list(setup), op, stop_after_options=is_known)
                ctx.log(f"shrunk {pre} -> {c2.split('opts=')[1]}")
                lost = sorted({n for n, _ in o2} & dropped.get(kv["op"], set()))
                sig = {"op": kv["op"], "option": "+".join(lost) if lost else "<none>:" + "+".join(sorted(n for n, _ in o2))}
                o3 = run_block(ctx, binary, s2, c2)
                _, d3 = oracle(o3)
                ctx.violation("property", f"Node.{kv['op'].capitalize()} acts differently on a remote connection: {msg}",
                              signature=sig, replay={"ops": s2 + [c2], "difference": describe_diff(d3) if d3 else None,
                                                     "model": m, "original_ops": setup + [op]})
        else:
            ctx.count("impl:same")
            if m.startswith("diff"):
                unobs += 1
        if m not in ("eq",) and not m.startswith("diff") and model:
            ctx.violation("correspondence", f"driver could not interpret the call: {m}", signature={"kind": "driver", "out": m},
                          replay={"ops": setup + [op]}, no_input=True)
    ctx.traces_validated = ctx.evaluations
    ctx.extra["model_diff_but_unobservable"] = unobs
    if herr > max(5, ctx.evaluations // 10):
        raise RuntimeError(f"too many harness errors ({herr})")
    # ---- every option the regenerated model says is lost must be a known finding that still reproduces
    known_ids = {k.get("id") for k in ctx.known_hits}
    ctx.extra["known_reproduced"] = sorted(x for x in known_ids if x)
    if not proofs_ok and not ctx.violations:
        ctx.proof_broken({"model_dropped_options": ctx.extra["model_dropped_options"],
                          "note": "no local/remote difference found on the implementation for options not already known"})
