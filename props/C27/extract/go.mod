module verif/c27extract

go 1.23
