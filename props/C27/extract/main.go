// Command c27extract reads the centrifuge source tree (argument 1 or $VERIF_REPO or /repo) with
// go/parser + go/ast only and prints, as JSON on stdout, the facts the C27/C28 model is generated from:
//
//   - the option records (SubscribeOptions, UnsubscribeOptions, DisconnectOptions, RefreshOptions), and for
//     every public With* constructor of the matching option type which record fields it assigns from
//     which parameter;
//   - for Node.Subscribe / Unsubscribe / Disconnect / Refresh: a symbolic execution of the method body
//     giving (1) the controlpb message built by pubXxx as expressions over the option record and the call
//     arguments and (2) the hub call made on the local node (method + argument expressions);
//   - for the matching branch of Node.handleControl: the hub call made on a remote node as expressions
//     over the decoded control message, including the list of With* options it rebuilds;
//   - struct layouts (option records, controlpb messages, StreamPosition, Unsubscribe, Disconnect),
//     the two FilterNode conversion functions, hub method signatures, and referenced constants.
//
// The program understands exactly the statement / expression shapes that occur in those functions at
// the pinned commit plus obvious variations; anything else makes it exit non-zero with the position
// of the construct it does not understand ("fail loudly"), so the model can never silently drift.
package main

import (
	"encoding/json"
	"fmt"
	"go/ast"
	"go/parser"
	"go/token"
	"go/types"
	"os"
	"os/exec"
	"path/filepath"
	"sort"
	"strconv"
	"strings"
)

// ---------------------------------------------------------------------------------- IR

// Expr is a tiny expression language.
//
//	in      Name                 a symbolic input (o = option record, c = control message, call args)
//	node    Name                 a field of the Node (n.uid)
//	sel     X . Name
//	conv    Type ( X )           numeric conversion
//	call    Name ( Args )        one of the two filter conversion functions
//	lit     Type { Fields }      composite literal; Ptr when written &T{...}
//	nil / str(Str) / int(Str) / bool(Str) / const(Name)
//	ifnn    X != nil ? Y : Z     value of a variable assigned under `if X != nil`
//	deref X / addr X
//	and X Y / eq X Y / neq X Y
//	rawopts                      the caller's own variadic option list (local path: `opts...`)
//	optlist Args                 a rebuilt option list; every arg is `opt Name(Args)`
type Expr struct {
	K      string      `json:"k"`
	Name   string      `json:"name,omitempty"`
	Type   string      `json:"type,omitempty"`
	Str    string      `json:"str,omitempty"`
	Ptr    bool        `json:"ptr,omitempty"`
	X      *Expr       `json:"x,omitempty"`
	Y      *Expr       `json:"y,omitempty"`
	Z      *Expr       `json:"z,omitempty"`
	Args   []*Expr     `json:"args,omitempty"`
	Fields []FieldInit `json:"fields,omitempty"`
}

type FieldInit struct {
	Name string `json:"name"`
	X    *Expr  `json:"x"`
}

type Field struct {
	Name string `json:"name"`
	Type string `json:"type"`
}

type OptionCtor struct {
	Name   string      `json:"name"`
	Params []Field     `json:"params"`
	Sets   []FieldInit `json:"sets"`
}

type HubCall struct {
	Method string  `json:"method"`
	Args   []*Expr `json:"args"`
}

type Dispatch struct {
	Cond *Expr    `json:"cond,omitempty"`
	Then *HubCall `json:"then,omitempty"`
	Else *HubCall `json:"else"`
}

type OpFacts struct {
	NodeMethod  string   `json:"node_method"`
	OptionsType string   `json:"options_type"`
	OptionType  string   `json:"option_type"`
	NodeParams  []Field  `json:"node_params"`
	Validates   []*Expr  `json:"validates"`
	PubFunc     string   `json:"pub_func"`
	MsgType     string   `json:"msg_type"`
	Msg         *Expr    `json:"msg"`
	Local       Dispatch `json:"local"`
	Remote      Dispatch `json:"remote"`
}

type FilterConv struct {
	Name    string   `json:"name"`
	From    string   `json:"from"`
	To      string   `json:"to"`
	Copies  []string `json:"copies"`
	Recurse string   `json:"recurse"` // field converted element-wise by a recursive call ("" if none)
}

type Facts struct {
	Repo         string                  `json:"repo"`
	Structs      map[string][]Field      `json:"structs"`
	Options      map[string][]OptionCtor `json:"options"`
	Unsettable   map[string][]string     `json:"unsettable"`
	Ops          map[string]*OpFacts     `json:"ops"`
	Hub          map[string][]Field      `json:"hub"`
	FilterConvs  []FilterConv            `json:"filter_convs"`
	Consts       map[string]*Expr        `json:"consts"`
	NamedTypes   map[string]string       `json:"named_types"`
	PrivateReads []string                `json:"private_reads"`
	DocComments  map[string]string       `json:"doc_comments"`
}

// ---------------------------------------------------------------------------------- helpers

var fset = token.NewFileSet()

func die(pos token.Pos, format string, a ...any) {
	fmt.Fprintf(os.Stderr, "c27extract: %s: %s\n", fset.Position(pos), fmt.Sprintf(format, a...))
	os.Exit(3)
}

func typeStr(e ast.Expr) string { return types.ExprString(e) }

type pkgSrc struct {
	files map[string]*ast.File
	funcs map[string]*ast.FuncDecl // "Recv.Name" or "Name"
	types map[string]*ast.TypeSpec
	vars  map[string]ast.Expr // package-level var/const name -> value expr
	ctype map[string]ast.Expr // const/var explicit type
}

func loadPkg(dir string) *pkgSrc {
	ents, err := os.ReadDir(dir)
	if err != nil {
		fmt.Fprintln(os.Stderr, "c27extract:", err)
		os.Exit(3)
	}
	p := &pkgSrc{files: map[string]*ast.File{}, funcs: map[string]*ast.FuncDecl{}, types: map[string]*ast.TypeSpec{},
		vars: map[string]ast.Expr{}, ctype: map[string]ast.Expr{}}
	for _, e := range ents {
		n := e.Name()
		if e.IsDir() || !strings.HasSuffix(n, ".go") || strings.HasSuffix(n, "_test.go") {
			continue
		}
		f, err := parser.ParseFile(fset, filepath.Join(dir, n), nil, parser.ParseComments)
		if err != nil {
			fmt.Fprintln(os.Stderr, "c27extract:", err)
			os.Exit(3)
		}
		// honour build constraints minimally: skip files with a //go:build line other than plain ones
		skip := false
		for _, cg := range f.Comments {
			if cg.Pos() > f.Package {
				break
			}
			for _, c := range cg.List {
				if strings.HasPrefix(c.Text, "//go:build") {
					skip = true
				}
			}
		}
		if skip {
			continue
		}
		p.files[n] = f
		for _, d := range f.Decls {
			switch d := d.(type) {
			case *ast.FuncDecl:
				key := d.Name.Name
				if d.Recv != nil && len(d.Recv.List) == 1 {
					t := d.Recv.List[0].Type
					if s, ok := t.(*ast.StarExpr); ok {
						t = s.X
					}
					if id, ok := t.(*ast.Ident); ok {
						key = id.Name + "." + key
					}
				}
				p.funcs[key] = d
			case *ast.GenDecl:
				for _, s := range d.Specs {
					switch s := s.(type) {
					case *ast.TypeSpec:
						p.types[s.Name.Name] = s
					case *ast.ValueSpec:
						for i, nm := range s.Names {
							if i < len(s.Values) {
								p.vars[nm.Name] = s.Values[i]
							}
							if s.Type != nil {
								p.ctype[nm.Name] = s.Type
							}
						}
					}
				}
			}
		}
	}
	return p
}

func (p *pkgSrc) structFields(name string, exportedOnly bool) []Field {
	ts, ok := p.types[name]
	if !ok {
		fmt.Fprintf(os.Stderr, "c27extract: type %s not found\n", name)
		os.Exit(3)
	}
	st, ok := ts.Type.(*ast.StructType)
	if !ok {
		die(ts.Pos(), "type %s is not a struct", name)
	}
	var out []Field
	for _, f := range st.Fields.List {
		if len(f.Names) == 0 {
			die(f.Pos(), "embedded field in %s not supported", name)
		}
		for _, n := range f.Names {
			if exportedOnly && !n.IsExported() {
				continue
			}
			out = append(out, Field{n.Name, typeStr(f.Type)})
		}
	}
	return out
}

// ---------------------------------------------------------------------------------- option constructors

func extractOptions(p *pkgSrc, optionType, optionsType string) []OptionCtor {
	var names []string
	for k, fd := range p.funcs {
		if fd.Recv != nil || fd.Type.Results == nil || len(fd.Type.Results.List) != 1 {
			continue
		}
		if typeStr(fd.Type.Results.List[0].Type) == optionType {
			names = append(names, k)
		}
	}
	sort.Slice(names, func(i, j int) bool { return p.funcs[names[i]].Pos() < p.funcs[names[j]].Pos() })
	var out []OptionCtor
	for _, nm := range names {
		fd := p.funcs[nm]
		if !fd.Name.IsExported() {
			die(fd.Pos(), "unexported constructor %s of %s", nm, optionType)
		}
		oc := OptionCtor{Name: nm}
		params := map[string]bool{}
		for _, f := range fd.Type.Params.List {
			if _, ok := f.Type.(*ast.Ellipsis); ok {
				die(f.Pos(), "variadic parameter in %s", nm)
			}
			for _, n := range f.Names {
				oc.Params = append(oc.Params, Field{n.Name, typeStr(f.Type)})
				params[n.Name] = true
			}
		}
		if len(fd.Body.List) != 1 {
			die(fd.Body.Pos(), "%s: body is not a single return", nm)
		}
		rs, ok := fd.Body.List[0].(*ast.ReturnStmt)
		if !ok || len(rs.Results) != 1 {
			die(fd.Body.Pos(), "%s: body is not a single return", nm)
		}
		fl, ok := rs.Results[0].(*ast.FuncLit)
		if !ok || len(fl.Type.Params.List) != 1 || len(fl.Type.Params.List[0].Names) != 1 {
			die(rs.Pos(), "%s: does not return a func literal with one parameter", nm)
		}
		if typeStr(fl.Type.Params.List[0].Type) != "*"+optionsType {
			die(rs.Pos(), "%s: func literal parameter is not *%s", nm, optionsType)
		}
		recv := fl.Type.Params.List[0].Names[0].Name
		for _, st := range fl.Body.List {
			as, ok := st.(*ast.AssignStmt)
			if !ok || as.Tok != token.ASSIGN || len(as.Lhs) != 1 || len(as.Rhs) != 1 {
				die(st.Pos(), "%s: statement is not a plain field assignment", nm)
			}
			sel, ok := as.Lhs[0].(*ast.SelectorExpr)
			if !ok {
				die(st.Pos(), "%s: assignment target is not %s.Field", nm, recv)
			}
			if id, ok := sel.X.(*ast.Ident); !ok || id.Name != recv {
				die(st.Pos(), "%s: assignment target is not %s.Field", nm, recv)
			}
			var x *Expr
			switch r := as.Rhs[0].(type) {
			case *ast.Ident:
				if !params[r.Name] {
					die(r.Pos(), "%s: right-hand side %s is not a parameter", nm, r.Name)
				}
				x = &Expr{K: "in", Name: r.Name}
			case *ast.UnaryExpr:
				id, ok := r.X.(*ast.Ident)
				if r.Op != token.AND || !ok || !params[id.Name] {
					die(r.Pos(), "%s: unsupported right-hand side", nm)
				}
				x = &Expr{K: "addr", X: &Expr{K: "in", Name: id.Name}}
			default:
				die(as.Rhs[0].Pos(), "%s: unsupported right-hand side %T", nm, r)
			}
			oc.Sets = append(oc.Sets, FieldInit{sel.Sel.Name, x})
		}
		out = append(out, oc)
	}
	return out
}

// ---------------------------------------------------------------------------------- symbolic execution

type env struct {
	p       *pkgSrc
	vars    map[string]*Expr
	nodeVar string // receiver name
	consts  map[string]*Expr
	varargs string // name of the variadic option parameter ("" if none)
	optsVar string // local variable holding the option record
}

func (e *env) clone() *env {
	n := *e
	n.vars = map[string]*Expr{}
	for k, v := range e.vars {
		n.vars[k] = v
	}
	return &n
}

var numericConv = map[string]bool{"uint8": true, "uint32": true, "uint64": true, "int64": true, "int32": true, "int": true, "uint16": true}

func (e *env) eval(x ast.Expr) *Expr {
	switch x := x.(type) {
	case *ast.ParenExpr:
		return e.eval(x.X)
	case *ast.BasicLit:
		switch x.Kind {
		case token.STRING:
			s, err := strconv.Unquote(x.Value)
			if err != nil {
				die(x.Pos(), "bad string literal")
			}
			return &Expr{K: "str", Str: s}
		case token.INT:
			return &Expr{K: "int", Str: x.Value}
		}
		die(x.Pos(), "unsupported literal %s", x.Value)
	case *ast.Ident:
		if v, ok := e.vars[x.Name]; ok {
			return v
		}
		switch x.Name {
		case "nil":
			return &Expr{K: "nil"}
		case "true", "false":
			return &Expr{K: "bool", Str: x.Name}
		}
		if x.Name == e.nodeVar {
			return &Expr{K: "nodeself"}
		}
		if _, ok := e.p.vars[x.Name]; ok {
			e.consts[x.Name] = e.constValue(x.Name, x.Pos())
			return &Expr{K: "const", Name: x.Name}
		}
		die(x.Pos(), "unknown identifier %s", x.Name)
	case *ast.SelectorExpr:
		b := e.eval(x.X)
		if b.K == "nodeself" {
			return &Expr{K: "node", Name: x.Sel.Name}
		}
		return sel(b, x.Sel.Name)
	case *ast.StarExpr:
		b := e.eval(x.X)
		if b.K == "in" && b.Name == "o" {
			return b // *subscribeOpts: the record itself
		}
		return &Expr{K: "deref", X: b}
	case *ast.UnaryExpr:
		if x.Op == token.AND {
			if cl, ok := x.X.(*ast.CompositeLit); ok {
				l := e.eval(cl)
				l.Ptr = true
				return l
			}
			return &Expr{K: "addr", X: e.eval(x.X)}
		}
		die(x.Pos(), "unsupported unary operator %s", x.Op)
	case *ast.BinaryExpr:
		switch x.Op {
		case token.LAND:
			return &Expr{K: "and", X: e.eval(x.X), Y: e.eval(x.Y)}
		case token.EQL:
			return &Expr{K: "eq", X: e.eval(x.X), Y: e.eval(x.Y)}
		case token.NEQ:
			return &Expr{K: "neq", X: e.eval(x.X), Y: e.eval(x.Y)}
		}
		die(x.Pos(), "unsupported binary operator %s", x.Op)
	case *ast.CompositeLit:
		t := typeStr(x.Type)
		if at, ok := x.Type.(*ast.ArrayType); ok && at.Len == nil {
			// []XOption{WithA(..), ...}
			out := &Expr{K: "optlist", Type: typeStr(at.Elt)}
			for _, el := range x.Elts {
				ce, ok := el.(*ast.CallExpr)
				if !ok {
					die(el.Pos(), "option list element is not a call")
				}
				id, ok := ce.Fun.(*ast.Ident)
				if !ok {
					die(el.Pos(), "option list element is not a With* call")
				}
				o := &Expr{K: "opt", Name: id.Name}
				for _, a := range ce.Args {
					o.Args = append(o.Args, e.eval(a))
				}
				out.Args = append(out.Args, o)
			}
			return out
		}
		out := &Expr{K: "lit", Type: t}
		for _, el := range x.Elts {
			kv, ok := el.(*ast.KeyValueExpr)
			if !ok {
				die(el.Pos(), "positional composite literal not supported")
			}
			k, ok := kv.Key.(*ast.Ident)
			if !ok {
				die(el.Pos(), "composite literal key is not an identifier")
			}
			out.Fields = append(out.Fields, FieldInit{k.Name, e.eval(kv.Value)})
		}
		return out
	case *ast.CallExpr:
		if id, ok := x.Fun.(*ast.Ident); ok {
			if numericConv[id.Name] && len(x.Args) == 1 {
				return &Expr{K: "conv", Type: id.Name, X: e.eval(x.Args[0])}
			}
			if (id.Name == "controlpbFilterFromProto" || id.Name == "protoFilterFromControlpb") && len(x.Args) == 1 {
				return &Expr{K: "call", Name: id.Name, Args: []*Expr{e.eval(x.Args[0])}}
			}
		}
		die(x.Pos(), "unsupported call %s", typeStr(x.Fun))
	}
	die(x.Pos(), "unsupported expression %T", x)
	return nil
}

func sel(b *Expr, name string) *Expr {
	if b.K == "lit" {
		for _, f := range b.Fields {
			if f.Name == name {
				return f.X
			}
		}
	}
	return &Expr{K: "sel", X: b, Name: name}
}

// constValue resolves a package-level var/const to a literal expression.
func (e *env) constValue(name string, pos token.Pos) *Expr {
	v, ok := e.p.vars[name]
	if !ok {
		die(pos, "constant %s not found", name)
	}
	switch v := v.(type) {
	case *ast.BasicLit:
		if v.Kind == token.INT {
			return &Expr{K: "int", Str: v.Value}
		}
		if v.Kind == token.STRING {
			s, _ := strconv.Unquote(v.Value)
			return &Expr{K: "str", Str: s}
		}
	case *ast.CompositeLit:
		out := &Expr{K: "lit", Type: typeStr(v.Type)}
		for _, el := range v.Elts {
			kv, ok := el.(*ast.KeyValueExpr)
			if !ok {
				die(el.Pos(), "positional literal in constant %s", name)
			}
			var fx *Expr
			switch val := kv.Value.(type) {
			case *ast.BasicLit:
				if val.Kind == token.INT {
					fx = &Expr{K: "int", Str: val.Value}
				} else if val.Kind == token.STRING {
					s, _ := strconv.Unquote(val.Value)
					fx = &Expr{K: "str", Str: s}
				}
			case *ast.Ident:
				fx = e.constValue(val.Name, val.Pos())
			}
			if fx == nil {
				die(kv.Pos(), "unsupported field value in constant %s", name)
			}
			out.Fields = append(out.Fields, FieldInit{kv.Key.(*ast.Ident).Name, fx})
		}
		return out
	}
	die(v.Pos(), "unsupported constant %s", name)
	return nil
}

func isNilCheck(c ast.Expr) (ast.Expr, bool) {
	b, ok := c.(*ast.BinaryExpr)
	if !ok || b.Op != token.NEQ {
		return nil, false
	}
	if id, ok := b.Y.(*ast.Ident); ok && id.Name == "nil" {
		return b.X, true
	}
	return nil, false
}

// isErrCheck: `if err != nil { return err }`
func isErrReturn(s ast.Stmt) bool {
	is, ok := s.(*ast.IfStmt)
	if !ok || is.Init != nil || is.Else != nil {
		return false
	}
	x, ok := isNilCheck(is.Cond)
	if !ok {
		return false
	}
	id, ok := x.(*ast.Ident)
	if !ok || id.Name != "err" || len(is.Body.List) != 1 {
		return false
	}
	r, ok := is.Body.List[0].(*ast.ReturnStmt)
	if !ok || len(r.Results) != 1 {
		return false
	}
	rid, ok := r.Results[0].(*ast.Ident)
	return ok && rid.Name == "err"
}

// hubCall recognises `n.hub.M(args...)`.
func (e *env) hubCall(x ast.Expr) *HubCall {
	ce, ok := x.(*ast.CallExpr)
	if !ok {
		return nil
	}
	s, ok := ce.Fun.(*ast.SelectorExpr)
	if !ok {
		return nil
	}
	s2, ok := s.X.(*ast.SelectorExpr)
	if !ok || s2.Sel.Name != "hub" {
		return nil
	}
	if id, ok := s2.X.(*ast.Ident); !ok || id.Name != e.nodeVar {
		return nil
	}
	hc := &HubCall{Method: s.Sel.Name}
	for i, a := range ce.Args {
		if ce.Ellipsis.IsValid() && i == len(ce.Args)-1 {
			if id, ok := a.(*ast.Ident); ok && id.Name == e.varargs && e.varargs != "" {
				hc.Args = append(hc.Args, &Expr{K: "rawopts"})
				continue
			}
		}
		hc.Args = append(hc.Args, e.eval(a))
	}
	return hc
}

// assignVar handles `v = rhs` / `lit.Field = rhs` under an optional nil guard.
func (e *env) assign(lhs ast.Expr, rhs *Expr, guard *Expr) {
	wrap := func(old *Expr) *Expr {
		if guard == nil {
			return rhs
		}
		if old == nil {
			old = &Expr{K: "nil"}
		}
		return &Expr{K: "ifnn", X: guard, Y: rhs, Z: old}
	}
	switch l := lhs.(type) {
	case *ast.Ident:
		old := e.vars[l.Name]
		e.vars[l.Name] = wrap(old)
	case *ast.SelectorExpr:
		id, ok := l.X.(*ast.Ident)
		if !ok {
			die(l.Pos(), "unsupported assignment target")
		}
		base, ok := e.vars[id.Name]
		if !ok || base.K != "lit" {
			die(l.Pos(), "assignment to a field of %s which is not a local composite literal", id.Name)
		}
		for i, f := range base.Fields {
			if f.Name == l.Sel.Name {
				base.Fields[i].X = wrap(f.X)
				return
			}
		}
		base.Fields = append(base.Fields, FieldInit{l.Sel.Name, wrap(nil)})
	default:
		die(lhs.Pos(), "unsupported assignment target %T", lhs)
	}
}

type runResult struct {
	validates []*Expr
	pubFunc   string
	pubArgs   []*Expr
	dispatch  Dispatch
	retExpr   ast.Expr // for pub functions: the argument of publishControl
}

// run symbolically executes the statement list of a Node method / handleControl branch.
func (e *env) run(stmts []ast.Stmt, res *runResult) {
	for _, st := range stmts {
		switch s := st.(type) {
		case *ast.AssignStmt:
			if len(s.Lhs) != 1 || len(s.Rhs) != 1 {
				die(s.Pos(), "multi-assignment not supported")
			}
			// xOpts := &XOptions{}
			if s.Tok == token.DEFINE {
				if ue, ok := s.Rhs[0].(*ast.UnaryExpr); ok && ue.Op == token.AND {
					if cl, ok := ue.X.(*ast.CompositeLit); ok && len(cl.Elts) == 0 && strings.HasSuffix(typeStr(cl.Type), "Options") {
						name := s.Lhs[0].(*ast.Ident).Name
						e.vars[name] = &Expr{K: "in", Name: "o"}
						e.optsVar = name
						continue
					}
				}
				// err := n.pubXxx(args)
				if ce, ok := s.Rhs[0].(*ast.CallExpr); ok {
					if se, ok := ce.Fun.(*ast.SelectorExpr); ok {
						if id, ok := se.X.(*ast.Ident); ok && id.Name == e.nodeVar && strings.HasPrefix(se.Sel.Name, "pub") {
							if res.pubFunc != "" {
								die(s.Pos(), "second pub call")
							}
							res.pubFunc = se.Sel.Name
							for _, a := range ce.Args {
								res.pubArgs = append(res.pubArgs, e.eval(a))
							}
							continue
						}
					}
				}
				id, ok := s.Lhs[0].(*ast.Ident)
				if !ok {
					die(s.Pos(), "unsupported define")
				}
				e.vars[id.Name] = e.eval(s.Rhs[0])
				continue
			}
			if s.Tok != token.ASSIGN {
				die(s.Pos(), "unsupported assignment operator")
			}
			e.assign(s.Lhs[0], e.eval(s.Rhs[0]), nil)
		case *ast.DeclStmt:
			gd, ok := s.Decl.(*ast.GenDecl)
			if !ok || gd.Tok != token.VAR {
				die(s.Pos(), "unsupported declaration")
			}
			for _, sp := range gd.Specs {
				vs := sp.(*ast.ValueSpec)
				if len(vs.Values) != 0 {
					die(s.Pos(), "var with initialiser not supported")
				}
				if _, ok := vs.Type.(*ast.StarExpr); !ok {
					die(s.Pos(), "var of non-pointer type not supported")
				}
				for _, n := range vs.Names {
					e.vars[n.Name] = &Expr{K: "nil"}
				}
			}
		case *ast.RangeStmt:
			// for _, opt := range opts { opt(xOpts) }
			id, ok := s.X.(*ast.Ident)
			if !ok || id.Name != e.varargs || len(s.Body.List) != 1 {
				die(s.Pos(), "unsupported range statement")
			}
			es, ok := s.Body.List[0].(*ast.ExprStmt)
			if !ok {
				die(s.Pos(), "unsupported range body")
			}
			ce, ok := es.X.(*ast.CallExpr)
			if !ok || len(ce.Args) != 1 {
				die(s.Pos(), "unsupported range body")
			}
			if a, ok := ce.Args[0].(*ast.Ident); !ok || a.Name != e.optsVar {
				die(s.Pos(), "option applied to something else than the option record")
			}
		case *ast.IfStmt:
			if isErrReturn(s) {
				continue
			}
			if s.Init != nil || s.Else != nil {
				die(s.Pos(), "unsupported if statement (init/else)")
			}
			if gx, ok := isNilCheck(s.Cond); ok {
				g := e.eval(gx)
				// validation guard: body is `if err := filter.Validate(X); err != nil { return ... }`
				if len(s.Body.List) == 1 {
					if inner, ok := s.Body.List[0].(*ast.IfStmt); ok && inner.Init != nil {
						if as, ok := inner.Init.(*ast.AssignStmt); ok && len(as.Rhs) == 1 {
							if ce, ok := as.Rhs[0].(*ast.CallExpr); ok && typeStr(ce.Fun) == "filter.Validate" && len(ce.Args) == 1 {
								res.validates = append(res.validates, e.eval(ce.Args[0]))
								_ = g
								continue
							}
						}
					}
				}
				// guarded assignments
				for _, b := range s.Body.List {
					as, ok := b.(*ast.AssignStmt)
					if !ok || as.Tok != token.ASSIGN || len(as.Lhs) != 1 || len(as.Rhs) != 1 {
						die(b.Pos(), "unsupported statement under nil guard")
					}
					e.assign(as.Lhs[0], e.eval(as.Rhs[0]), g)
				}
				continue
			}
			// dispatch: if cond { return n.hub.M(...) }
			if len(s.Body.List) == 1 {
				if r, ok := s.Body.List[0].(*ast.ReturnStmt); ok && len(r.Results) == 1 {
					if hc := e.hubCall(r.Results[0]); hc != nil {
						if res.dispatch.Then != nil {
							die(s.Pos(), "second conditional dispatch")
						}
						res.dispatch.Cond = e.eval(s.Cond)
						res.dispatch.Then = hc
						continue
					}
				}
			}
			die(s.Pos(), "unsupported if statement")
		case *ast.ReturnStmt:
			if len(s.Results) != 1 {
				die(s.Pos(), "unsupported return")
			}
			if hc := e.hubCall(s.Results[0]); hc != nil {
				res.dispatch.Else = hc
				return
			}
			// return n.publishControl(cmd, "")
			if ce, ok := s.Results[0].(*ast.CallExpr); ok {
				if se, ok := ce.Fun.(*ast.SelectorExpr); ok && se.Sel.Name == "publishControl" && len(ce.Args) == 2 {
					res.retExpr = ce.Args[0]
					if a, ok := ce.Args[1].(*ast.BasicLit); !ok || a.Value != `""` {
						die(s.Pos(), "publishControl to a specific node")
					}
					return
				}
			}
			die(s.Pos(), "unsupported return")
		default:
			die(st.Pos(), "unsupported statement %T", st)
		}
	}
}

func fieldList(fl *ast.FieldList) []Field {
	var out []Field
	for _, f := range fl.List {
		for _, n := range f.Names {
			out = append(out, Field{n.Name, typeStr(f.Type)})
		}
	}
	return out
}

func extractOp(p *pkgSrc, consts map[string]*Expr, method, msgField string) *OpFacts {
	fd, ok := p.funcs["Node."+method]
	if !ok {
		fmt.Fprintf(os.Stderr, "c27extract: Node.%s not found\n", method)
		os.Exit(3)
	}
	of := &OpFacts{NodeMethod: method, MsgType: msgField}
	e := &env{p: p, vars: map[string]*Expr{}, consts: consts, nodeVar: fd.Recv.List[0].Names[0].Name}
	for _, f := range fd.Type.Params.List {
		if el, ok := f.Type.(*ast.Ellipsis); ok {
			e.varargs = f.Names[0].Name
			of.OptionType = typeStr(el.Elt)
			continue
		}
		for _, n := range f.Names {
			of.NodeParams = append(of.NodeParams, Field{n.Name, typeStr(f.Type)})
			e.vars[n.Name] = &Expr{K: "in", Name: n.Name}
		}
	}
	of.OptionsType = of.OptionType + "s"
	if _, ok := p.types[of.OptionsType]; !ok {
		die(fd.Pos(), "options record %s not found", of.OptionsType)
	}
	var res runResult
	e.run(fd.Body.List, &res)
	if res.pubFunc == "" || res.dispatch.Else == nil {
		die(fd.Pos(), "Node.%s: no pub call or no hub call found", method)
	}
	of.Validates = res.validates
	of.PubFunc = res.pubFunc
	of.Local = res.dispatch

	// inline the pub function
	pf, ok := p.funcs["Node."+res.pubFunc]
	if !ok {
		die(fd.Pos(), "%s not found", res.pubFunc)
	}
	pe := &env{p: p, vars: map[string]*Expr{}, consts: consts, nodeVar: pf.Recv.List[0].Names[0].Name}
	params := fieldList(pf.Type.Params)
	if len(params) != len(res.pubArgs) {
		die(pf.Pos(), "%s: argument count mismatch", res.pubFunc)
	}
	for i, prm := range params {
		pe.vars[prm.Name] = res.pubArgs[i]
	}
	var pres runResult
	pe.run(pf.Body.List, &pres)
	if pres.retExpr == nil {
		die(pf.Pos(), "%s: no publishControl call", res.pubFunc)
	}
	cmd := pe.eval(pres.retExpr)
	if cmd.K != "lit" || cmd.Type != "controlpb.Command" {
		die(pf.Pos(), "%s: published value is not a controlpb.Command literal", res.pubFunc)
	}
	for _, f := range cmd.Fields {
		switch f.Name {
		case "Uid":
			if f.X.K != "node" || f.X.Name != "uid" {
				die(pf.Pos(), "%s: Uid is not n.uid", res.pubFunc)
			}
		case msgField:
			of.Msg = f.X
		default:
			die(pf.Pos(), "%s: unexpected Command field %s", res.pubFunc, f.Name)
		}
	}
	if of.Msg == nil || of.Msg.K != "lit" || of.Msg.Type != "controlpb."+msgField {
		die(pf.Pos(), "%s: Command.%s is not a controlpb.%s literal", res.pubFunc, msgField, msgField)
	}

	// the handleControl branch
	hf, ok := p.funcs["Node.handleControl"]
	if !ok {
		fmt.Fprintln(os.Stderr, "c27extract: Node.handleControl not found")
		os.Exit(3)
	}
	branch := findBranch(hf, msgField)
	if branch == nil {
		die(hf.Pos(), "handleControl: no branch for cmd.%s", msgField)
	}
	he := &env{p: p, vars: map[string]*Expr{}, consts: consts, nodeVar: hf.Recv.List[0].Names[0].Name}
	he.vars["cmd"] = &Expr{K: "cmdroot"}
	var hres runResult
	he.run(branch.List, &hres)
	if hres.dispatch.Else == nil {
		die(branch.Pos(), "handleControl branch %s: no hub call", msgField)
	}
	of.Remote = hres.dispatch
	return of
}

// findBranch walks the `if … else if cmd.X != nil { … }` chain of handleControl.
func findBranch(hf *ast.FuncDecl, field string) *ast.BlockStmt {
	var found *ast.BlockStmt
	ast.Inspect(hf.Body, func(n ast.Node) bool {
		is, ok := n.(*ast.IfStmt)
		if !ok {
			return true
		}
		if x, ok := isNilCheck(is.Cond); ok {
			if se, ok := x.(*ast.SelectorExpr); ok && se.Sel.Name == field {
				if id, ok := se.X.(*ast.Ident); ok && id.Name == "cmd" {
					if found != nil {
						die(is.Pos(), "two branches for cmd.%s", field)
					}
					found = is.Body
				}
			}
		}
		return true
	})
	return found
}

// resolve `cmd := cmd.Subscribe`: sel(cmdroot, X) -> in c
func normCmd(x *Expr, field string) *Expr {
	if x == nil {
		return nil
	}
	if x.K == "sel" && x.X != nil && x.X.K == "cmdroot" {
		if x.Name != field {
			fmt.Fprintf(os.Stderr, "c27extract: handleControl branch %s reads cmd.%s\n", field, x.Name)
			os.Exit(3)
		}
		return &Expr{K: "in", Name: "c"}
	}
	if x.K == "cmdroot" {
		fmt.Fprintf(os.Stderr, "c27extract: handleControl branch %s uses the whole command\n", field)
		os.Exit(3)
	}
	n := *x
	n.X, n.Y, n.Z = normCmd(x.X, field), normCmd(x.Y, field), normCmd(x.Z, field)
	if x.Args != nil {
		n.Args = make([]*Expr, len(x.Args))
		for i, a := range x.Args {
			n.Args[i] = normCmd(a, field)
		}
	}
	if x.Fields != nil {
		n.Fields = make([]FieldInit, len(x.Fields))
		for i, f := range x.Fields {
			n.Fields[i] = FieldInit{f.Name, normCmd(f.X, field)}
		}
	}
	return &n
}

func normDispatch(d Dispatch, field string) Dispatch {
	d.Cond = normCmd(d.Cond, field)
	for _, hc := range []*HubCall{d.Then, d.Else} {
		if hc == nil {
			continue
		}
		for i, a := range hc.Args {
			hc.Args[i] = normCmd(a, field)
		}
	}
	return d
}

// ---------------------------------------------------------------------------------- filter conversions

func extractFilterConv(p *pkgSrc, name string) FilterConv {
	fd, ok := p.funcs[name]
	if !ok {
		fmt.Fprintf(os.Stderr, "c27extract: %s not found\n", name)
		os.Exit(3)
	}
	fc := FilterConv{Name: name}
	prm := fieldList(fd.Type.Params)
	if len(prm) != 1 || fd.Type.Results == nil || len(fd.Type.Results.List) != 1 {
		die(fd.Pos(), "%s: unexpected signature", name)
	}
	fc.From = strings.TrimPrefix(prm[0].Type, "*")
	fc.To = strings.TrimPrefix(typeStr(fd.Type.Results.List[0].Type), "*")
	in := prm[0].Name
	b := fd.Body.List
	if len(b) < 3 {
		die(fd.Pos(), "%s: unexpected body", name)
	}
	// 1: if f == nil { return nil }
	if is, ok := b[0].(*ast.IfStmt); !ok || typeStr(is.Cond) != in+" == nil" || len(is.Body.List) != 1 {
		die(b[0].Pos(), "%s: first statement is not the nil check", name)
	}
	// 2: out := &T{...}
	as, ok := b[1].(*ast.AssignStmt)
	if !ok || as.Tok != token.DEFINE {
		die(b[1].Pos(), "%s: second statement is not out := &T{…}", name)
	}
	outVar := as.Lhs[0].(*ast.Ident).Name
	ue, ok := as.Rhs[0].(*ast.UnaryExpr)
	if !ok || ue.Op != token.AND {
		die(b[1].Pos(), "%s: second statement is not out := &T{…}", name)
	}
	cl, ok := ue.X.(*ast.CompositeLit)
	if !ok || typeStr(cl.Type) != fc.To {
		die(b[1].Pos(), "%s: literal type mismatch", name)
	}
	for _, el := range cl.Elts {
		kv, ok := el.(*ast.KeyValueExpr)
		if !ok {
			die(el.Pos(), "%s: positional literal", name)
		}
		k := kv.Key.(*ast.Ident).Name
		if typeStr(kv.Value) != in+"."+k {
			die(el.Pos(), "%s: field %s is not copied from %s.%s", name, k, in, k)
		}
		fc.Copies = append(fc.Copies, k)
	}
	rest := b[2:]
	if len(rest) == 2 {
		is, ok := rest[0].(*ast.IfStmt)
		if !ok || len(is.Body.List) != 2 {
			die(rest[0].Pos(), "%s: unexpected statement", name)
		}
		ce, ok := is.Cond.(*ast.BinaryExpr)
		if !ok || ce.Op != token.GTR || !strings.HasPrefix(typeStr(ce.X), "len("+in+".") || typeStr(ce.Y) != "0" {
			die(is.Pos(), "%s: unexpected condition", name)
		}
		fld := strings.TrimSuffix(strings.TrimPrefix(typeStr(ce.X), "len("+in+"."), ")")
		mk, ok := is.Body.List[0].(*ast.AssignStmt)
		if !ok || typeStr(mk.Lhs[0]) != outVar+"."+fld || !strings.HasPrefix(typeStr(mk.Rhs[0]), "make(") ||
			!strings.HasSuffix(typeStr(mk.Rhs[0]), "len("+in+"."+fld+"))") {
			die(is.Body.List[0].Pos(), "%s: unexpected make", name)
		}
		rg, ok := is.Body.List[1].(*ast.RangeStmt)
		if !ok || typeStr(rg.X) != in+"."+fld || len(rg.Body.List) != 1 || rg.Key == nil || rg.Value == nil {
			die(is.Body.List[1].Pos(), "%s: unexpected loop", name)
		}
		la, ok := rg.Body.List[0].(*ast.AssignStmt)
		want := outVar + "." + fld + "[" + typeStr(rg.Key) + "]"
		if !ok || typeStr(la.Lhs[0]) != want || typeStr(la.Rhs[0]) != name+"("+typeStr(rg.Value)+")" {
			die(rg.Body.Pos(), "%s: loop body is not %s = %s(elem)", name, want, name)
		}
		fc.Recurse = fld
		rest = rest[1:]
	}
	if len(rest) != 1 {
		die(fd.Pos(), "%s: unexpected trailing statements", name)
	}
	if r, ok := rest[0].(*ast.ReturnStmt); !ok || len(r.Results) != 1 || typeStr(r.Results[0]) != outVar {
		die(rest[0].Pos(), "%s: does not return %s", name, outVar)
	}
	return fc
}

// ---------------------------------------------------------------------------------- main

func main() {
	repo := os.Getenv("VERIF_REPO")
	if repo == "" {
		repo = "/repo"
	}
	if len(os.Args) > 1 {
		repo = os.Args[1]
	}
	p := loadPkg(repo)
	cp := loadPkg(filepath.Join(repo, "internal", "controlpb"))

	facts := &Facts{Repo: repo, Structs: map[string][]Field{}, Options: map[string][]OptionCtor{}, Unsettable: map[string][]string{},
		Ops: map[string]*OpFacts{}, Hub: map[string][]Field{}, Consts: map[string]*Expr{}, NamedTypes: map[string]string{},
		DocComments: map[string]string{}}

	ops := []struct{ key, method, msg string }{
		{"subscribe", "Subscribe", "Subscribe"}, {"unsubscribe", "Unsubscribe", "Unsubscribe"},
		{"disconnect", "Disconnect", "Disconnect"}, {"refresh", "Refresh", "Refresh"}}
	private := map[string]bool{}
	for _, o := range ops {
		of := extractOp(p, facts.Consts, o.method, o.msg)
		of.Remote = normDispatch(of.Remote, o.msg)
		facts.Ops[o.key] = of
		facts.Structs[of.OptionsType] = p.structFields(of.OptionsType, false)
		facts.Options[of.OptionsType] = extractOptions(p, of.OptionType, of.OptionsType)
		set := map[string]bool{}
		for _, oc := range facts.Options[of.OptionsType] {
			for _, s := range oc.Sets {
				set[s.Field()] = true
			}
		}
		for _, f := range facts.Structs[of.OptionsType] {
			if !set[f.Name] {
				facts.Unsettable[of.OptionsType] = append(facts.Unsettable[of.OptionsType], f.Name)
			}
			if !ast.IsExported(f.Name) {
				private[f.Name] = true
			}
		}
		facts.Structs["controlpb."+o.msg] = cp.structFields(o.msg, true)
		for _, hc := range []*HubCall{of.Local.Then, of.Local.Else, of.Remote.Then, of.Remote.Else} {
			if hc == nil {
				continue
			}
			hf, ok := p.funcs["Hub."+hc.Method]
			if !ok {
				fmt.Fprintf(os.Stderr, "c27extract: Hub.%s not found\n", hc.Method)
				os.Exit(3)
			}
			facts.Hub[hc.Method] = fieldList(hf.Type.Params)
			if len(facts.Hub[hc.Method]) != len(hc.Args) {
				die(hf.Pos(), "Hub.%s: argument count mismatch", hc.Method)
			}
		}
		if fd := p.funcs["Node."+o.method]; fd.Doc != nil {
			facts.DocComments["Node."+o.method] = strings.TrimSpace(fd.Doc.Text())
		}
	}
	for _, s := range []string{"StreamPosition", "Unsubscribe", "Disconnect"} {
		facts.Structs[s] = p.structFields(s, false)
	}
	for _, s := range []string{"StreamPosition", "FilterNode"} {
		facts.Structs["controlpb."+s] = cp.structFields(s, true)
	}
	for _, n := range []string{"RecoveryMode"} {
		if ts, ok := p.types[n]; ok {
			facts.NamedTypes[n] = typeStr(ts.Type)
		}
	}
	if ts, ok := p.types["FilterNode"]; ok {
		facts.NamedTypes["FilterNode"] = typeStr(ts.Type)
	}
	// protocol.FilterNode lives in another module: locate it through `go list -m` (module cache, offline).
	if facts.NamedTypes["FilterNode"] == "protocol.FilterNode" {
		cmd := exec.Command("go", "list", "-m", "-f", "{{.Dir}}", "github.com/centrifugal/protocol")
		cmd.Dir = repo
		out, err := cmd.Output()
		if err != nil {
			fmt.Fprintln(os.Stderr, "c27extract: cannot locate github.com/centrifugal/protocol:", err)
			os.Exit(3)
		}
		pp := loadPkg(strings.TrimSpace(string(out)))
		facts.Structs["FilterNode"] = pp.structFields("FilterNode", true)
	} else {
		fmt.Fprintln(os.Stderr, "c27extract: FilterNode is no longer an alias of protocol.FilterNode")
		os.Exit(3)
	}
	facts.FilterConvs = []FilterConv{extractFilterConv(p, "controlpbFilterFromProto"), extractFilterConv(p, "protoFilterFromControlpb")}

	// Reads of the unexported (targeting) option fields outside node.go / options.go: the model treats
	// those fields as invisible to Client.Subscribe / Client.Refresh, which is only right if nothing
	// else selects them.
	var names []string
	for n := range p.files {
		names = append(names, n)
	}
	sort.Strings(names)
	for _, fn := range names {
		if fn == "node.go" || fn == "options.go" {
			continue
		}
		f := p.files[fn]
		calls := map[ast.Expr]bool{}
		ast.Inspect(f, func(n ast.Node) bool {
			if ce, ok := n.(*ast.CallExpr); ok {
				calls[ce.Fun] = true
			}
			return true
		})
		ast.Inspect(f, func(n ast.Node) bool {
			se, ok := n.(*ast.SelectorExpr)
			if !ok || !private[se.Sel.Name] || calls[se] {
				return true
			}
			facts.PrivateReads = append(facts.PrivateReads, fset.Position(se.Pos()).String()+": "+typeStr(se))
			return true
		})
	}

	enc := json.NewEncoder(os.Stdout)
	enc.SetIndent("", " ")
	if err := enc.Encode(facts); err != nil {
		fmt.Fprintln(os.Stderr, err)
		os.Exit(3)
	}
}

func (f FieldInit) Field() string { return f.Name }
