//go:build verif

package centrifuge

// Harness for C27 / C28 (added to package centrifuge by `go test -c -overlay`, never part of the repo).
//
// A scenario is described by setup lines; every `call` line instantiates the scenario on two fresh
// two-node in-process clusters (nodes A and B, each with its own memory broker / presence manager,
// connected by a Controller that hands the bytes given to PublishControl to every node's
// HandleControl) and performs the same Node.Subscribe / Unsubscribe / Disconnect / Refresh call
//   L: on node B,   R: on node A,
// so a connection living on B is reached through the local path in L and through the control
// message in R (and the other way round for a connection on A).  Each run happens inside a
// testing/synctest bubble: virtual clock, `synctest.Wait()` instead of sleeps.
//
// Line protocol (one output line per input line):
//   reset                                               -> ok
//   conn id=<id> node=A|B user=<hex> uni=0|1 session=<hex> labels=k:v,k:v   -> ok
//   presub id=<id> ch=<hex> side=server|client opts=<opts>     -> ok
//   hist ch=<hex> n=<k>                                 -> ok       (k publications with history, both nodes)
//   call op=subscribe|unsubscribe|disconnect|refresh user=<hex> [ch=<hex>] opts=<opts>   -> {"L":obs,"R":obs}
// <opts> = `-` or `WithName:value;WithName:value`; values: bool 0/1, ints decimal, strings/bytes hex (`-` empty),
// stream position `off:epochhex` (epoch `40` = "@" = the current epoch of the channel on node B) or nil,
// label filter nil|F1..F5 (same table as props/C27/gen.py NAMED_FILTERS), Unsubscribe/Disconnect `code:reasonhex`,
// string list comma separated hex.

import (
	"bufio"
	"context"
	"encoding/hex"
	"encoding/json"
	"fmt"
	"os"
	"sort"
	"strconv"
	"strings"
	"sync"
	"testing"
	"testing/synctest"
	"time"

	"github.com/centrifugal/protocol"
)

// ------------------------------------------------------------------------------------------ transport

type vcTransport struct {
	mu     sync.Mutex
	uni    bool
	writes []string
	closed bool
	disc   string
}

func (t *vcTransport) Name() string                     { return "verif" }
func (t *vcTransport) AcceptProtocol() string           { return "" }
func (t *vcTransport) Protocol() ProtocolType           { return ProtocolTypeJSON }
func (t *vcTransport) ProtocolVersion() ProtocolVersion { return ProtocolVersion2 }
func (t *vcTransport) Unidirectional() bool             { return t.uni }
func (t *vcTransport) Emulation() bool                  { return false }
func (t *vcTransport) DisabledPushFlags() uint64        { return 0 }
func (t *vcTransport) PingPongConfig() PingPongConfig {
	return PingPongConfig{PingInterval: -1, PongTimeout: -1}
}
func (t *vcTransport) Write(m []byte) error {
	t.mu.Lock()
	defer t.mu.Unlock()
	t.writes = append(t.writes, string(m))
	return nil
}
func (t *vcTransport) WriteMany(ms ...[]byte) error {
	t.mu.Lock()
	defer t.mu.Unlock()
	for _, m := range ms {
		t.writes = append(t.writes, string(m))
	}
	return nil
}
func (t *vcTransport) Close(d Disconnect) error {
	t.mu.Lock()
	defer t.mu.Unlock()
	if !t.closed {
		t.closed = true
		t.disc = fmt.Sprintf("%d:%s", d.Code, d.Reason)
	}
	return nil
}

// ------------------------------------------------------------------------------------------ recording broker / presence / controller

type vcRecorder struct {
	mu  sync.Mutex
	evs []string
}

func (r *vcRecorder) add(s string) {
	r.mu.Lock()
	r.evs = append(r.evs, s)
	r.mu.Unlock()
}

func (r *vcRecorder) take() []string {
	r.mu.Lock()
	defer r.mu.Unlock()
	out := append([]string(nil), r.evs...)
	sort.Strings(out)
	return out
}

func (r *vcRecorder) reset() {
	r.mu.Lock()
	r.evs = nil
	r.mu.Unlock()
}

type vcBroker struct {
	*MemoryBroker
	rec *vcRecorder
}

func (b *vcBroker) PublishJoin(ch string, info *ClientInfo) error {
	b.rec.add("join " + ch + " " + info.ClientID)
	return b.MemoryBroker.PublishJoin(ch, info)
}

func (b *vcBroker) PublishLeave(ch string, info *ClientInfo) error {
	b.rec.add("leave " + ch + " " + info.ClientID)
	return b.MemoryBroker.PublishLeave(ch, info)
}

type vcPresence struct {
	*MemoryPresenceManager
	rec *vcRecorder
}

func (p *vcPresence) AddPresence(ch string, clientID string, info *ClientInfo) error {
	p.rec.add("add " + ch + " " + clientID)
	return p.MemoryPresenceManager.AddPresence(ch, clientID, info)
}

func (p *vcPresence) RemovePresence(ch string, clientID string, userID string) error {
	p.rec.add("remove " + ch + " " + clientID)
	return p.MemoryPresenceManager.RemovePresence(ch, clientID, userID)
}

type vcBus struct {
	nodes      []*Node
	mu         sync.Mutex
	remoteErrs []string
}

type vcController struct {
	bus  *vcBus
	self int
}

func (c *vcController) RegisterControlEventHandler(ControlEventHandler) error { return nil }

func (c *vcController) PublishControl(data []byte, nodeID, _ string) error {
	for i, n := range c.bus.nodes {
		if n == nil || (nodeID != "" && n.ID() != nodeID) {
			continue
		}
		cp := append([]byte(nil), data...)
		if err := n.HandleControl(cp); err != nil && i != c.self {
			c.bus.mu.Lock()
			c.bus.remoteErrs = append(c.bus.remoteErrs, err.Error())
			c.bus.mu.Unlock()
		}
	}
	return nil
}

// ------------------------------------------------------------------------------------------ scenario

type vcConnSpec struct {
	id, node, user, session string
	uni                     bool
	labels                  map[string]string
}

type vcPresub struct {
	id, ch, side, opts string
}

type vcHist struct {
	ch string
	n  int
}

type vcScenario struct {
	conns   []vcConnSpec
	presubs []vcPresub
	hists   []vcHist
}

type vcConn struct {
	spec   vcConnSpec
	client *Client
	tr     *vcTransport
	events *vcRecorder
}

type vcCluster struct {
	bus     *vcBus
	nodes   map[string]*Node
	rec     map[string]*vcRecorder // presence + join/leave per node
	conns   []*vcConn
	pending map[string]SubscribeOptions // client-side subscribe replies, key id+"\x00"+ch
	pmu     sync.Mutex
}

var vcNamedFilters = map[string]*FilterNode{
	"F1": {Op: "", Key: "region", Cmp: "eq", Val: "eu"},
	"F2": {Op: "", Key: "tier", Cmp: "in", Vals: []string{"pro", "free"}},
	"F3": {Op: "and", Nodes: []*FilterNode{{Op: "", Key: "region", Cmp: "eq", Val: "eu"},
		{Op: "not", Nodes: []*FilterNode{{Op: "", Key: "tier", Cmp: "eq", Val: "free"}}}}},
	"F4": {Op: "", Key: "region", Cmp: "ex"},
	"F5": {Op: "", Key: "region", Cmp: "bogus", Val: "x"}, // rejected by filter.Validate
}

func vcUnhex(s string) (string, error) {
	if s == "-" || s == "" {
		return "", nil
	}
	b, err := hex.DecodeString(s)
	return string(b), err
}

func vcKV(line string) map[string]string {
	m := map[string]string{}
	for _, w := range strings.Fields(line)[1:] {
		if i := strings.IndexByte(w, '='); i > 0 {
			m[w[:i]] = w[i+1:]
		}
	}
	return m
}

func (cl *vcCluster) epochB(ch string) string {
	_, sp, err := cl.nodes["B"].broker.History(ch, HistoryOptions{Filter: HistoryFilter{Limit: 0}})
	if err != nil {
		return ""
	}
	return sp.Epoch
}

type vcParsedOpts struct {
	sub   []SubscribeOption
	unsub []UnsubscribeOption
	disc  []DisconnectOption
	refr  []RefreshOption
}

func vcBool(v string) (bool, error) {
	switch v {
	case "1":
		return true, nil
	case "0":
		return false, nil
	}
	return false, fmt.Errorf("bad bool %q", v)
}

func vcCodeReason(v string) (uint32, string, error) {
	i := strings.IndexByte(v, ':')
	if i < 0 {
		return 0, "", fmt.Errorf("bad code:reason %q", v)
	}
	n, err := strconv.ParseUint(v[:i], 10, 32)
	if err != nil {
		return 0, "", err
	}
	r, err := vcUnhex(v[i+1:])
	return uint32(n), r, err
}

func vcFilter(v string) (*FilterNode, error) {
	if v == "nil" {
		return nil, nil
	}
	f, ok := vcNamedFilters[v]
	if !ok {
		return nil, fmt.Errorf("unknown filter %q", v)
	}
	return f, nil
}

// parseOpts turns the textual option list into real With* options.  An option name the current
// source tree does not have is an error (the generator only emits names extracted from options.go).
func (cl *vcCluster) parseOpts(s string, ch string) (*vcParsedOpts, error) {
	out := &vcParsedOpts{}
	if s == "-" || s == "" {
		return out, nil
	}
	for _, item := range strings.Split(s, ";") {
		i := strings.IndexByte(item, ':')
		if i < 0 {
			return nil, fmt.Errorf("bad option %q", item)
		}
		name, v := item[:i], item[i+1:]
		var err error
		switch name {
		// ---- subscribe
		case "WithExpireAt":
			var n int64
			n, err = strconv.ParseInt(v, 10, 64)
			out.sub = append(out.sub, WithExpireAt(n))
		case "WithChannelInfo":
			var b string
			b, err = vcUnhex(v)
			out.sub = append(out.sub, WithChannelInfo([]byte(b)))
		case "WithEmitPresence":
			var b bool
			b, err = vcBool(v)
			out.sub = append(out.sub, WithEmitPresence(b))
		case "WithEmitJoinLeave":
			var b bool
			b, err = vcBool(v)
			out.sub = append(out.sub, WithEmitJoinLeave(b))
		case "WithPushJoinLeave":
			var b bool
			b, err = vcBool(v)
			out.sub = append(out.sub, WithPushJoinLeave(b))
		case "WithPositioning":
			var b bool
			b, err = vcBool(v)
			out.sub = append(out.sub, WithPositioning(b))
		case "WithRecovery":
			var b bool
			b, err = vcBool(v)
			out.sub = append(out.sub, WithRecovery(b))
		case "WithRecoveryMode":
			var n uint64
			n, err = strconv.ParseUint(v, 10, 8)
			out.sub = append(out.sub, WithRecoveryMode(RecoveryMode(n)))
		case "WithSubscribeClient":
			var b string
			b, err = vcUnhex(v)
			out.sub = append(out.sub, WithSubscribeClient(b))
		case "WithSubscribeSession":
			var b string
			b, err = vcUnhex(v)
			out.sub = append(out.sub, WithSubscribeSession(b))
		case "WithSubscribeData":
			var b string
			b, err = vcUnhex(v)
			out.sub = append(out.sub, WithSubscribeData([]byte(b)))
		case "WithRecoverSince":
			if v == "nil" {
				out.sub = append(out.sub, WithRecoverSince(nil))
				break
			}
			j := strings.IndexByte(v, ':')
			if j < 0 {
				return nil, fmt.Errorf("bad stream position %q", v)
			}
			var off uint64
			off, err = strconv.ParseUint(v[:j], 10, 64)
			if err != nil {
				return nil, err
			}
			var ep string
			ep, err = vcUnhex(v[j+1:])
			if ep == "@" {
				ep = cl.epochB(ch)
			}
			out.sub = append(out.sub, WithRecoverSince(&StreamPosition{Offset: off, Epoch: ep}))
		case "WithAutoCacheRecover":
			var b bool
			b, err = vcBool(v)
			out.sub = append(out.sub, WithAutoCacheRecover(b))
		case "WithSubscribeSource":
			var n uint64
			n, err = strconv.ParseUint(v, 10, 8)
			out.sub = append(out.sub, WithSubscribeSource(uint8(n)))
		case "WithSubscribeHistoryMetaTTL":
			var n int64
			n, err = strconv.ParseInt(v, 10, 64)
			out.sub = append(out.sub, WithSubscribeHistoryMetaTTL(time.Duration(n)))
		case "WithSubscribeLabelFilter":
			var f *FilterNode
			f, err = vcFilter(v)
			out.sub = append(out.sub, WithSubscribeLabelFilter(f))
		case "WithSubscribeAllUsers":
			var b bool
			b, err = vcBool(v)
			out.sub = append(out.sub, WithSubscribeAllUsers(b))
		// ---- unsubscribe
		case "WithUnsubscribeClient":
			var b string
			b, err = vcUnhex(v)
			out.unsub = append(out.unsub, WithUnsubscribeClient(b))
		case "WithUnsubscribeSession":
			var b string
			b, err = vcUnhex(v)
			out.unsub = append(out.unsub, WithUnsubscribeSession(b))
		case "WithCustomUnsubscribe":
			var c uint32
			var r string
			c, r, err = vcCodeReason(v)
			out.unsub = append(out.unsub, WithCustomUnsubscribe(Unsubscribe{Code: c, Reason: r}))
		case "WithUnsubscribeLabelFilter":
			var f *FilterNode
			f, err = vcFilter(v)
			out.unsub = append(out.unsub, WithUnsubscribeLabelFilter(f))
		case "WithUnsubscribeAllUsers":
			var b bool
			b, err = vcBool(v)
			out.unsub = append(out.unsub, WithUnsubscribeAllUsers(b))
		// ---- disconnect
		case "WithCustomDisconnect":
			var c uint32
			var r string
			c, r, err = vcCodeReason(v)
			out.disc = append(out.disc, WithCustomDisconnect(Disconnect{Code: c, Reason: r}))
		case "WithDisconnectClient":
			var b string
			b, err = vcUnhex(v)
			out.disc = append(out.disc, WithDisconnectClient(b))
		case "WithDisconnectSession":
			var b string
			b, err = vcUnhex(v)
			out.disc = append(out.disc, WithDisconnectSession(b))
		case "WithDisconnectClientWhitelist":
			var wl []string
			if v != "-" {
				for _, x := range strings.Split(v, ",") {
					var b string
					b, err = vcUnhex(x)
					if err != nil {
						return nil, err
					}
					wl = append(wl, b)
				}
			}
			out.disc = append(out.disc, WithDisconnectClientWhitelist(wl))
		case "WithDisconnectLabelFilter":
			var f *FilterNode
			f, err = vcFilter(v)
			out.disc = append(out.disc, WithDisconnectLabelFilter(f))
		case "WithDisconnectAllUsers":
			var b bool
			b, err = vcBool(v)
			out.disc = append(out.disc, WithDisconnectAllUsers(b))
		// ---- refresh
		case "WithRefreshClient":
			var b string
			b, err = vcUnhex(v)
			out.refr = append(out.refr, WithRefreshClient(b))
		case "WithRefreshSession":
			var b string
			b, err = vcUnhex(v)
			out.refr = append(out.refr, WithRefreshSession(b))
		case "WithRefreshExpired":
			var b bool
			b, err = vcBool(v)
			out.refr = append(out.refr, WithRefreshExpired(b))
		case "WithRefreshExpireAt":
			var n int64
			n, err = strconv.ParseInt(v, 10, 64)
			out.refr = append(out.refr, WithRefreshExpireAt(n))
		case "WithRefreshInfo":
			var b string
			b, err = vcUnhex(v)
			out.refr = append(out.refr, WithRefreshInfo([]byte(b)))
		case "WithRefreshLabelFilter":
			var f *FilterNode
			f, err = vcFilter(v)
			out.refr = append(out.refr, WithRefreshLabelFilter(f))
		case "WithRefreshAllUsers":
			var b bool
			b, err = vcBool(v)
			out.refr = append(out.refr, WithRefreshAllUsers(b))
		default:
			return nil, fmt.Errorf("unknown option %q", name)
		}
		if err != nil {
			return nil, fmt.Errorf("option %s: %v", name, err)
		}
	}
	return out, nil
}

func vcNewCluster(t *testing.T, sc *vcScenario) (*vcCluster, error) {
	cl := &vcCluster{bus: &vcBus{}, nodes: map[string]*Node{}, rec: map[string]*vcRecorder{}, pending: map[string]SubscribeOptions{}}
	labels := map[string]map[string]string{}
	for _, cs := range sc.conns {
		labels[cs.id] = cs.labels
	}
	for i, name := range []string{"A", "B"} {
		n, err := New(Config{LogLevel: LogLevelNone, Name: "verif-" + name})
		if err != nil {
			return nil, err
		}
		rec := &vcRecorder{}
		mb, err := NewMemoryBroker(n, MemoryBrokerConfig{})
		if err != nil {
			return nil, err
		}
		n.SetBroker(&vcBroker{MemoryBroker: mb, rec: rec})
		pm, err := NewMemoryPresenceManager(n, MemoryPresenceManagerConfig{})
		if err != nil {
			return nil, err
		}
		n.SetPresenceManager(&vcPresence{MemoryPresenceManager: pm, rec: rec})
		n.SetController(&vcController{bus: cl.bus, self: i})
		n.OnConnecting(func(_ context.Context, e ConnectEvent) (ConnectReply, error) {
			return ConnectReply{Labels: labels[e.ClientID]}, nil
		})
		n.OnConnect(func(c *Client) {
			var conn *vcConn
			for _, x := range cl.conns {
				if x.spec.id == c.ID() {
					conn = x
				}
			}
			c.OnSubscribe(func(e SubscribeEvent, cb SubscribeCallback) {
				cl.pmu.Lock()
				o, ok := cl.pending[c.ID()+"\x00"+e.Channel]
				cl.pmu.Unlock()
				if !ok {
					cb(SubscribeReply{}, ErrorPermissionDenied)
					return
				}
				cb(SubscribeReply{Options: o}, nil)
			})
			c.OnUnsubscribe(func(e UnsubscribeEvent) {
				if conn != nil {
					conn.events.add(fmt.Sprintf("unsub %s %d %s side=%v", hex.EncodeToString([]byte(e.Channel)), e.Code, hex.EncodeToString([]byte(e.Reason)), e.ServerSide))
				}
			})
			c.OnDisconnect(func(e DisconnectEvent) {
				if conn != nil {
					conn.events.add(fmt.Sprintf("disconnect %d %s", e.Code, hex.EncodeToString([]byte(e.Reason))))
				}
			})
		})
		cl.bus.nodes = append(cl.bus.nodes, n)
		cl.nodes[name] = n
		cl.rec[name] = rec
	}
	for _, name := range []string{"A", "B"} {
		if err := cl.nodes[name].Run(); err != nil {
			return nil, err
		}
	}
	for _, h := range sc.hists {
		for _, name := range []string{"A", "B"} {
			for i := 0; i < h.n; i++ {
				if _, err := cl.nodes[name].Publish(h.ch, []byte(fmt.Sprintf(`{"i":%d}`, i)), WithHistory(16, time.Hour)); err != nil {
					return nil, err
				}
			}
		}
	}
	for _, cs := range sc.conns {
		n := cl.nodes[cs.node]
		if n == nil {
			return nil, fmt.Errorf("conn %s: unknown node %q", cs.id, cs.node)
		}
		tr := &vcTransport{uni: cs.uni}
		ctx := SetCredentials(context.Background(), &Credentials{UserID: cs.user})
		c, _, err := NewClient(ctx, n, tr)
		if err != nil {
			return nil, err
		}
		// deterministic identifiers instead of random UUIDs (set before the client is registered)
		c.uid = cs.id
		if cs.uni {
			c.session = cs.session
		}
		conn := &vcConn{spec: cs, client: c, tr: tr, events: &vcRecorder{}}
		cl.conns = append(cl.conns, conn)
		if cs.uni {
			c.Connect(ConnectRequest{})
		} else {
			c.HandleCommand(&protocol.Command{Id: 1, Connect: &protocol.ConnectRequest{}}, 0)
		}
		synctest.Wait()
		if len(n.hub.UserConnections(cs.user)) == 0 {
			return nil, fmt.Errorf("conn %s did not connect", cs.id)
		}
	}
	cmdID := uint32(10)
	for _, ps := range sc.presubs {
		var conn *vcConn
		for _, x := range cl.conns {
			if x.spec.id == ps.id {
				conn = x
			}
		}
		if conn == nil {
			return nil, fmt.Errorf("presub: unknown conn %s", ps.id)
		}
		po, err := cl.parseOpts(ps.opts, ps.ch)
		if err != nil {
			return nil, err
		}
		if ps.side == "client" && !conn.spec.uni {
			so := SubscribeOptions{}
			for _, o := range po.sub {
				o(&so)
			}
			cl.pmu.Lock()
			cl.pending[ps.id+"\x00"+ps.ch] = so
			cl.pmu.Unlock()
			cmdID++
			conn.client.HandleCommand(&protocol.Command{Id: cmdID, Subscribe: &protocol.SubscribeRequest{Channel: ps.ch}}, 0)
		} else {
			if err := conn.client.Subscribe(ps.ch, po.sub...); err != nil {
				return nil, fmt.Errorf("presub %s %s: %v", ps.id, ps.ch, err)
			}
		}
		synctest.Wait()
		if !conn.client.IsSubscribed(ps.ch) {
			return nil, fmt.Errorf("presub %s %q did not subscribe", ps.id, ps.ch)
		}
	}
	return cl, nil
}

type vcConnObs struct {
	ID     string   `json:"id"`
	Node   string   `json:"node"`
	Closed bool     `json:"closed"`
	Disc   string   `json:"disc"`
	Exp    int64    `json:"exp"`
	Info   string   `json:"info"`
	Chans  []string `json:"chans"`
	Writes []string `json:"writes"`
	Events []string `json:"events"`
}

type vcObs struct {
	Conns     []vcConnObs `json:"conns"`
	Backend   []string    `json:"backend"` // presence add/remove and join/leave publications, prefixed by node
	RemoteErr []string    `json:"remote_err"`
	CallErr   string      `json:"call_err"`
	Error     string      `json:"error,omitempty"`
}

func (cl *vcCluster) observe(callErr error) vcObs {
	obs := vcObs{}
	if callErr != nil {
		obs.CallErr = callErr.Error()
	}
	// epochs of every stream on every node -> placeholder
	epochs := map[string]bool{}
	chans := map[string]bool{}
	for _, c := range cl.conns {
		c.client.mu.RLock()
		for ch, cc := range c.client.channels {
			chans[ch] = true
			if cc.streamPosition.Epoch != "" {
				epochs[cc.streamPosition.Epoch] = true
			}
		}
		c.client.mu.RUnlock()
	}
	canon := func(s string) string {
		for e := range epochs {
			s = strings.ReplaceAll(s, e, "EPOCH")
		}
		return s
	}
	for _, c := range cl.conns {
		co := vcConnObs{ID: c.spec.id, Node: c.spec.node}
		c.client.mu.RLock()
		co.Closed = c.client.status == statusClosed
		co.Exp = c.client.exp
		co.Info = hex.EncodeToString(c.client.info)
		for ch, cc := range c.client.channels {
			co.Chans = append(co.Chans, fmt.Sprintf("%s|f=%04x|i=%s|e=%d|o=%d|ep=%s|ttl=%d|src=%d", hex.EncodeToString([]byte(ch)),
				cc.flags, hex.EncodeToString(cc.info), cc.expireAt, cc.streamPosition.Offset, canon(cc.streamPosition.Epoch), cc.metaTTLSeconds, cc.Source))
		}
		c.client.mu.RUnlock()
		sort.Strings(co.Chans)
		c.tr.mu.Lock()
		co.Disc = c.tr.disc
		for _, w := range c.tr.writes {
			co.Writes = append(co.Writes, canon(w))
		}
		c.tr.mu.Unlock()
		sort.Strings(co.Writes)
		co.Events = c.events.take()
		obs.Conns = append(obs.Conns, co)
	}
	sort.Slice(obs.Conns, func(i, j int) bool { return obs.Conns[i].ID < obs.Conns[j].ID })
	for _, name := range []string{"A", "B"} {
		for _, e := range cl.rec[name].take() {
			obs.Backend = append(obs.Backend, name+" "+e)
		}
	}
	cl.bus.mu.Lock()
	obs.RemoteErr = append([]string(nil), cl.bus.remoteErrs...)
	cl.bus.mu.Unlock()
	sort.Strings(obs.RemoteErr)
	return obs
}

func (cl *vcCluster) shutdown() {
	for _, name := range []string{"A", "B"} {
		_ = cl.nodes[name].Shutdown(context.Background())
	}
	// Virtual time stops when the bubble's main goroutine returns; let delayed jobs (the subscription
	// dissolver sleeps 1s before unsubscribing from the broker) finish first.
	time.Sleep(5 * time.Second)
	synctest.Wait()
}

// runCall instantiates the scenario, performs the call on node `from`, returns the observation.
func vcRunCall(t *testing.T, sc *vcScenario, from string, kv map[string]string) (obs vcObs) {
	synctest.Test(t, func(t *testing.T) {
		defer func() {
			if r := recover(); r != nil {
				obs = vcObs{Error: fmt.Sprintf("PANIC %v", r)}
			}
		}()
		cl, err := vcNewCluster(t, sc)
		if err != nil {
			obs = vcObs{Error: "setup: " + err.Error()}
			if cl != nil {
				cl.shutdown()
			}
			return
		}
		defer cl.shutdown()
		user, err1 := vcUnhex(kv["user"])
		ch, err2 := vcUnhex(kv["ch"])
		po, err3 := cl.parseOpts(kv["opts"], ch)
		if err1 != nil || err2 != nil || err3 != nil {
			obs = vcObs{Error: fmt.Sprintf("bad-op %v %v %v", err1, err2, err3)}
			return
		}
		// forget everything that happened during setup
		for _, c := range cl.conns {
			c.tr.mu.Lock()
			c.tr.writes = nil
			c.tr.mu.Unlock()
			c.events.reset()
		}
		for _, r := range cl.rec {
			r.reset()
		}
		cl.bus.mu.Lock()
		cl.bus.remoteErrs = nil
		cl.bus.mu.Unlock()
		n := cl.nodes[from]
		var callErr error
		switch kv["op"] {
		case "subscribe":
			callErr = n.Subscribe(user, ch, po.sub...)
		case "unsubscribe":
			callErr = n.Unsubscribe(user, ch, po.unsub...)
		case "disconnect":
			callErr = n.Disconnect(user, po.disc...)
		case "refresh":
			callErr = n.Refresh(user, po.refr...)
		default:
			obs = vcObs{Error: "bad-op unknown op"}
			return
		}
		synctest.Wait()
		obs = cl.observe(callErr)
	})
	return obs
}

func vcRun(t *testing.T) {
	opsPath, outPath := os.Getenv("VERIF_OPS"), os.Getenv("VERIF_OUT")
	if opsPath == "" || outPath == "" {
		t.Skip("VERIF_OPS / VERIF_OUT not set")
	}
	in, err := os.Open(opsPath)
	if err != nil {
		t.Fatal(err)
	}
	defer in.Close()
	out, err := os.Create(outPath)
	if err != nil {
		t.Fatal(err)
	}
	defer out.Close()
	w := bufio.NewWriter(out)
	defer w.Flush()
	sc := &vcScenario{}
	scan := bufio.NewScanner(in)
	scan.Buffer(make([]byte, 1<<20), 1<<24)
	for scan.Scan() {
		line := strings.TrimSpace(scan.Text())
		if line == "" || strings.HasPrefix(line, "#") {
			fmt.Fprintln(w, "#")
			continue
		}
		kv := vcKV(line)
		switch strings.Fields(line)[0] {
		case "reset":
			sc = &vcScenario{}
			fmt.Fprintln(w, "ok")
		case "conn":
			user, e1 := vcUnhex(kv["user"])
			sess, e2 := vcUnhex(kv["session"])
			if e1 != nil || e2 != nil || kv["id"] == "" {
				fmt.Fprintln(w, "bad-op")
				continue
			}
			lb := map[string]string{}
			if kv["labels"] != "" && kv["labels"] != "-" {
				for _, p := range strings.Split(kv["labels"], ",") {
					if i := strings.IndexByte(p, ':'); i > 0 {
						lb[p[:i]] = p[i+1:]
					}
				}
			}
			sc.conns = append(sc.conns, vcConnSpec{id: kv["id"], node: kv["node"], user: user, session: sess, uni: kv["uni"] == "1", labels: lb})
			fmt.Fprintln(w, "ok")
		case "presub":
			ch, e1 := vcUnhex(kv["ch"])
			if e1 != nil {
				fmt.Fprintln(w, "bad-op")
				continue
			}
			sc.presubs = append(sc.presubs, vcPresub{id: kv["id"], ch: ch, side: kv["side"], opts: kv["opts"]})
			fmt.Fprintln(w, "ok")
		case "hist":
			ch, e1 := vcUnhex(kv["ch"])
			n, e2 := strconv.Atoi(kv["n"])
			if e1 != nil || e2 != nil {
				fmt.Fprintln(w, "bad-op")
				continue
			}
			sc.hists = append(sc.hists, vcHist{ch: ch, n: n})
			fmt.Fprintln(w, "ok")
		case "call":
			l := vcRunCall(t, sc, "B", kv)
			r := vcRunCall(t, sc, "A", kv)
			b, _ := json.Marshal(map[string]vcObs{"L": l, "R": r})
			fmt.Fprintln(w, string(b))
		default:
			fmt.Fprintln(w, "bad-op")
		}
		w.Flush()
	}
}

func TestVerifC27(t *testing.T) { vcRun(t) }
