"""C24 — map key expiry removes each expired key exactly once.

Proof: lean/CentrifugeVerif/Props/C24.lean: a transition system over Model/MapHub.lean in which phase 1 and
phase 2 of expireKeysIteration are separate atomic labels interleaved with publish / remove / keep-alive and
clock ticks (Model/MapExpiry.lean).
Tie (sequential, clock-driven): the real MemoryMapBroker runs under testing/synctest on timelines where keys
expire, are refreshed just before / at / after the deadline and around the sweeper's tick, are removed or
republished around the deadline; the Lean driver runs the same lines.
Tie (interleavings, gated by the BrokerEventHandler): `hook` lines register a reaction to the sweeper's removal
broadcast of a key: an operation issued inside that HandlePublication call lands after phase 1 collected the other
due keys and before phase 2 reaches them; an operation issued concurrently while the call is in flight exercises the
publish-lock ordering of the removal's broadcast.  The Lean driver replays these as label sequences
`phase1; phase2; pub|rm|clear; phase2; …` of the MapExpiry transition system.  Only the window between phase 1 and
the FIRST phase-2 region is not reachable this way (covered by the theorems over the model's labels).
Oracle: the statement on the implementation's own output: per key, removals in the stream alternate with
publications (never two removals in a row, never a removal of a key that is not there), every stream entry was
broadcast exactly once, after the horizon no TTL key is left, and the expiry broadcasts are exactly those of
the reference map.
"""
import json
import os
import sys

HERE = os.path.dirname(os.path.abspath(__file__))
sys.path.insert(0, os.path.join(HERE, "..", "C20"))
import maplib  # noqa: E402
import refmap  # noqa: E402

KEYS = [b"k1", b"k2", b"k3"]


def hx(b):
    return b.hex() if b else "-"


def pub(ch, key, dt, data, mode="r", rtos=0, tag=0, score=0):
    return "pub ch=%d key=%s dt=%d data=%d tag=%d score=%d mode=%s rtos=%d ver=0 vep=0 idem=0 ittl=0 cas=- delta=0" % (
        ch, hx(key), dt, data, tag, score, mode, rtos)


def gen_scenario(rng, nops=30):
    ttls = [700, 1000, 1300, 2500, 999, 1001]
    cfg = ["R:%d:%d:%d" % (rng.choice(ttls), rng.choice([0, 0, 0, 2]), rng.randint(0, 1)),
           "E:%d:0:%d" % (rng.choice(ttls), rng.randint(0, 1)),
           rng.choice(["R:%d:0:0" % rng.choice(ttls), "E:%d:0:1" % rng.choice(ttls), "P:0:0:0"])]
    lines = ["reset " + " ".join("c%d=%s" % (i, c) for i, c in enumerate(cfg))]
    ref = refmap.Ref()
    ref.line(lines[0])

    def emit(l):
        lines.append(l)
        ref.line(l)
    for i in range(nops):
        ch = rng.choice([0, 0, 1, 1, 2])
        key = rng.choice(KEYS)
        # choose the instant: around a deadline or a sweeper tick
        dt = rng.randint(1, 40)
        live = [(c, k, e["expire"]) for c, cc in ref.chans.items() for k, e in cc.state.items() if e["expire"] > 0]
        if live and rng.random() < 0.7:
            c2, k2, exp = rng.choice(live)
            tick = (exp + 999) // 1000 * 1000
            target = rng.choice([exp - 2, exp - 1, exp, exp + 1, tick - 1, tick, tick + 1, tick + 999, tick + 1000])
            if target - ref.now >= 1:
                dt = target - ref.now
                if rng.random() < 0.8:
                    ch, key = c2, k2
        r = rng.random()
        if r < 0.30:
            emit(pub(ch, key, dt, i + 1, tag=rng.choice([0, 0, 5]), score=rng.randint(-2, 2)))
        elif r < 0.50:
            emit(pub(ch, key, dt, i + 1, mode="n", rtos=1))          # keep-alive (refresh on suppress)
        elif r < 0.58:
            emit(pub(ch, key, dt, i + 1, mode="n", rtos=0))          # suppressed, no refresh
        elif r < 0.66:
            emit(pub(ch, key, dt, i + 1, mode="x"))                  # update only if present (refreshes)
        elif r < 0.80:
            emit("rm ch=%d key=%s dt=%d idem=0 ittl=0 cas=- tag=%d" % (ch, hx(key), dt, rng.choice([0, 0, 9])))
        elif r < 0.84:
            emit("clear ch=%d dt=%d" % (ch, dt))
        elif r < 0.92:
            emit("state ch=%d dt=%d lim=-1 cur=- key=- asc=0 rev=-" % (ch, dt))
        else:
            emit("adv dt=%d" % dt)
    emit("adv dt=4000")   # beyond every deadline (max TTL 2500 + one tick)
    for ch in range(3):
        emit("state ch=%d dt=0 lim=-1 cur=- key=- asc=0 rev=-" % ch)
        emit("stream ch=%d dt=0 since=- lim=-1 rev=0" % ch)
    return lines


def gen_hook_scenario(rng):
    """Interleavings inside one sweep, gated by the event handler: two keys X, Y of two channels with different
    publish locks become due in the same sweep with distinct deadlines (X first).  A hook on X's expiry removal
    issues an operation on Y *after phase 1 collected Y and before phase 2 processes it* (republish, keep-alive,
    if_exists update, remove, clear, unrelated key, suppressed if_new).  A `co` hook republishes a key of the SAME
    channel from another goroutine while its removal broadcast is in flight (publish-lock ordering)."""
    while True:
        ttl = [rng.randint(400, 990) + rng.choice([0, 1000]), 0, rng.choice([500, 700, 1500])]
        ttl[1] = ttl[0] // 1000 * 1000 + rng.randint(400, 990)
        ta = rng.randint(1, 30)
        tb = ta + rng.randint(1, 30)
        da, db = ta + ttl[0], tb + ttl[1]
        if da != db and (da + 999) // 1000 == (db + 999) // 1000:
            break
    modes = [rng.choice("RRE"), rng.choice("RRE"), rng.choice("RE")]
    lines = ["reset " + " ".join("c%d=%s:%d:0:%d" % (i, modes[i], ttl[i], rng.randint(0, 1)) for i in range(3))]
    ref = refmap.Ref()
    ref.line(lines[0])

    def emit(l):
        lines.append(l)
        ref.line(l)
    kx, ky, kz = KEYS
    emit(pub(0, kx, ta, 1, tag=rng.choice([0, 5])))
    emit(pub(1, ky, tb - ta, 2, tag=rng.choice([0, 5])))
    first, second = (0, 1) if da < db else (1, 0)
    if rng.random() < 0.5:
        # a bystander key, due in the same or next sweep.  It lives in the FIRST key's channel: after a concurrent
        # (`co`) reaction the sweeper and the reacting goroutine race for the publish lock of that channel, so the
        # concurrently republished key must be the last due key of its channel in that sweep
        bch, bdt = first, rng.randint(1, 20)
        if ref.now + bdt + ttl[bch] not in (da, db):                  # no equal deadlines: heap tie order is unspecified
            emit(pub(bch, kz, bdt, 3))
    kf, ks = (kx, ky) if first == 0 else (ky, kx)
    rco = rng.random()
    r = rng.random()
    if rco < 0.6:
        r *= 0.9    # with a concurrent reaction on that channel no second publish may land there in the same ms (deadline tie)
    if r < 0.25:
        op = pub(second, ks, 0, 10)                                   # republish before phase 2 reaches it
    elif r < 0.45:
        op = pub(second, ks, 0, 11, mode="n", rtos=1)                 # keep-alive
    elif r < 0.55:
        op = pub(second, ks, 0, 12, mode="x")                         # if_exists update
    elif r < 0.65:
        op = pub(second, ks, 0, 13, mode="n", rtos=0)                 # suppressed without refresh: still expires
    elif r < 0.80:
        op = "rm ch=%d key=%s dt=0 idem=0 ittl=0 cas=- tag=0" % (second, hx(ks))
    elif r < 0.90:
        op = "clear ch=%d dt=0" % second
    else:
        op = pub(second, kz, 0, 14)
    emit("hook ch=%d key=%s kind=in dt=%d | %s" % (first, hx(kf), rng.randint(0, 3), op))
    r = rco
    if r < 0.45:
        # while the removal of the second key is being delivered, the same key is republished concurrently
        emit("hook ch=%d key=%s kind=co dt=0 | %s" % (second, hx(ks), pub(second, ks, 0, 20, tag=rng.choice([0, 7]))))
    elif r < 0.6:
        emit("hook ch=%d key=%s kind=co dt=0 | %s" % (second, hx(ks), pub(second, kz, 0, 21)))
    tick = (max(da, db) + 999) // 1000 * 1000
    emit("adv dt=%d" % (tick - ref.now + rng.choice([0, 1, 500])))
    for ch in (0, 1):
        emit("state ch=%d dt=0 lim=-1 cur=- key=- asc=0 rev=-" % ch)
    if rng.random() < 0.5:
        emit(pub(second, ks, rng.randint(1, 50), 30, mode=rng.choice("rn"), rtos=1))
    emit("adv dt=9000")     # beyond every deadline, also of keys republished by a hook that fires late
    for ch in range(3):
        emit("state ch=%d dt=0 lim=-1 cur=- key=- asc=0 rev=-" % ch)
        emit("stream ch=%d dt=0 since=- lim=-1 rev=0" % ch)
    return lines


def parse_bcs(s):
    out = []
    if s in ("-", None):
        return out
    for b in s.split(","):
        if b.startswith("hk:"):      # result of a hooked operation, not a broadcast
            continue
        p = b.split("/")
        # ch/key/off/removed/data/tag/score/time/pos/delta/prev
        out.append({"ch": int(p[0]), "key": p[1], "off": int(p[2]), "rm": p[3] == "1", "time": int(p[7]), "pos": p[8]})
    return out


def oracle(lines, im):
    cfgs = {}
    bcast = {}       # (ch, epoch, off) -> count, stream-backed channels
    for l, o in zip(lines, im):
        ws = l.split()
        if ws[0] == "reset":
            cfgs = {int(w.split("=")[0][1:]): w.split("=")[1].split(":") for w in ws[1:]}
            continue
        f = maplib.fields(o)
        for b in parse_bcs(f.get("sw")) + parse_bcs(f.get("bc")):
            mode = cfgs.get(b["ch"], ["U"])[0]
            if mode in "RP":
                k = (b["ch"], b["pos"].split(":")[1], b["off"])
                bcast[k] = bcast.get(k, 0) + 1
                if b["pos"].split(":")[0] != str(b["off"]):
                    return ("broadcast position %s differs from the publication offset %d" % (b["pos"], b["off"]),
                            {"what": "bcast-offset", "removed": b["rm"]})
        for b in parse_bcs(f.get("sw")):
            if not b["rm"] and "hk:" not in f.get("sw", ""):   # a hooked operation's own broadcast is expected there
                return ("the sweeper broadcast a non-removal", {"what": "sweep-nonremoval"})
    for k, n in bcast.items():
        if n != 1:
            return ("stream entry %s of channel %d was broadcast %d times" % (k[2], k[0], n), {"what": "bcast-count", "n": n})
    # final reads (last 6 lines): state must be empty for TTL channels, stream alternation per key
    tail = list(zip(lines, im))[-6:]
    for l, o in tail:
        ws = l.split()
        kv = refmap.kvs(ws[1:])
        f = maplib.fields(o)
        ch = int(kv["ch"])
        mode = cfgs.get(ch, ["U"])[0]
        if f.get("status") != "ok":
            continue
        if ws[0] == "state" and mode in "ER" and f["pubs"] != "-":
            return ("key(s) %s still in the state %d ms after the last operation although every TTL elapsed (lost expiry)" % (f["pubs"], 4000),
                    {"what": "lost-expiry", "mode": mode})
        if ws[0] == "stream" and mode in "RP" and f["pubs"] != "-":
            ents = [p.split("/") for p in f["pubs"].split(",")]
            full = ents[0][1] == "1"   # the stream is seen from its first offset
            alive = {}
            for e in ents:
                key, off, rm = e[0], int(e[1]), e[2] == "1"
                if key == "-":
                    continue
                if rm:
                    if alive.get(key) is False or (full and key not in alive):
                        return ("key %s removed twice in a row / removed while absent (stream offset %d)" % (key, off),
                                {"what": "double-removal", "mode": mode})
                    alive[key] = False
                else:
                    alive[key] = True
            ep = f["pos"].split(":")[1]
            for e in ents:
                if bcast.get((ch, ep, int(e[1])), 0) != 1:
                    return ("stream entry %s of channel %d was broadcast %d times" % (e[1], ch, bcast.get((ch, ep, int(e[1])), 0)),
                            {"what": "bcast-count", "n": bcast.get((ch, ep, int(e[1])), 0)})
    return None


def run(ctx):
    ctx.rule = ("timelines of 30 ops over 3 channels (recoverable / ephemeral / third random; key TTL in {700, 999, 1000, 1001, 1300, "
                "2500} ms) and 3 keys; 70% of the instants are chosen relative to a live key's deadline d or the sweeper tick t "
                "after it: d-2, d-1, d, d+1, t-1, t, t+1, t+999, t+1000; ops: publish, keep-alive (if_new + RefreshTTLOnSuppress), "
                "suppressed if_new without refresh, if_exists update, remove, clear, read; finally the clock runs 4 s past every "
                "deadline and state + stream of every channel are read; non-trivial = at least one expiry removal and one refresh "
                "or removal within 2 ms of a deadline/tick; distinct = distinct scenario text.  PLUS interleaving scenarios gated by "
                "the event handler (`hook` lines): two keys of two channels due in the same sweep with distinct deadlines; "
                "inside the HandlePublication call of the first removal (after phase 1 collected both, before phase 2 "
                "reaches the second) the second key is republished / kept alive / updated / removed / its channel cleared / "
                "a suppressed if_new is issued; and a concurrent republish of the same key while its expiry removal is "
                "being delivered (publish-lock ordering of broadcasts).  The Lean driver replays them as label sequences "
                "phase1; phase2; pub|rm|clear; phase2 ... of Model/MapExpiry.lean")
    ctx.assumptions = [
        "interleavings driven on the real code are those reachable through the event handler as a gate: an operation "
        "between two phase-2 regions of one sweep (after phase 1) and a concurrent publish during the removal's dispatch; "
        "an operation between phase 1 and the FIRST phase-2 region cannot be placed without a source hook and is covered "
        "by the Lean theorems over the model's labels only",
        "publishes are at least 1 ms apart (two keys of a channel never share a deadline)",
        "stream TTL / meta TTL sweeps are outside the model (StreamTTL = 1h in the harness)"]
    proofs_ok = ctx.lean_obligations()
    binary = maplib.build(ctx)
    if binary is None:
        ctx.violation("correspondence", "harness no longer builds against package centrifuge",
                      signature={"kind": "harness-build"}, replay={"log": getattr(ctx, "build_error", "")}, no_input=True)
        return
    if ctx.replay:
        ops = json.load(open(ctx.replay)).get("ops", [])
    else:
        corpus = [l.rstrip("\n") for l in open(os.path.join(HERE, "corpus.ops")) if l.strip() and not l.startswith("#")]
        ops = list(corpus)
        for _ in range(ctx.scale(500, 10000)):
            ops += gen_scenario(ctx.rng)
        for _ in range(ctx.scale(400, 6000)):
            ops += gen_hook_scenario(ctx.rng)

    def nontrivial(lines, im):
        exp = sum(1 for o in im if o.startswith("sw=") and not o.startswith("sw=- "))
        return exp >= 1 and any(" mode=n rtos=1" in l or l.startswith("rm") for l in lines)
    maplib.DRIVER = "drv_c24"

    def orc(lines, im):
        # replay files / corpus scenarios may not end with the six final reads
        if len(lines) < 8 or not lines[-1].startswith("stream") or not lines[-7].startswith("adv"):
            return None
        return oracle(lines, im)
    _, _, model_ok = maplib.compare_all(ctx, binary, ops, "key expiry deviates from the reference (exactly-once removal)", nontrivial,
                                        extra_oracle=orc, driver_name="Drivers/C24.lean (Model/MapHub.lean)")
    if not (proofs_ok and model_ok):
        ctx.proof_broken()
