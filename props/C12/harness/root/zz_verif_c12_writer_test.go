//go:build verif

package centrifuge

// Verification harness for C12, writer part (injected with `go test -overlay`, never part of the repo).
// Drives the real `writer` (writer.go) with recording WriteFn/WriteManyFn inside a synctest bubble
// (write delay, flush timer and shrink timer are virtual).  One op per line; see
// /verif/lean/Drivers/C12.lean for the protocol.  After every op the bubble is brought to rest
// (`synctest.Wait`), so the transport calls made during the op are well defined.
//
// In the goroutine modes the `Add`+`Size()` pair of an `enq` is executed while the harness holds
// `w.mu`, which keeps the flusher out of its critical section in between (one particular, legal
// schedule) and so makes the slow-consumer decision reproducible.  Concurrent scenarios (`conc=1`)
// take no such lock; they are judged by the oracle only.

import (
	"bufio"
	"errors"
	"fmt"
	"os"
	"runtime"
	"sort"
	"strconv"
	"strings"
	"sync"
	"testing"
	"testing/synctest"
	"time"

	"github.com/centrifugal/centrifuge/internal/queue"
)

type verifC12Rec struct {
	mu       sync.Mutex
	calls    []string
	failNext bool
	// transport calls in progress; overlap = two at the same time
	inWrite int
	overlap bool
	// gate: the next transport call blocks (inside the call) until released
	gateArmed bool
	entered   chan struct{}
	gate      chan struct{}
}

func (r *verifC12Rec) ids(items []queue.Item) string {
	s := make([]string, 0, len(items))
	for _, i := range items {
		if i.Key == "" {
			s = append(s, "0")
		} else {
			s = append(s, i.Key)
		}
	}
	return "[" + strings.Join(s, ",") + "]"
}

func (r *verifC12Rec) record(kind string, items []queue.Item) error {
	r.mu.Lock()
	r.inWrite++
	if r.inWrite > 1 {
		r.overlap = true
	}
	var gate chan struct{}
	if r.gateArmed {
		r.gateArmed = false
		gate = r.gate
		close(r.entered)
	}
	r.mu.Unlock()
	if gate != nil {
		<-gate // a slow transport write; the call counts as delivered when it completes
	}
	r.mu.Lock()
	defer r.mu.Unlock()
	r.inWrite--
	if r.failNext {
		r.failNext = false
		r.calls = append(r.calls, kind+"F"+r.ids(items))
		return errors.New("verif: write failed")
	}
	r.calls = append(r.calls, kind+r.ids(items))
	return nil
}

func (r *verifC12Rec) take() string {
	r.mu.Lock()
	defer r.mu.Unlock()
	if len(r.calls) == 0 {
		return "tx=-"
	}
	s := "tx=" + strings.Join(r.calls, ";")
	r.calls = nil
	return s
}

type verifC12W struct {
	w     *writer
	rec   *verifC12Rec
	conc  bool
	timer bool
}

func verifC12KV(ws []string, k string) (int, bool) {
	for _, w := range ws {
		if strings.HasPrefix(w, k+"=") {
			n, err := strconv.Atoi(w[len(k)+1:])
			return n, err == nil
		}
	}
	return 0, false
}

func verifC12WItem(w string) (queue.Item, bool) {
	p := strings.Split(w, ":")
	if len(p) != 2 {
		return queue.Item{}, false
	}
	id, err := strconv.ParseUint(p[0], 10, 64)
	if err != nil {
		return queue.Item{}, false
	}
	sz, err := strconv.ParseUint(p[1], 10, 31)
	if err != nil {
		return queue.Item{}, false
	}
	return queue.Item{Data: make([]byte, sz), Key: strconv.FormatUint(id, 10)}, true
}

func verifC12Res(d *Disconnect) string {
	switch {
	case d == nil:
		return "ok"
	case d.Code == DisconnectSlow.Code:
		return "slow"
	case d.Code == DisconnectConnectionClosed.Code:
		return "closed"
	}
	return fmt.Sprintf("other(%d)", d.Code)
}

func (h *verifC12W) stop() {
	if h.w != nil {
		_ = h.w.close(false)
		synctest.Wait()
		h.w = nil
	}
}

func (h *verifC12W) tail() string {
	return h.rec.take() + " qlen=" + strconv.Itoa(h.w.messages.Len())
}

func (h *verifC12W) step(ws []string) (res string) {
	defer func() {
		if r := recover(); r != nil {
			res = fmt.Sprintf("PANIC")
		}
	}()
	if len(ws) == 0 {
		return "bad-op"
	}
	if ws[0] == "new" {
		delay, ok1 := verifC12KV(ws, "delay")
		timer, ok2 := verifC12KV(ws, "timer")
		max, ok3 := verifC12KV(ws, "max")
		shrink, ok4 := verifC12KV(ws, "shrink")
		maxq, ok5 := verifC12KV(ws, "maxq")
		capv, ok6 := verifC12KV(ws, "cap")
		conc, ok7 := verifC12KV(ws, "conc")
		if !(ok1 && ok2 && ok3 && ok4 && ok5 && ok6 && ok7) || delay < 0 || maxq < 0 || capv < 0 {
			return "bad-op"
		}
		h.stop()
		rec := &verifC12Rec{}
		h.rec = rec
		h.conc = conc != 0
		w := newWriter(writerConfig{
			MaxQueueSize: maxq,
			WriteFn:      func(item queue.Item) error { return rec.record("W", []queue.Item{item}) },
			WriteManyFn:  func(items ...queue.Item) error { return rec.record("WM", items) },
		}, capv)
		h.w = w
		wd := time.Duration(delay) * time.Millisecond
		sd := time.Duration(shrink) * time.Millisecond
		h.timer = delay > 0 && timer != 0
		if h.timer {
			w.run(wd, max, sd, true)
		} else {
			go w.run(wd, max, sd, false)
		}
		synctest.Wait()
		if h.conc {
			return "skip"
		}
		return "new"
	}
	if h.w == nil {
		return "bad-op"
	}
	w := h.w
	switch {
	case ws[0] == "enq" && len(ws) == 2:
		it, ok := verifC12WItem(ws[1])
		if !ok {
			return "bad-op"
		}
		if !h.timer {
			w.mu.Lock()
		}
		d := w.enqueue(it)
		if !h.timer {
			w.mu.Unlock()
		}
		synctest.Wait()
		return "res=" + verifC12Res(d) + " " + h.tail()
	case ws[0] == "enqmany":
		var items []queue.Item
		for _, x := range ws[1:] {
			it, ok := verifC12WItem(x)
			if !ok {
				return "bad-op"
			}
			items = append(items, it)
		}
		if !h.timer {
			w.mu.Lock()
		}
		d := w.enqueueMany(items...)
		if !h.timer {
			w.mu.Unlock()
		}
		synctest.Wait()
		return "res=" + verifC12Res(d) + " " + h.tail()
	case ws[0] == "sleep" && len(ws) == 2:
		d, err := strconv.Atoi(ws[1])
		if err != nil || d < 0 {
			return "bad-op"
		}
		time.Sleep(time.Duration(d) * time.Millisecond)
		synctest.Wait()
		return h.tail()
	case ws[0] == "close" && len(ws) == 2:
		_ = w.close(ws[1] != "0")
		synctest.Wait()
		return h.tail()
	case ws[0] == "direct" && len(ws) == 2:
		it, ok := verifC12WItem(ws[1])
		if !ok {
			return "bad-op"
		}
		_ = w.config.WriteFn(it)
		synctest.Wait()
		return h.tail()
	case ws[0] == "gclose" && len(ws) >= 2:
		// close(flush) arriving while the flusher is inside a slow transport write of an earlier
		// message, with more messages queued behind it
		var items []queue.Item
		for _, x := range ws[1:] {
			it, ok := verifC12WItem(x)
			if !ok {
				return "bad-op"
			}
			items = append(items, it)
		}
		rec := h.rec
		rec.mu.Lock()
		rec.gateArmed = true
		rec.entered = make(chan struct{})
		rec.gate = make(chan struct{})
		entered, gate := rec.entered, rec.gate
		rec.mu.Unlock()
		d := w.enqueue(items[0])
		synctest.Wait()
		in := false
		select {
		case <-entered:
			in = true
		default:
			rec.mu.Lock()
			rec.gateArmed = false
			rec.mu.Unlock()
		}
		for _, it := range items[1:] {
			_ = w.enqueue(it)
		}
		closeDone := make(chan struct{})
		go func() {
			_ = w.close(true)
			close(closeDone)
		}()
		if in {
			// the closer has to wait for w.mu (a mutex block is not durable, so no virtual-clock
			// wait here): give it every chance to run while the write is still in progress
			for i := 0; i < 2000; i++ {
				select {
				case <-closeDone:
					i = 2000
				default:
					runtime.Gosched()
				}
			}
			close(gate)
		}
		<-closeDone
		synctest.Wait()
		rec.mu.Lock()
		ov := 0
		if rec.overlap {
			ov = 1
		}
		rec.overlap = false
		rec.mu.Unlock()
		return "res=" + verifC12Res(d) + " overlap=" + strconv.Itoa(ov) + " " + h.tail()
	case ws[0] == "failnext" && len(ws) == 1:
		h.rec.mu.Lock()
		h.rec.failNext = true
		h.rec.mu.Unlock()
		return "failnext"
	case (ws[0] == "burst" || ws[0] == "cburst") && len(ws) >= 5:
		// burst <base> <producers> <perProducer> <size> [flush]: concurrent producers (ids
		// base+p*1000+j), optionally racing a close(flush).
		base, e0 := strconv.Atoi(ws[1])
		k, e1 := strconv.Atoi(ws[2])
		n, e2 := strconv.Atoi(ws[3])
		sz, e3 := strconv.Atoi(ws[4])
		if e0 != nil || e1 != nil || e2 != nil || e3 != nil || k < 1 || n < 1 || sz < 0 {
			return "bad-op"
		}
		var wg sync.WaitGroup
		var mu sync.Mutex
		var acc, rej, slow []int
		for p := 0; p < k; p++ {
			wg.Add(1)
			go func(p int) {
				defer wg.Done()
				for j := 0; j < n; j++ {
					id := base + p*1000 + j
					it := queue.Item{Data: make([]byte, sz), Key: strconv.Itoa(id)}
					var d *Disconnect
					if j%3 == 2 {
						d = w.enqueueMany(it)
					} else {
						d = w.enqueue(it)
					}
					mu.Lock()
					switch verifC12Res(d) {
					case "ok":
						acc = append(acc, id)
					case "slow":
						slow = append(slow, id)
					default:
						rej = append(rej, id)
					}
					mu.Unlock()
				}
			}(p)
		}
		if ws[0] == "cburst" && len(ws) == 6 {
			wg.Add(1)
			go func() {
				defer wg.Done()
				_ = w.close(ws[5] != "0")
			}()
		}
		wg.Wait()
		synctest.Wait()
		f := func(x []int) string {
			sort.Ints(x)
			s := make([]string, len(x))
			for i, v := range x {
				s[i] = strconv.Itoa(v)
			}
			return "[" + strings.Join(s, ",") + "]"
		}
		return "acc=" + f(acc) + " slow=" + f(slow) + " rej=" + f(rej) + " " + h.tail()
	}
	return "bad-op"
}

func TestVerifC12Writer(t *testing.T) {
	in, err := os.Open(os.Getenv("VERIF_OPS"))
	if err != nil {
		t.Skip("no VERIF_OPS")
	}
	defer in.Close()
	out, err := os.Create(os.Getenv("VERIF_OUT"))
	if err != nil {
		t.Fatal(err)
	}
	defer out.Close()
	bw := bufio.NewWriter(out)
	defer bw.Flush()
	var lines []string
	sc := bufio.NewScanner(in)
	sc.Buffer(make([]byte, 1<<20), 1<<26)
	for sc.Scan() {
		lines = append(lines, sc.Text())
	}
	synctest.Test(t, func(t *testing.T) {
		h := &verifC12W{}
		for _, line := range lines {
			if line == "" || strings.HasPrefix(line, "#") {
				fmt.Fprintln(bw, "#")
				continue
			}
			ws := strings.Fields(line)
			if len(ws) < 2 || ws[0] != "w" {
				fmt.Fprintln(bw, "bad-op")
				continue
			}
			fmt.Fprintln(bw, h.step(ws[1:]))
		}
		h.stop()
	})
}
