//go:build verif

package queue

// Verification harness for C12, queue part (injected with `go test -overlay`, never part of the repo).
// One op per line from $VERIF_OPS, one canonical line per op to $VERIF_OUT; see
// /verif/lean/Drivers/C12.lean for the protocol.  The whole run happens inside a synctest bubble so
// the delayed-shrink timer of FinishCollect runs on a virtual clock (`q sleep <ms>`).

import (
	"bufio"
	"fmt"
	"os"
	"strconv"
	"strings"
	"testing"
	"testing/synctest"
	"time"
)

func verifC12Item(w string) (Item, bool) {
	p := strings.Split(w, ":")
	if len(p) != 2 {
		return Item{}, false
	}
	id, err := strconv.ParseUint(p[0], 10, 64)
	if err != nil {
		return Item{}, false
	}
	sz, err := strconv.ParseUint(p[1], 10, 31)
	if err != nil {
		return Item{}, false
	}
	return Item{Data: make([]byte, sz), Key: strconv.FormatUint(id, 10)}, true
}

func verifC12ID(i Item) string {
	if i.Key == "" {
		return "0"
	}
	return i.Key
}

func verifC12IDs(is []Item) string {
	s := make([]string, 0, len(is))
	for _, i := range is {
		s = append(s, verifC12ID(i))
	}
	return "[" + strings.Join(s, ",") + "]"
}

func verifC12State(q *Queue) string {
	q.mu.RLock()
	defer q.mu.RUnlock()
	c := 0
	if q.closed {
		c = 1
	}
	return fmt.Sprintf("len=%d cap=%d size=%d h=%d t=%d closed=%d", q.cnt, len(q.nodes), q.size, q.head, q.tail, c)
}

func verifC12QStep(qp **Queue, ws []string) (res string) {
	defer func() {
		if r := recover(); r != nil {
			// the queue mutex may still be held by the panicking call: abandon the queue
			*qp = nil
			res = "PANIC"
		}
	}()
	q := *qp
	if len(ws) == 0 {
		return "bad-op"
	}
	if ws[0] != "new" && q == nil {
		return "bad-op"
	}
	atoi := func(s string) (int, bool) {
		n, err := strconv.Atoi(s)
		return n, err == nil
	}
	opt := func(is []Item, ok bool) string {
		if !ok {
			return "items=none"
		}
		return "items=" + verifC12IDs(is)
	}
	b2 := func(b bool) string {
		if b {
			return "ok=1"
		}
		return "ok=0"
	}
	switch {
	case ws[0] == "new" && len(ws) == 2:
		n, ok := atoi(ws[1])
		if !ok || n < 0 {
			return "bad-op"
		}
		if q != nil {
			q.Close()
		}
		q = New(n)
		*qp = q
		return "new " + verifC12State(q)
	case ws[0] == "add" && len(ws) == 2:
		it, ok := verifC12Item(ws[1])
		if !ok {
			return "bad-op"
		}
		return b2(q.Add(it)) + " " + verifC12State(q)
	case ws[0] == "addmany":
		var items []Item
		for _, w := range ws[1:] {
			it, ok := verifC12Item(w)
			if !ok {
				return "bad-op"
			}
			items = append(items, it)
		}
		return b2(q.AddMany(items...)) + " " + verifC12State(q)
	case ws[0] == "rm" && len(ws) == 1:
		it, ok := q.Remove()
		if !ok {
			return "item=none " + verifC12State(q)
		}
		return "item=" + verifC12ID(it) + " " + verifC12State(q)
	case ws[0] == "rmmany" && len(ws) == 2:
		m, ok := atoi(ws[1])
		if !ok || m < -1 {
			return "bad-op"
		}
		is, ok2 := q.RemoveMany(m)
		return opt(is, ok2) + " " + verifC12State(q)
	case (ws[0] == "into" || ws[0] == "intoshrink") && len(ws) == 3:
		bl, ok := atoi(ws[1])
		m, ok1 := atoi(ws[2])
		if !ok || !ok1 || bl < 0 || m < -1 {
			return "bad-op"
		}
		buf := make([]Item, bl)
		var n int
		var ok2 bool
		if ws[0] == "into" {
			n, ok2 = q.RemoveManyInto(buf, m)
		} else {
			n, ok2 = q.RemoveManyIntoShrink(buf, m)
		}
		if n < 0 || n > len(buf) {
			return fmt.Sprintf("items=badcount(%d) %s", n, verifC12State(q))
		}
		return opt(buf[:n], ok2) + " " + verifC12State(q)
	case ws[0] == "finish" && len(ws) == 2:
		d, ok := atoi(ws[1])
		if !ok || d < 0 {
			return "bad-op"
		}
		q.FinishCollect(time.Duration(d) * time.Millisecond)
		return "finish " + verifC12State(q)
	case ws[0] == "sleep" && len(ws) == 2:
		d, ok := atoi(ws[1])
		if !ok || d < 0 {
			return "bad-op"
		}
		time.Sleep(time.Duration(d) * time.Millisecond)
		synctest.Wait()
		return "sleep " + verifC12State(q)
	case ws[0] == "close" && len(ws) == 1:
		q.Close()
		return "close " + verifC12State(q)
	case ws[0] == "closerem" && len(ws) == 1:
		rem := q.CloseRemaining()
		return "rem=" + verifC12IDs(rem) + " " + verifC12State(q)
	}
	return "bad-op"
}

func TestVerifC12Queue(t *testing.T) {
	in, err := os.Open(os.Getenv("VERIF_OPS"))
	if err != nil {
		t.Skip("no VERIF_OPS")
	}
	defer in.Close()
	out, err := os.Create(os.Getenv("VERIF_OUT"))
	if err != nil {
		t.Fatal(err)
	}
	defer out.Close()
	w := bufio.NewWriter(out)
	defer w.Flush()
	var lines []string
	sc := bufio.NewScanner(in)
	sc.Buffer(make([]byte, 1<<20), 1<<26)
	for sc.Scan() {
		lines = append(lines, sc.Text())
	}
	synctest.Test(t, func(t *testing.T) {
		var q *Queue
		for _, line := range lines {
			if line == "" || strings.HasPrefix(line, "#") {
				fmt.Fprintln(w, "#")
				continue
			}
			ws := strings.Fields(line)
			if len(ws) < 2 || ws[0] != "q" {
				fmt.Fprintln(w, "bad-op")
				continue
			}
			fmt.Fprintln(w, verifC12QStep(&q, ws[1:]))
		}
		if q != nil {
			q.Close()
		}
	})
}
