"""C12 — the per-connection write path delivers messages exactly.

Proof: lean/CentrifugeVerif/Props/C12.lean over Model/Queue.lean + Model/Writer.lean.
Tie (checked on every run):
  (a) internal/queue.Queue vs the Lean ring model, op by op (results *and* len/cap/size/head/tail),
      inside a synctest bubble so the delayed-shrink timer is on a virtual clock;
  (b) the real `writer` (writer.go) with recording WriteFn/WriteManyFn vs the Lean writer model run to
      quiescence after every op (all modes), plus concurrent bursts judged by the oracle only.
Oracle: the property statement evaluated on the implementation's outputs (a FIFO reference for the
queue; "transport sequence = prefix of the enqueued sequence, everything after close-with-flush,
slow-consumer exactly when over the limit" for the writer).
"""
import json
import os
import sys

sys.path.insert(0, os.path.dirname(__file__))
from vlib.core import diff_lines, ddmin  # noqa: E402
import c12gen  # noqa: E402


def split_scenarios(ops):
    """Group op lines into scenarios starting at `q new` / `w new`."""
    scs, cur = [], []
    for op in ops:
        ws = op.split()
        if len(ws) >= 2 and ws[1] == "new" and cur:
            scs.append(cur)
            cur = []
        cur.append(op)
    if cur:
        scs.append(cur)
    return scs


def run(ctx):
    ctx.rule = ("queue: random op scenarios (add/addmany bursts across doubling boundaries, remove/rmmany/into/"
                "intoshrink with max in {-1,0,1,..,cnt+1} and short buffers, immediate and delayed shrink with "
                "virtual sleeps, close/closerem mid-stream, ops after close); writer: random scenarios over "
                "mode in {direct, delay-goroutine, timer} x maxMessagesInFrame x queue cap x shrink delay x "
                "MaxQueueSize, ops enq/enqmany/sleep/close(flush?)/direct and concurrent bursts; "
                "non-trivial = scenario with a resize or a close or a batch >1; distinct = distinct scenario text")
    ctx.assumptions = [
        "queue.New(0) (Add panics, AddMany/FinishCollect(0) spin) is outside the model: newWriter maps 0 to 2",
        "RemoveMany*/maxItems < -1 is outside the model (the writer never passes it)",
        "writer model: a failing transport write ends every guarantee (as the statement says)",
        "liveness (an armed timer eventually fires) is a runtime assumption",
    ]
    proofs_ok = ctx.lean_obligations()
    qbin = ctx.go_test_binary("internal/queue", ["props/C12/harness/internal__queue/zz_verif_c12_queue_test.go"])
    wbin = ctx.go_test_binary(".", ["props/C12/harness/root/zz_verif_c12_writer_test.go"])
    if qbin is None or wbin is None:
        ctx.violation("correspondence", "harness no longer builds against internal/queue or writer.go",
                      signature={"kind": "harness-build"}, replay={"log": getattr(ctx, "build_error", "")},
                      no_input=True)
        return
    here = os.path.dirname(__file__)
    if ctx.replay:
        ops = json.load(open(ctx.replay)).get("ops", [])
        scenarios = split_scenarios(ops)
    else:
        corpus = [l.rstrip("\n") for l in open(os.path.join(here, "corpus.ops"))
                  if l.strip() and not l.startswith("#")]
        scenarios = split_scenarios(corpus)
        nq = ctx.scale(1500, 20000)
        nw = ctx.scale(1200, 12000)
        scenarios += [c12gen.gen_queue_scenario(ctx.rng) for _ in range(nq)]
        scenarios += [c12gen.gen_writer_scenario(ctx.rng) for _ in range(nw)]
    qs = [s for s in scenarios if s[0].startswith("q ")]
    wsn = [s for s in scenarios if s[0].startswith("w ")]
    nviol = [0]
    for fam, scs, binary, test in (("q", qs, qbin, "TestVerifC12Queue"), ("w", wsn, wbin, "TestVerifC12Writer")):
        if not scs:
            continue
        ops = [op for s in scs for op in s]
        impl = ctx.go_run(binary, test, ops)
        model = ctx.lean_run(ops)
        if model is None:
            proofs_ok = False
            model = []
        if len(impl) < len(ops):
            ctx.notes.append(f"{fam}: implementation produced {len(impl)} of {len(ops)} lines; "
                             f"crash={str(ctx.last_go_crash)[-400:]}")
        pos = 0
        for s in scs:
            out = impl[pos:pos + len(s)]
            mout = model[pos:pos + len(s)]
            pos += len(s)
            judge(ctx, fam, s, out, mout, binary, test, nviol)
        ctx.traces_validated += len(scs)
    if not proofs_ok:
        ctx.proof_broken()


def judge(ctx, fam, sc, out, mout, binary, test, nviol):
    oracle = c12gen.queue_oracle if fam == "q" else c12gen.writer_oracle
    canon = c12gen.queue_canon if fam == "q" else c12gen.writer_canon
    out = out + ["<missing>"] * (len(sc) - len(out))
    info = c12gen.scenario_info(fam, sc, out)
    ctx.record("\n".join(sc), nontrivial=info["nontrivial"])
    for k in info["counts"]:
        ctx.count(k, info["counts"][k])
    msg = oracle(sc, out)
    if msg:
        nviol[0] += 1
        if nviol[0] <= 3:
            def fails(sub):
                if not sub or not sub[0].split()[1] == "new":
                    sub = [sc[0]] + [x for x in sub if x != sc[0]]
                o = ctx.go_run(binary, test, sub)
                o = o + ["<missing>"] * (len(sub) - len(o))
                return oracle(sub, o) is not None
            small = sc
            try:
                if fails(sc):
                    small = ddmin(sc, fails)
                    if small[0] != sc[0]:
                        small = [sc[0]] + small
            except Exception as e:  # shrinking is best effort
                ctx.notes.append(f"shrink failed: {e}")
            sout = ctx.go_run(binary, test, small)
            sout = sout + ["<missing>"] * (len(small) - len(sout))
            smsg = oracle(small, sout) or msg
            ctx.violation("property", smsg, signature=c12gen.signature(fam, small, smsg),
                          replay={"ops": small, "impl": sout, "original": sc})
        return
    if mout and not (fam == "w" and "conc=1" in sc[0]):
        a = [canon(op, x) for op, x in zip(sc, out)]
        b = [canon(op, x) for op, x in zip(sc, mout + ["<missing>"] * (len(sc) - len(mout)))]
        for i, op, x, y in diff_lines(sc, a, b):
            ctx.extra["disagreements"] = ctx.extra.get("disagreements", 0) + 1
            if ctx.extra["disagreements"] <= 3:
                ctx.violation("correspondence",
                              f"model and implementation differ at `{op}`: impl `{x}` model `{y}`",
                              signature={"kind": "diff", "family": fam, "op": op.split()[1]},
                              replay={"ops": sc[:i + 1], "impl": out[:i + 1], "model": mout[:i + 1],
                                      "correspondence": "Drivers/C12.lean vs internal/queue + writer.go"},
                              no_input=True)
            break
