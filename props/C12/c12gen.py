"""Generators, canonicalisation and statement-level oracles for C12 (queue + writer)."""

# ----------------------------------------------------------------------------- queue

def gen_queue_scenario(rng):
    cap0 = rng.choice([1, 1, 2, 2, 2, 3, 4, 5, 8, 16])
    ops = [f"q new {cap0}"]
    nid = [0]
    live = [0]      # approximate number of queued items (only steers the generator)
    closed = [False]

    def item():
        nid[0] += 1
        return f"{nid[0]}:{rng.choice([0, 0, 1, 1, 2, 3, 7, 100, 65536])}"

    def maxarg():
        n = live[0]
        return rng.choice([-1, -1, 0, 1, 2, 3, max(0, n - 1), n, n + 1, 2 * n + 1, 1000])

    n_ops = rng.choice([6, 12, 25, 40, 80])
    phase = "mixed"
    for _ in range(n_ops):
        if rng.random() < 0.15:
            phase = rng.choice(["grow", "drain", "mixed", "mixed"])
        r = rng.random()
        if phase == "grow":
            r *= 0.45
        elif phase == "drain":
            r = 0.45 + r * 0.45
        if r < 0.25:
            ops.append("q add " + item())
            live[0] += 1
        elif r < 0.45:
            k = rng.choice([0, 1, 2, 3, 4, 5, 7, 8, 9, 15, 16, 17, 33])
            ops.append("q addmany " + " ".join(item() for _ in range(k)))
            live[0] += k
        elif r < 0.58:
            ops.append("q rm")
            live[0] = max(0, live[0] - 1)
        elif r < 0.68:
            m = maxarg()
            ops.append(f"q rmmany {m}")
            live[0] = 0 if m == -1 else max(0, live[0] - m)
        elif r < 0.78:
            m = maxarg()
            b = rng.choice([0, 1, 2, 3, 4, 16, max(1, live[0]), 4096])
            ops.append(f"q {rng.choice(['into', 'intoshrink'])} {b} {m}")
            take = live[0] if m == -1 else min(live[0], m)
            live[0] -= min(take, b)
        elif r < 0.86:
            ops.append(f"q finish {rng.choice([0, 0, 1, 5, 1000])}")
        elif r < 0.93:
            ops.append(f"q sleep {rng.choice([0, 1, 4, 5, 999, 1000, 2000])}")
        elif r < 0.96:
            ops.append("q close" if rng.random() < 0.5 else "q closerem")
            live[0] = 0
            closed[0] = True
        else:
            ops.append("q add " + item())
            live[0] += 1
    if rng.random() < 0.3:
        ops.append("q closerem")
    return ops


def parse_state(line):
    kv = {}
    for w in line.split()[1:]:
        if "=" in w:
            k, v = w.split("=", 1)
            kv[k] = v
    return kv


def parse_ids(s):
    s = s.strip("[]")
    return [int(x) for x in s.split(",") if x]


def queue_oracle(sc, out):
    """FIFO reference: every removal returns exactly the oldest queued items in order, nothing is lost or
    duplicated, `size` is the byte sum, `len` the item count; closed queue refuses adds."""
    fifo, sizes, closed = [], {}, False
    cap0 = None
    for op, o in zip(sc, out):
        ws = op.split()[1:]
        if o == "<missing>":
            return f"no output for `{op}` (crash or hang)"
        if o == "PANIC":
            return f"panic at `{op}`"
        if o == "bad-op":
            return None if ws[0] not in ("new",) else "harness rejected op " + op
        res = o.split()[0]
        st = parse_state(o)
        if ws[0] == "new":
            fifo, closed, cap0 = [], False, int(ws[1])
        elif ws[0] in ("add", "addmany"):
            items = [(int(w.split(":")[0]), int(w.split(":")[1])) for w in ws[1:]]
            want = "ok=0" if closed else "ok=1"
            if res != want:
                return f"`{op}` returned {res}, expected {want}"
            if not closed:
                for i, s in items:
                    sizes[i] = s
                    fifo.append(i)
        elif ws[0] == "rm":
            want = f"item={fifo[0]}" if fifo else "item=none"
            if res != want:
                return f"`{op}` returned {res}, FIFO expects {want}"
            if fifo:
                fifo.pop(0)
        elif ws[0] in ("rmmany", "into", "intoshrink"):
            m = int(ws[-1])
            k = len(fifo) if (m == -1 or len(fifo) < m) else m
            if ws[0] != "rmmany":
                k = min(k, int(ws[1]))
            want = "items=none" if not fifo else "items=[" + ",".join(map(str, fifo[:k])) + "]"
            if res != want:
                return f"`{op}` returned {res}, FIFO expects {want}"
            fifo = fifo[k:]
        elif ws[0] == "close":
            fifo, closed = [], True
        elif ws[0] == "closerem":
            want = "rem=[]" if closed else "rem=[" + ",".join(map(str, fifo)) + "]"
            if res != want:
                return f"`{op}` returned {res}, FIFO expects {want}"
            fifo, closed = [], True
        if int(st.get("len", -1)) != len(fifo):
            return f"after `{op}` Len()={st.get('len')} but {len(fifo)} items are queued"
        if int(st.get("size", -1)) != sum(sizes[i] for i in fifo):
            return f"after `{op}` Size()={st.get('size')} but queued bytes are {sum(sizes[i] for i in fifo)}"
        if (st.get("closed") == "1") != closed:
            return f"after `{op}` closed={st.get('closed')}"
        if not closed and int(st.get("cap", 0)) < max(len(fifo), 0):
            return f"after `{op}` capacity {st.get('cap')} below length"
    return None


def queue_canon(op, line):
    return line


def scenario_info(fam, sc, out):
    counts = {}
    nontrivial = False
    lastcap = None
    for op, o in zip(sc, out):
        ws = op.split()
        counts[f"{fam}:{ws[1]}"] = counts.get(f"{fam}:{ws[1]}", 0) + 1
        if fam == "q":
            st = parse_state(o)
            cap = st.get("cap")
            if lastcap is not None and cap is not None and cap != lastcap and ws[1] != "new":
                k = "q:grow" if int(cap) > int(lastcap) else ("q:shrink" if int(cap) > 0 else "q:closed")
                counts[k] = counts.get(k, 0) + 1
                nontrivial = True
            lastcap = cap
            if st.get("h") not in (None, "0") and ws[1] in ("add", "addmany") and int(st["t"]) <= int(st["h"]) \
                    and int(st.get("len", 0)) > 0:
                counts["q:wrapped"] = counts.get("q:wrapped", 0) + 1
        else:
            for w in o.split():
                if w.startswith("tx="):
                    if "WM" in w:
                        nontrivial = True
                        counts["w:batch>1"] = counts.get("w:batch>1", 0) + 1
                    if "W" in w:
                        counts["w:write-call-lines"] = counts.get("w:write-call-lines", 0) + 1
                if w.startswith("res="):
                    counts["w:res=" + w[4:]] = counts.get("w:res=" + w[4:], 0) + 1
            if ws[1] == "close":
                nontrivial = True
            if ws[1] == "new":
                kv = dict(x.split("=") for x in ws[2:])
                mode = "conc" if kv.get("conc") == "1" else (
                    "timer" if int(kv["delay"]) > 0 and kv["timer"] == "1" else
                    "delay" if int(kv["delay"]) > 0 else "direct")
                counts["w:mode=" + mode] = counts.get("w:mode=" + mode, 0) + 1
    return {"counts": counts, "nontrivial": nontrivial}


def signature(fam, sc, msg):
    import re
    return {"family": fam, "oracle": re.sub(r"\d+", "N", msg)[:80]}


# ----------------------------------------------------------------------------- writer

def gen_writer_scenario(rng):
    if rng.random() < 0.12:
        return gen_writer_concurrent(rng)
    delay = rng.choice([0, 0, 5, 10])
    timer = rng.choice([0, 1])
    mx = rng.choice([0, -1, -1, -5, 1, 2, 3, 4, 16])
    shrink = rng.choice([0, -1, 5, 1000])
    maxq = rng.choice([0, 0, 0, 5, 10, 50])
    cap = rng.choice([0, 1, 2, 4])
    ops = [f"w new delay={delay} timer={timer} max={mx} shrink={shrink} maxq={maxq} cap={cap} conc=0"]
    nid = [0]

    def item():
        nid[0] += 1
        return f"{nid[0]}:{rng.choice([0, 1, 1, 2, 3, 4, 8])}"

    n_ops = rng.choice([4, 8, 16, 30])
    closed = False
    for _ in range(n_ops):
        r = rng.random()
        if r < 0.40:
            ops.append("w enq " + item())
        elif r < 0.55:
            k = rng.choice([0, 1, 2, 3, 4, 5, 6, 17])
            ops.append("w enqmany " + " ".join(item() for _ in range(k)))
        elif r < 0.80:
            d = max(delay, 1)
            ops.append(f"w sleep {rng.choice([0, 1, d - 1, d, d, d + 1, 2 * d, 3 * d, 1000, 3000])}")
        elif r < 0.86:
            ops.append("w direct " + item())
        elif r < 0.90:
            ops.append("w failnext")
        elif r < 0.96 or closed:
            ops.append("w enq " + item())
        else:
            ops.append(f"w close {rng.choice([0, 1, 1])}")
            closed = True
    if delay == 0 and not closed and mx in (0, -1, -5, 16) and not any(o == "w failnext" for o in ops) \
            and rng.random() < 0.8:
        # close(flush) arriving while the flusher is inside a slow transport write, more queued behind
        ops.append("w gclose " + " ".join(item() for _ in range(rng.choice([3, 4, 5]))))
        ops.append("w enq " + item())
        return ops
    if rng.random() < 0.6:
        if rng.random() < 0.5:
            ops.append(f"w sleep {3 * max(delay, 1)}")
        ops.append(f"w close {rng.choice([0, 1, 1, 1])}")
        ops.append("w enq " + item())
    return ops


def gen_writer_concurrent(rng):
    delay = rng.choice([0, 0, 5])
    timer = rng.choice([0, 1])
    mx = rng.choice([0, -1, 1, 2, 4])
    maxq = rng.choice([0, 0, 0, 40])
    ops = [f"w new delay={delay} timer={timer} max={mx} shrink={rng.choice([0, -1, 5])} maxq={maxq} "
           f"cap={rng.choice([0, 1, 2])} conc=1"]
    base = 100000
    for _ in range(rng.choice([1, 2, 3])):
        ops.append(f"w burst {base} {rng.choice([1, 2, 3, 4])} {rng.choice([1, 5, 20, 60])} {rng.choice([0, 1, 3])}")
        base += 100000
        if rng.random() < 0.5:
            ops.append(f"w sleep {rng.choice([1, 5, 10, 100])}")
    if rng.random() < 0.7:
        ops.append(f"w cburst {base} {rng.choice([1, 2, 3])} {rng.choice([5, 20, 60])} 1 {rng.choice([0, 1, 1])}")
    else:
        ops.append(f"w close {rng.choice([0, 1, 1])}")
    ops.append("w sleep 1000")
    return ops


def parse_tx(line):
    """-> list of (kind, failed, ids) for the tx= word of an output line"""
    calls = []
    for w in line.split():
        if w.startswith("tx=") and w != "tx=-":
            for c in w[3:].split(";"):
                kind = c[:c.index("[")]
                failed = kind.endswith("F")
                calls.append((kind.rstrip("F"), failed, parse_ids(c[c.index("["):])))
    return calls


def kvs(line):
    d = {}
    for w in line.split():
        if "=" in w:
            k, v = w.split("=", 1)
            d[k] = v
    return d


def writer_oracle(sc, out):
    cfg = kvs(sc[0])
    if cfg.get("conc") == "1":
        return writer_oracle_conc(sc, out, cfg)
    delay, maxq = int(cfg["delay"]), int(cfg["maxq"])
    sizes = {}
    accepted, delivered = [], []
    closed, failed, slow_seen, failarmed = False, False, False, False
    closed_flush = None
    for op, o in zip(sc, out):
        ws = op.split()[1:]
        if o == "<missing>":
            return f"no output for `{op}` (crash, deadlock or hang)"
        if o == "PANIC":
            return f"panic at `{op}`"
        if ws[0] == "new":
            continue
        if ws[0] == "failnext":
            failarmed = True
            continue
        if o == "bad-op":
            return "harness rejected op " + op
        kv = kvs(o)
        calls = parse_tx(o)
        direct_ids = []
        if ws[0] == "direct":
            direct_ids = [int(ws[1].split(":")[0])]
        if ws[0] == "gclose":
            items = [(int(w.split(":")[0]), int(w.split(":")[1])) for w in ws[1:]]
            for i, s in items:
                sizes[i] = s
            if kv.get("overlap") != "0":
                return (f"`{op}`: two transport writes were in progress at the same time (close flushed while an "
                        f"earlier batch was still being written)")
            if not closed:
                accepted += [i for i, _ in items]
                closed, closed_flush = True, True
        if ws[0] in ("enq", "enqmany"):
            items = [(int(w.split(":")[0]), int(w.split(":")[1])) for w in ws[1:]]
            for i, s in items:
                sizes[i] = s
            res = kv.get("res")
            if closed:
                if res != "closed":
                    return f"`{op}` after close returned {res}, expected connection-closed"
            else:
                pending = sum(sizes[i] for i in accepted[len(delivered):]) + sum(s for _, s in items)
                want = "slow" if (maxq > 0 and pending > maxq) else "ok"
                if not failed and res != want:
                    return (f"`{op}` returned {res} with {pending} bytes pending and MaxQueueSize={maxq}: "
                            f"expected {want}")
                if res == "slow":
                    slow_seen = True
                if res in ("ok", "slow"):
                    accepted += [i for i, _ in items]
        if ws[0] == "close":
            was_closed = closed
            closed = True
            if not was_closed:
                closed_flush = ws[1] != "0"
        for kind, f, ids in calls:
            if direct_ids and ids == direct_ids and kind == "W":
                direct_ids = []
                if f:
                    failarmed = False
                continue
            if f:
                failed = True
                continue
            if failed:
                continue
            if kind == "W" and len(ids) != 1:
                return f"WriteFn called with {len(ids)} items"
            exp = accepted[len(delivered):len(delivered) + len(ids)]
            if ids != exp:
                return (f"at `{op}` the transport received {ids} but the next queued messages are "
                        f"{accepted[len(delivered):len(delivered) + len(ids) + 2]} (loss, duplication or reordering)")
            delivered += ids
        if ws[0] == "close" and not failed and closed_flush and ws[1] != "0" and delivered != accepted                 and not (closed and closed_flush is False):
            return f"close with flush left {len(accepted) - len(delivered)} queued messages undelivered"
        if ws[0] in ("close", "gclose") and not failed and closed_flush and delivered != accepted:
            return f"close with flush left {len(accepted) - len(delivered)} queued messages undelivered"
        if closed and not failed and ws[0] not in ("close", "gclose") and any(not f for _, f, _ in calls) and ws[0] != "direct":
            return f"transport written at `{op}` after close"
        if ws[0] == "sleep" and not closed and not failed and not slow_seen and not failarmed:
            need = 3 * delay if delay > 0 else 0
            if int(ws[1]) >= need and int(kv.get("qlen", 0)) != 0:
                return f"after `{op}` {kv.get('qlen')} messages are still queued and no flush delivered them"
        if delay == 0 and not closed and not failed and not failarmed and int(kv.get("qlen", 0)) != 0:
            return f"direct mode: {kv.get('qlen')} messages left in the queue after `{op}`"
    return None


def writer_oracle_conc(sc, out, cfg):
    delay = int(cfg["delay"])
    acc = {}      # producer key -> list of accepted ids in enqueue order
    delivered = {}
    seen = set()
    closed, closed_flush = False, None
    for op, o in zip(sc, out):
        ws = op.split()[1:]
        if o == "<missing>":
            return f"no output for `{op}` (crash, deadlock or hang)"
        if o == "PANIC":
            return f"panic at `{op}`"
        if ws[0] == "new":
            continue
        if o == "bad-op":
            return "harness rejected op " + op
        kv = kvs(o)
        if ws[0] in ("burst", "cburst"):
            ids = sorted(parse_ids(kv["acc"]) + parse_ids(kv["slow"]))
            for i in ids:
                acc.setdefault(i // 1000, []).append(i)
            if closed and ids:
                return f"`{op}`: enqueue accepted after close"
            if ws[0] == "cburst" and len(ws) == 6:
                closed = True
                closed_flush = ws[5] != "0"
        if ws[0] == "close" and not closed:
            closed, closed_flush = True, ws[1] != "0"
        for kind, f, ids in parse_tx(o):
            if f:
                return None
            for i in ids:
                if i in seen:
                    return f"message {i} delivered twice"
                seen.add(i)
                delivered.setdefault(i // 1000, []).append(i)
        for p, d in delivered.items():
            a = acc.get(p, [])
            if d != a[:len(d)]:
                return (f"at `{op}` producer {p}: transport sequence {d[:8]}… is not a prefix of its accepted "
                        f"sequence {a[:8]}… (loss, duplication or reordering)")
        quiet_all = (delay == 0 and not closed) or (closed and closed_flush) or                     (ws[0] == "sleep" and int(ws[1]) >= 100 and not closed and int(cfg["maxq"]) == 0)
        if quiet_all:
            for p, a in acc.items():
                if delivered.get(p, []) != a:
                    return (f"after `{op}` producer {p}: {len(a) - len(delivered.get(p, []))} accepted messages "
                            f"were not delivered")
    return None


def writer_canon(op, line):
    return line
