"""Generators, canonicalisation and statement-level oracles for C12 (queue + writer)."""

# ----------------------------------------------------------------------------- queue

def gen_queue_scenario(rng):
    cap0 = rng.choice([1, 1, 2, 2, 2, 3, 4, 5, 8, 16])
    ops = [f"q new {cap0}"]
    nid = [0]
    live = [0]      # approximate number of queued items (only steers the generator)
    closed = [False]

    def item():
        nid[0] += 1
        return f"{nid[0]}:{rng.choice([0, 0, 1, 1, 2, 3, 7, 100, 65536])}"

    def maxarg():
        n = live[0]
        return rng.choice([-1, -1, 0, 1, 2, 3, max(0, n - 1), n, n + 1, 2 * n + 1, 1000])

    n_ops = rng.choice([6, 12, 25, 40, 80])
    phase = "mixed"
    for _ in range(n_ops):
        if rng.random() < 0.15:
            phase = rng.choice(["grow", "drain", "mixed", "mixed"])
        r = rng.random()
        if phase == "grow":
            r *= 0.45
        elif phase == "drain":
            r = 0.45 + r * 0.45
        if r < 0.25:
            ops.append("q add " + item())
            live[0] += 1
        elif r < 0.45:
            k = rng.choice([0, 1, 2, 3, 4, 5, 7, 8, 9, 15, 16, 17, 33])
            ops.append("q addmany " + " ".join(item() for _ in range(k)))
            live[0] += k
        elif r < 0.58:
            ops.append("q rm")
            live[0] = max(0, live[0] - 1)
        elif r < 0.68:
            m = maxarg()
            ops.append(f"q rmmany {m}")
            live[0] = 0 if m == -1 else max(0, live[0] - m)
        elif r < 0.78:
            m = maxarg()
            b = rng.choice([0, 1, 2, 3, 4, 16, max(1, live[0]), 4096])
            ops.append(f"q {rng.choice(['into', 'intoshrink'])} {b} {m}")
            take = live[0] if m == -1 else min(live[0], m)
            live[0] -= min(take, b)
        elif r < 0.86:
            ops.append(f"q finish {rng.choice([0, 0, 1, 5, 1000])}")
        elif r < 0.93:
            ops.append(f"q sleep {rng.choice([0, 1, 4, 5, 999, 1000, 2000])}")
        elif r < 0.96:
            ops.append("q close" if rng.random() < 0.5 else "q closerem")
            live[0] = 0
            closed[0] = True
        else:
            ops.append("q add " + item())
            live[0] += 1
    if rng.random() < 0.3:
        ops.append("q closerem")
    return ops


def parse_state(line):
    kv = {}
    for w in line.split()[1:]:
        if "=" in w:
            k, v = w.split("=", 1)
            kv[k] = v
    return kv


def parse_ids(s):
    s = s.strip("[]")
    return [int(x) for x in s.split(",") if x]


def queue_oracle(sc, out):
    """FIFO reference: every removal returns exactly the oldest queued items in order, nothing is lost or
    duplicated, `size` is the byte sum, `len` the item count; closed queue refuses adds."""
    fifo, sizes, closed = [], {}, False
    cap0 = None
    for op, o in zip(sc, out):
        ws = op.split()[1:]
        if o == "<missing>":
            return f"no output for `{op}` (crash or hang)"
        if o == "PANIC":
            return f"panic at `{op}`"
        if o == "bad-op":
            return None if ws[0] not in ("new",) else "harness rejected op " + op
        res = o.split()[0]
        st = parse_state(o)
        if ws[0] == "new":
            fifo, closed, cap0 = [], False, int(ws[1])
        elif ws[0] in ("add", "addmany"):
            items = [(int(w.split(":")[0]), int(w.split(":")[1])) for w in ws[1:]]
            want = "ok=0" if closed else "ok=1"
            if res != want:
                return f"`{op}` returned {res}, expected {want}"
            if not closed:
                for i, s in items:
                    sizes[i] = s
                    fifo.append(i)
        elif ws[0] == "rm":
            want = f"item={fifo[0]}" if fifo else "item=none"
            if res != want:
                return f"`{op}` returned {res}, FIFO expects {want}"
            if fifo:
                fifo.pop(0)
        elif ws[0] in ("rmmany", "into", "intoshrink"):
            m = int(ws[-1])
            k = len(fifo) if (m == -1 or len(fifo) < m) else m
            if ws[0] != "rmmany":
                k = min(k, int(ws[1]))
            want = "items=none" if not fifo else "items=[" + ",".join(map(str, fifo[:k])) + "]"
            if res != want:
                return f"`{op}` returned {res}, FIFO expects {want}"
            fifo = fifo[k:]
        elif ws[0] == "close":
            fifo, closed = [], True
        elif ws[0] == "closerem":
            want = "rem=[]" if closed else "rem=[" + ",".join(map(str, fifo)) + "]"
            if res != want:
                return f"`{op}` returned {res}, FIFO expects {want}"
            fifo, closed = [], True
        if int(st.get("len", -1)) != len(fifo):
            return f"after `{op}` Len()={st.get('len')} but {len(fifo)} items are queued"
        if int(st.get("size", -1)) != sum(sizes[i] for i in fifo):
            return f"after `{op}` Size()={st.get('size')} but queued bytes are {sum(sizes[i] for i in fifo)}"
        if (st.get("closed") == "1") != closed:
            return f"after `{op}` closed={st.get('closed')}"
        if not closed and int(st.get("cap", 0)) < max(len(fifo), 0):
            return f"after `{op}` capacity {st.get('cap')} below length"
    return None


def queue_canon(op, line):
    return line


def scenario_info(fam, sc, out):
    counts = {}
    nontrivial = False
    lastcap = None
    for op, o in zip(sc, out):
        ws = op.split()
        counts[f"{fam}:{ws[1]}"] = counts.get(f"{fam}:{ws[1]}", 0) + 1
        if fam == "q":
            st = parse_state(o)
            cap = st.get("cap")
            if lastcap is not None and cap is not None and cap != lastcap and ws[1] != "new":
                k = "q:grow" if int(cap) > int(lastcap) else ("q:shrink" if int(cap) > 0 else "q:closed")
                counts[k] = counts.get(k, 0) + 1
                nontrivial = True
            lastcap = cap
            if st.get("h") not in (None, "0") and ws[1] in ("add", "addmany") and int(st["t"]) <= int(st["h"]) \
                    and int(st.get("len", 0)) > 0:
                counts["q:wrapped"] = counts.get("q:wrapped", 0) + 1
        else:
            for w in o.split():
                if w.startswith("tx="):
                    if "WM" in w:
                        nontrivial = True
                        counts["w:batch>1"] = counts.get("w:batch>1", 0) + 1
                    if "W" in w:
                        counts["w:write-call-lines"] = counts.get("w:write-call-lines", 0) + 1
                if w.startswith("res="):
                    counts["w:res=" + w[4:]] = counts.get("w:res=" + w[4:], 0) + 1
            if ws[1] == "close":
                nontrivial = True
            if ws[1] == "new":
                counts["w:mode=" + dict(x.split("=") for x in ws[2:]).get("mode", "?")] = \
                    counts.get("w:mode=" + dict(x.split("=") for x in ws[2:]).get("mode", "?"), 0) + 1
    return {"counts": counts, "nontrivial": nontrivial}


def signature(fam, sc, msg):
    import re
    return {"family": fam, "oracle": re.sub(r"\d+", "N", msg)[:80]}


# ----------------------------------------------------------------------------- writer

def gen_writer_scenario(rng):
    return []


def writer_oracle(sc, out):
    return None


def writer_canon(op, line):
    return line
