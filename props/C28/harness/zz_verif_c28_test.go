//go:build verif

package centrifuge

import "testing"

// C28 uses the two-node cluster harness of C27 (props/C27/harness/zz_verif_c27_test.go, overlaid together
// with this file): same line protocol, only `call op=unsubscribe …` lines are generated.
func TestVerifC28(t *testing.T) { vcRun(t) }
