"""C28 — Node.Unsubscribe with an empty channel removes all subscriptions of every addressed connection.

Proof  : lean/CentrifugeVerif/Props/C28.lean over Model/ControlUnsub.lean (hub calls = regenerated control codec).
Tie    : the two-node cluster harness of C27 (local and control-message path), random clusters / subscription sets /
         targeting options; the Lean driver runs the same lines on the model (`now` = Mode.fixed = the code since
         /repo commit 770c28ff, and `old` = Mode.preFix, to recognise a regression to the pre-fix behaviour).
Oracle : the documented behaviour evaluated on the implementation's own observations (Python, independent of the
         model): after an unsubscribe with an empty channel every addressed connection has no channel left, each
         channel it had got callback + push (+ presence removal / leave when enabled), nothing else changed.
"""
import json
import os
import sys

HERE = os.path.dirname(os.path.abspath(__file__))
C27 = os.path.join(os.path.dirname(HERE), "C27")
sys.path.insert(0, C27)
import gen as cgen  # noqa: E402
import ctlgen as G  # noqa: E402
from vlib.core import go_env, REPO  # noqa: E402

HARNESS = ["props/C27/harness/zz_verif_c27_test.go", "props/C28/harness/zz_verif_c28_test.go"]
TEST = "TestVerifC28"


def regen(ctx):
    facts = cgen.extract(REPO, go_env())
    text = cgen.render(facts)
    ctx.write_gen("ControlCodec.lean", text)
    ctx.gen_stamp = cgen.stamp_of(text)
    return facts


# ------------------------------------------------------------------------------------------------ scenario bookkeeping
def parse_setup(setup):
    conns = {}
    for l in setup:
        kv = {}
        for w in l.split()[1:]:
            k, _, v = w.partition("=")
            kv[k] = v
        if l.startswith("conn"):
            lb = {}
            if kv.get("labels", "-") not in ("-", ""):
                for p in kv["labels"].split(","):
                    k, _, v = p.partition(":")
                    lb[k] = v
            uni = kv.get("uni") == "1"
            conns[kv["id"]] = {"id": kv["id"], "node": kv["node"], "user": G.unhx(kv["user"]), "uni": uni,
                               "session": G.unhx(kv["session"]) if uni else "", "labels": lb, "subs": {}}
        elif l.startswith("presub"):
            opts = kv.get("opts", "-")
            conns[kv["id"]]["subs"][G.unhx(kv["ch"])] = {"P": "WithEmitPresence:1" in opts.split(";"),
                                                         "J": "WithEmitJoinLeave:1" in opts.split(";")}
    return conns


FILTERS = dict(cgen.NAMED_FILTERS)


def fmatch(f, labels):
    op = f.get("Op", "")
    if op == "":
        v = labels.get(f.get("Key", ""))
        cmp_ = f.get("Cmp")
        if cmp_ == "eq":
            return v is not None and v == f.get("Val", "")
        if cmp_ == "in":
            return (v or "") in f.get("Vals", [])
        if cmp_ == "ex":
            return v is not None
        raise ValueError("invalid")
    if op == "and":
        return all(fmatch(c, labels) for c in f.get("Nodes", []))
    if op == "not":
        return not fmatch(f["Nodes"][0], labels)
    raise ValueError("invalid")


def addressed(conns, kv, opts):
    """Which connections the call addresses according to the documentation of the options (independent of the model)."""
    o = dict(opts)
    user = G.unhx(kv["user"])
    across = user == "" and o.get("WithUnsubscribeAllUsers") == "1"
    cid = G.unhx(o.get("WithUnsubscribeClient", "-"))
    sess = G.unhx(o.get("WithUnsubscribeSession", "-"))
    fname = o.get("WithUnsubscribeLabelFilter", "nil")
    out = set()
    if fname == "F5":
        return out  # invalid filter: the call fails, nothing is addressed
    for c in conns.values():
        if not across and c["user"] != user:
            continue
        if cid and c["id"] != cid:
            continue
        if sess and c["session"] != sess:
            continue
        if fname != "nil" and not fmatch(FILTERS[fname], c["labels"]):
            continue
        out.add(c["id"])
    return out


def observed(obs):
    """-> (channels per conn, set of event strings) in the driver's canonical vocabulary."""
    chans, evs = {}, []
    for c in obs.get("conns") or []:
        chans[c["id"]] = sorted(x.split("|")[0] for x in (c.get("chans") or []))
        for e in c.get("events") or []:
            w = e.split(" ")
            if w[0] == "unsub":
                evs.append(f"cb:{c['id']}:{w[1] or '-'}:{w[2]}:{w[3] or '-'}")
        for wtxt in c.get("writes") or []:
            try:
                d = json.loads(wtxt)
            except Exception:
                continue
            d = d.get("push", d)
            if isinstance(d, dict) and "unsubscribe" in d:
                u = d["unsubscribe"] or {}
                evs.append(f"push:{c['id']}:{G.hx(d.get('channel', ''))}:{u.get('code', 0)}:{G.hx(u.get('reason', ''))}")
    for b in obs.get("backend") or []:
        w = b.split(" ")
        if w[1] == "remove":
            evs.append(f"prem:{w[3]}:{G.hx(w[2])}")
        elif w[1] == "leave":
            evs.append(f"leave:{w[3]}:{G.hx(w[2])}")
    return chans, sorted(evs)


def canon(obs):
    chans, evs = observed(obs)
    return "conns=" + ";".join(f"{i}[{','.join(chans[i])}]" for i in sorted(chans)) + " evs=" + ",".join(evs)


def unsub_of(opts):
    o = dict(opts)
    if "WithCustomUnsubscribe" in o:
        code, _, r = o["WithCustomUnsubscribe"].partition(":")
        return code, (r if r not in ("", "-") else "-")
    return "2000", G.hx("server unsubscribe")


def oracle_side(conns, kv, opts, obs):
    """The documented behaviour of an unsubscribe with an EMPTY channel, evaluated on one observation.
    Returns a short message class or None."""
    chans, evs = observed(obs)
    evset = set(evs)
    addr = addressed(conns, kv, opts)
    code, reason = unsub_of(opts)
    expected = set()
    for cid, c in conns.items():
        if cid in addr:
            if chans.get(cid):
                return "subscriptions remain on an addressed connection"
            for ch, fl in c["subs"].items():
                need = [f"cb:{cid}:{G.hx(ch)}:{code}:{reason}", f"push:{cid}:{G.hx(ch)}:{code}:{reason}"]
                if fl["P"]:
                    need.append(f"prem:{cid}:{G.hx(ch)}")
                if fl["J"]:
                    need.append(f"leave:{cid}:{G.hx(ch)}")
                for n in need:
                    expected.add(n)
                    if n not in evset:
                        return "missing per-channel effect: " + n.split(":")[0]
        else:
            if chans.get(cid) != sorted(G.hx(ch) for ch in c["subs"]):
                return "a connection that is not addressed lost a subscription"
    # an unsubscribe push that names no channel is reported by the correspondence check (the model has it), it is not
    # forbidden by the property statement; every other effect must belong to a removed subscription
    extra = [e for e in evs if e not in expected and not (e.startswith("push:") and e.split(":")[2] == "-")]
    if extra:
        return "unexpected effect: " + extra[0].split(":")[0]
    return None


def oracle(setup, call, out):
    kv, opts = G.parse_call(call)
    d = G.load(out)
    if d is None:
        return "unparseable harness output", None, None
    if d["L"].get("error") or d["R"].get("error"):
        return "harness-error", d, None
    if G.unhx(kv.get("ch", "-")) != "":
        return None, d, None
    conns = parse_setup(setup)
    ml, mr = oracle_side(conns, kv, opts, d["L"]), oracle_side(conns, kv, opts, d["R"])
    if ml or mr:
        # which path failed: L reaches node-B connections locally and node-A connections remotely, R the other way round
        return (ml or mr), d, ("both" if ml and mr else ("from-B" if ml else "from-A"))
    return None, d, None


def signature(setup, call, d, msg, path):
    """Computed on the shrunk input: oracle class, failing paths, the options still needed, how many subscriptions
    of addressed connections were removed at all, and whether an unsubscribe push without channel name was written."""
    kv, opts = G.parse_call(call)
    conns = parse_setup(setup)
    addr = addressed(conns, kv, opts)
    removed, empty_push = 0, False
    if d:
        for side in ("L", "R"):
            chans, evs = observed(d[side])
            removed += sum(len(conns[a]["subs"]) - len(chans.get(a, [])) for a in addr)
            empty_push = empty_push or any(e.startswith("push:") and e.split(":")[2] == "-" for e in evs)
    return {"oracle": msg, "paths": path, "options": "+".join(sorted(n for n, _ in opts)), "removed": removed,
            "empty_push": empty_push}


def gen_ops(rng, facts, n):
    ops = []
    while n > 0:
        lines, sc = G.gen_scenario(rng, min_conns=1, max_conns=6, hist=False)
        ops += lines
        k = rng.randint(2, 6)
        for _ in range(k):
            call = G.gen_call(rng, facts, sc, op="unsubscribe", p_opt=rng.choice([0.0, 0.0, 0.15, 0.3]))
            kv, o = G.parse_call(call)
            if rng.random() < 0.55:
                kv["ch"] = "-"
            if rng.random() < 0.8:      # mostly address a user that exists in the scenario
                kv["user"] = G.hx(rng.choice([c["user"] for c in sc["conns"]]))
            call = G.fmt_call(kv, o)
            ops.append(call)
        n -= k
    return ops


def run_blocks(ctx, binary, blocks):
    ops, idx = [], []
    for setup, call in blocks:
        ops += setup + [call]
        idx.append(len(ops) - 1)
    res = ctx.go_run(binary, TEST, ops)
    return [res[k] if k < len(res) else "<missing>" for k in idx]


def shrink(ctx, binary, setup, call, msg0):
    kv, opts = G.parse_call(call)

    def failing(cands):
        outs = run_blocks(ctx, binary, [(s, G.fmt_call(kv, o)) for s, o in cands])
        return [oracle(s, G.fmt_call(kv, o), out)[0] == msg0 for (s, o), out in zip(cands, outs)]
    for _ in range(20):
        cands = [(setup, opts[:i] + opts[i + 1:]) for i in range(len(opts))]
        for i in range(len(setup) - 1, 0, -1):
            if setup[i].startswith("conn"):
                cid = [w for w in setup[i].split() if w.startswith("id=")][0]
                cands.append(([l for j, l in enumerate(setup) if j != i and not (l.startswith("presub") and cid in l.split())], opts))
            elif setup[i].startswith("presub"):
                cands.append((setup[:i] + setup[i + 1:], opts))
                if "opts=-" not in setup[i]:
                    cands.append((setup[:i] + [setup[i].split(" opts=")[0] + " opts=-"] + setup[i + 1:], opts))
        if not cands:
            break
        fl = failing(cands)
        if not any(fl):
            break
        setup, opts = cands[fl.index(True)]
    return setup, G.fmt_call(kv, opts)


def run(ctx):
    ctx.rule = ("scenario = 1..6 connections on two nodes (users u1/u2/anonymous, sessions, labels) with random subscription "
                "sets (server/client side, presence, join/leave flags); call = Node.Unsubscribe with an empty (55%) or a "
                "concrete channel and a random subset of all With* options, made once from each node; non-trivial = an "
                "addressed connection had at least one subscription; distinct = distinct (scenario, call)")
    ctx.assumptions = ["filter.Match/Validate semantics are those of property C15 (the theorems hold for any filter semantics; "
                       "the driver and the oracle evaluate the five named filters themselves)",
                       "subscriptions still being established (subscribingCh) are not modelled: scenarios are quiescent",
                       "map / shared-poll subscriptions are not generated"]
    try:
        facts = regen(ctx)
    except cgen.GenError as e:
        ctx.obligation_errors.append({"stage": "lake build", "modules": ["Gen.ControlCodec"], "log": str(e)})
        ctx.violation("proof", "the control-codec extractor no longer understands the source: " + str(e)[:300],
                      signature={"kind": "extractor"}, replay={"log": str(e)}, no_input=True)
        return
    proofs_ok = ctx.lean_obligations()
    binary = ctx.go_test_binary(".", HARNESS)
    if binary is None:
        ctx.violation("correspondence", "harness no longer builds against package centrifuge",
                      signature={"kind": "harness-build"}, replay={"log": getattr(ctx, "build_error", "")}, no_input=True)
        return
    if ctx.replay:
        ops = json.load(open(ctx.replay)).get("ops", [])
    else:
        corpus = [l.strip() for l in open(os.path.join(HERE, "corpus.ops")) if l.strip() and not l.startswith("#")]
        ops = corpus + gen_ops(ctx.rng, facts, ctx.scale(500, 10000))
    ctx.log(f"harness built; {len(ops)} op lines")
    model = ctx.lean_run(["stamp"] + ops)
    if model is None:
        proofs_ok = False
        model = []
    else:
        if not model or model[0] != "stamp=" + str(getattr(ctx, "gen_stamp", None)):
            raise RuntimeError("driver binary is not built from the regenerated codec")
        model = model[1:]
    impl = G.go_run_parallel(ctx, binary, TEST, ops, nproc=3)
    if ctx.last_go_crash:
        ctx.notes.append("harness process: " + str(ctx.last_go_crash)[-600:])
    setup, herr, nviol, ncorr = [], 0, 0, 0
    modes = {"now": 0, "old": 0, "both": 0}
    seen_sig = set()
    for i, op in enumerate(ops):
        if not op.startswith("call"):
            if op.startswith("reset"):
                setup = []
            setup.append(op)
            continue
        out = impl[i] if i < len(impl) else "<missing>"
        m = model[i] if i < len(model) else "<missing>"
        kv, opts = G.parse_call(op)
        if out == "<missing>":
            ctx.violation("correspondence", "harness produced no output (crash?) " + str(ctx.last_go_crash)[-300:],
                          signature={"kind": "harness-crash"}, replay={"ops": setup + [op]}, no_input=True)
            break
        msg, d, path = oracle(setup, op, out)
        if msg == "harness-error":
            herr += 1
            ctx.count("harness-error")
            if herr <= 3:
                ctx.notes.append("harness error: " + json.dumps(d)[:300])
            continue
        conns = parse_setup(setup)
        addr = addressed(conns, kv, opts)
        empty = G.unhx(kv.get("ch", "-")) == ""
        nontriv = any(conns[a]["subs"] for a in addr)
        ctx.record(setup + [op], nontrivial=nontriv)
        ctx.count("ch:empty" if empty else "ch:named")
        ctx.count(f"addressed:{min(len(addr), 4)}")
        ctx.count("addressed-with-subs" if nontriv else "nothing-to-remove")
        if any(conns[a]["node"] == "A" for a in addr) and any(conns[a]["node"] == "B" for a in addr):
            ctx.count("addressed-on-both-nodes")
        for n, _ in opts:
            ctx.count("opt:" + n)
        if msg:
            nviol += 1
            ctx.count("oracle:" + msg)
            key = (msg, path)
            if key not in seen_sig and len(seen_sig) < 6:
                seen_sig.add(key)
                again = run_blocks(ctx, binary, [(setup, op)] * 2)
                if not all(oracle(setup, op, o)[0] == msg for o in again):
                    ctx.notes.append("nondeterministic oracle failure (not reported): " + op)
                    continue
                s2, c2 = shrink(ctx, binary, list(setup), op, msg)
                o2 = run_blocks(ctx, binary, [(s2, c2)])[0]
                m2, d2, p2 = oracle(s2, c2, o2)
                ctx.violation("property", "Node.Unsubscribe with an empty channel: " + (m2 or msg),
                              signature=signature(s2, c2, d2, m2 or msg, p2 or path),
                              replay={"ops": s2 + [c2], "impl": d2, "original_ops": setup + [op]})
        # correspondence with the model of the code as it is (`now`); `old` = pre-fix behaviour, for diagnosis only
        if m.startswith("now L "):
            now, oldm = m[len("now "):].split(" old ")
            mine = f"L {canon(d['L'])} R {canon(d['R'])}"
            if mine == now:
                modes["now" if now != oldm else "both"] += 1
            else:
                ncorr += 1
                if mine == oldm:
                    modes["old"] += 1
                if ncorr <= 3:
                    ctx.violation("correspondence", "implementation differs from the model of the current code"
                                  + (" (it behaves like the code before fix 770c28ff)" if mine == oldm else ""),
                                  signature={"kind": "diff", "prefix_behaviour": mine == oldm},
                                  replay={"ops": setup + [op], "impl": mine, "model": now, "model_prefix": oldm},
                                  no_input=(nviol == 0))
        elif model:
            ctx.violation("correspondence", f"driver could not interpret the call: {m}", signature={"kind": "driver", "out": m[:40]},
                          replay={"ops": setup + [op]}, no_input=True)
    ctx.traces_validated = ctx.evaluations
    ctx.extra["model_mode_matches"] = modes
    ctx.extra["disagreements"] = ncorr
    if herr > max(5, ctx.evaluations // 10):
        raise RuntimeError(f"too many harness errors ({herr})")
    if not proofs_ok and not ctx.violations:
        ctx.proof_broken()
