//go:build verif

package centrifuge

// Fake Redis endpoint for the C18 / C23 checks (injected with `go test -overlay`, never part of the repo).
//
// The real RedisBroker / RedisMapBroker talk RESP2 over an in-memory net.Pipe to `verifFakeRedis`, which
// forwards every command to the Lean driver `drv_c23` (path in $VERIF_REDIS_DRV): the driver holds the
// Redis model state and runs the *translated* Lua scripts.  So the Go glue (argument marshalling, reply
// parsing, post-processing) that runs here is the real one; only Redis and Lua are the model.
// EVALSHA is resolved by the SHA1 of the script sources embedded in the package.  PUBLISH/SPUBLISH are
// also recorded on the Go side so that the harness can hand them to the real handleRedisClientMessage.
// The server clock is time.Now() — virtual inside a synctest bubble.

import (
	"bufio"
	"crypto/sha1"
	"crypto/tls"
	"encoding/hex"
	"errors"
	"fmt"
	"io"
	"net"
	"os"
	"os/exec"
	"strconv"
	"strings"
	"sync"
	"time"

	"github.com/redis/rueidis"
)

type verifFakePub struct {
	cmd     string
	channel string
	payload string
}

type verifLeanProc struct {
	cmd *exec.Cmd
	in  io.WriteCloser
	out *bufio.Reader
}

func verifLeanStart() (*verifLeanProc, error) {
	path := os.Getenv("VERIF_REDIS_DRV")
	if path == "" {
		return nil, errors.New("VERIF_REDIS_DRV not set")
	}
	c := exec.Command(path)
	in, err := c.StdinPipe()
	if err != nil {
		return nil, err
	}
	out, err := c.StdoutPipe()
	if err != nil {
		return nil, err
	}
	c.Stderr = os.Stderr
	if err := c.Start(); err != nil {
		return nil, err
	}
	return &verifLeanProc{cmd: c, in: in, out: bufio.NewReaderSize(out, 1<<20)}, nil
}

func (p *verifLeanProc) call(line string) (string, error) {
	if _, err := io.WriteString(p.in, line+"\n"); err != nil {
		return "", err
	}
	s, err := p.out.ReadString('\n')
	if err != nil {
		return "", err
	}
	return strings.TrimRight(s, "\r\n"), nil
}

func (p *verifLeanProc) stop() {
	_ = p.in.Close()
	_ = p.cmd.Wait()
}

type verifFakeRedis struct {
	mu        sync.Mutex
	lean      *verifLeanProc
	scripts   map[string]string // sha1 hex -> script name
	unsup     []string // ops that left the model
	commands  map[string]int
}

func verifFakeRedisNew(lean *verifLeanProc) *verifFakeRedis {
	f := &verifFakeRedis{lean: lean, scripts: map[string]string{}, commands: map[string]int{}}
	for name, src := range map[string]string{
		"broker_publish_idempotent": publishIdempotentSource,
		"broker_history_add_list":   addHistoryListSource,
		"broker_history_add_stream": addHistoryStreamSource,
		"broker_history_list":       historyListSource,
		"broker_history_stream":     historyStreamSource,
		"map_broker_add":            brokerStatePublishScriptSource,
		"map_broker_read_ordered":   brokerStateReadOrderedScriptSource,
		"map_broker_read_unordered": brokerStateReadUnorderedScriptSource,
		"map_broker_stream_read":    brokerStateReadStreamScriptSource,
		"map_broker_read_meta":      brokerStateReadMetaScriptSource,
		"map_broker_stats":          brokerStateStatsScriptSource,
		"map_broker_find_expired":   brokerStateFindExpiredScriptSource,
		"map_broker_batch_remove":   brokerStateBatchRemoveScriptSource,
	} {
		sum := sha1.Sum([]byte(src))
		f.scripts[hex.EncodeToString(sum[:])] = name
		f.scripts["src:"+src] = name
	}
	return f
}

func verifHexArg(s string) string {
	if s == "" {
		return "-"
	}
	return hex.EncodeToString([]byte(s))
}

// leanReplyToRESP converts the driver's prefix-notation reply into RESP2 bytes.
func verifLeanReplyToRESP(toks []string, pos int, sb *strings.Builder) (int, error) {
	if pos >= len(toks) {
		return pos, errors.New("short reply")
	}
	t := toks[pos]
	pos++
	unhex := func(x string) (string, error) {
		if x == "" || x == "-" {
			return "", nil
		}
		b, err := hex.DecodeString(x)
		return string(b), err
	}
	switch t[0] {
	case ':':
		sb.WriteString(t + "\r\n")
	case '_':
		sb.WriteString("$-1\r\n")
	case '$':
		s, err := unhex(t[1:])
		if err != nil {
			return pos, err
		}
		sb.WriteString("$" + strconv.Itoa(len(s)) + "\r\n" + s + "\r\n")
	case '+':
		s, err := unhex(t[1:])
		if err != nil {
			return pos, err
		}
		sb.WriteString("+" + s + "\r\n")
	case '-', '!':
		s, err := unhex(t[1:])
		if err != nil {
			return pos, err
		}
		s = strings.NewReplacer("\r", " ", "\n", " ").Replace(s)
		if t[0] == '!' {
			s = "VERIFMODEL unsupported: " + s
		} else if !strings.HasPrefix(s, "ERR") && !strings.HasPrefix(s, "WRONGTYPE") {
			s = "ERR " + s
		}
		sb.WriteString("-" + s + "\r\n")
	case '*':
		n, err := strconv.Atoi(t[1:])
		if err != nil {
			return pos, err
		}
		sb.WriteString("*" + strconv.Itoa(n) + "\r\n")
		for i := 0; i < n; i++ {
			pos, err = verifLeanReplyToRESP(toks, pos, sb)
			if err != nil {
				return pos, err
			}
		}
	default:
		return pos, fmt.Errorf("bad reply token %q", t)
	}
	return pos, nil
}

// exec runs one command (already split into arguments) and returns the RESP2 reply bytes.
func (f *verifFakeRedis) exec(args []string) string {
	f.mu.Lock()
	defer f.mu.Unlock()
	if len(args) == 0 {
		return "-ERR empty command\r\n"
	}
	name := strings.ToLower(args[0])
	f.commands[name]++
	now := strconv.FormatInt(time.Now().UnixMilli(), 10)
	switch name {
	case "hello":
		return "*14\r\n$6\r\nserver\r\n$5\r\nredis\r\n$7\r\nversion\r\n$5\r\n7.2.0\r\n$5\r\nproto\r\n:2\r\n$2\r\nid\r\n:1\r\n$4\r\nmode\r\n$10\r\nstandalone\r\n$4\r\nrole\r\n$6\r\nmaster\r\n$7\r\nmodules\r\n*0\r\n"
	case "client", "select", "readonly":
		return "+OK\r\n"
	case "ping":
		return "+PONG\r\n"
	case "quit":
		return "+OK\r\n"
	}
	var line string
	if name == "evalsha" || name == "eval" {
		if len(args) < 3 {
			return "-ERR wrong number of arguments\r\n"
		}
		key := args[1]
		if name == "eval" {
			key = "src:" + key
		}
		script, ok := f.scripts[key]
		if !ok {
			if name == "evalsha" {
				return "-NOSCRIPT No matching script. Please use EVAL.\r\n"
			}
			return "-ERR VERIFMODEL unknown script source\r\n"
		}
		parts := []string{"S", now, script, args[2]}
		for _, a := range args[3:] {
			parts = append(parts, verifHexArg(a))
		}
		line = strings.Join(parts, " ")
	} else {
		parts := []string{"R", now}
		for _, a := range args {
			parts = append(parts, verifHexArg(a))
		}
		line = strings.Join(parts, " ")
	}
	reply, err := f.lean.call(line)
	if err != nil {
		return "-ERR VERIFMODEL driver failure: " + err.Error() + "\r\n"
	}
	if strings.HasPrefix(reply, "!") || reply == "bad-op" {
		f.unsup = append(f.unsup, name+": "+reply)
	}
	if reply == "bad-op" {
		return "-ERR VERIFMODEL bad-op\r\n"
	}
	var sb strings.Builder
	if _, err := verifLeanReplyToRESP(strings.Fields(reply), 0, &sb); err != nil {
		return "-ERR VERIFMODEL reply conversion: " + err.Error() + "\r\n"
	}
	return sb.String()
}

// drainOutbox fetches (and clears) the messages the model's PUBLISH/SPUBLISH recorded since the last call,
// including those issued from inside Lua scripts.
func (f *verifFakeRedis) drainOutbox() []verifFakePub {
	f.mu.Lock()
	defer f.mu.Unlock()
	reply, err := f.lean.call("outbox")
	if err != nil || reply == "" || reply == "-" {
		return nil
	}
	var out []verifFakePub
	for _, item := range strings.Split(reply, " ") {
		p := strings.Split(item, "/")
		if len(p) != 3 {
			continue
		}
		dec := func(x string) string {
			if x == "-" {
				return ""
			}
			b, _ := hex.DecodeString(x)
			return string(b)
		}
		out = append(out, verifFakePub{cmd: dec(p[0]), channel: dec(p[1]), payload: dec(p[2])})
	}
	return out
}

func (f *verifFakeRedis) reset() {
	f.mu.Lock()
	defer f.mu.Unlock()
	_, _ = f.lean.call("reset")
}

// serve answers RESP2 requests on one connection until it is closed.
func (f *verifFakeRedis) serve(conn net.Conn) {
	defer conn.Close()
	r := bufio.NewReader(conn)
	for {
		head, err := r.ReadString('\n')
		if err != nil {
			return
		}
		head = strings.TrimRight(head, "\r\n")
		if head == "" {
			continue
		}
		if head[0] != '*' {
			// inline command
			_, _ = io.WriteString(conn, f.exec(strings.Fields(head)))
			continue
		}
		n, err := strconv.Atoi(head[1:])
		if err != nil {
			return
		}
		args := make([]string, 0, n)
		for i := 0; i < n; i++ {
			l, err := r.ReadString('\n')
			if err != nil || len(l) < 2 || l[0] != '$' {
				return
			}
			sz, err := strconv.Atoi(strings.TrimRight(l[1:], "\r\n"))
			if err != nil || sz < 0 {
				return
			}
			buf := make([]byte, sz+2)
			if _, err := io.ReadFull(r, buf); err != nil {
				return
			}
			args = append(args, string(buf[:sz]))
		}
		if _, err := io.WriteString(conn, f.exec(args)); err != nil {
			return
		}
	}
}

// verifFakeShard builds a RedisShard whose rueidis client is connected to the fake endpoint.
func verifFakeShard(f *verifFakeRedis) (*RedisShard, error) {
	client, err := rueidis.NewClient(rueidis.ClientOption{
		InitAddress:       []string{"verif-fake:6379"},
		AlwaysRESP2:       true,
		DisableCache:      true,
		DisableRetry:      true,
		ForceSingleClient: true,
		ClientSetInfo:     rueidis.DisableClientSetInfo,
		DialFn: func(string, *net.Dialer, *tls.Config) (net.Conn, error) {
			c, s := net.Pipe()
			go f.serve(s)
			return c, nil
		},
	})
	if err != nil {
		return nil, err
	}
	return &RedisShard{client: client, closeCh: make(chan struct{}), finalAddress: []string{"verif-fake:6379"}}, nil
}
