//go:build verif

package centrifuge

// Verification harness for C18 (memory side) (injected with `go test -overlay`, never part of the repo).
//
// Drives a real MemoryBroker inside a `testing/synctest` bubble, so the broker's own sweeper
// goroutines (history TTL, history meta TTL, idempotent result cache) run on a virtual clock.
// Adapted from the C17 harness (same op lines; `prev=` prints only the data).  Line protocol: see
// /verif/lean/Drivers/C18.lean.  Every `reset` starts
// a new bubble (virtual time 2000-01-01T00:00:00Z); `@<ms>` is the absolute scenario time of an
// op and is never a whole second, so ops never tie with the 1-second sweeper ticks.
// Epoch strings are canonicalised to first-seen indices (1, 2, …; 0 = empty string).
// HandlePublication calls (what would reach subscribers) are recorded through the broker's
// event handler.

import (
	"bufio"
	"context"
	"fmt"
	"os"
	"strconv"
	"strings"
	"testing"
	"testing/synctest"
	"time"
)

type verifC18Bcast struct {
	ch       string
	off      uint64
	data     string
	sp       StreamPosition
	useDelta bool
	hasPrev  bool
	prevOff  uint64
	prevData string
}

type verifC18Recorder struct {
	calls []verifC18Bcast
}

func (r *verifC18Recorder) HandlePublication(ch string, pub *Publication, sp StreamPosition, useDelta bool, prevPub *Publication) error {
	c := verifC18Bcast{ch: ch, off: pub.Offset, data: string(pub.Data), sp: sp, useDelta: useDelta}
	if prevPub != nil {
		c.hasPrev = true
		c.prevOff = prevPub.Offset
		c.prevData = string(prevPub.Data)
	}
	r.calls = append(r.calls, c)
	return nil
}

func (r *verifC18Recorder) HandleJoin(string, *ClientInfo) error  { return nil }
func (r *verifC18Recorder) HandleLeave(string, *ClientInfo) error { return nil }

type verifC18Epochs struct {
	idx  map[string]int
	list []string
}

func (e *verifC18Epochs) canon(s string) int {
	if s == "" {
		return 0
	}
	if i, ok := e.idx[s]; ok {
		return i
	}
	e.list = append(e.list, s)
	e.idx[s] = len(e.list)
	return len(e.list)
}

func (e *verifC18Epochs) resolve(i int) string {
	if i == 0 {
		return ""
	}
	if i <= len(e.list) {
		return e.list[i-1]
	}
	return "bogus-" + strconv.Itoa(i)
}

func verifC18KV(ws []string, k string) (string, bool) {
	for _, w := range ws {
		if strings.HasPrefix(w, k+"=") {
			return w[len(k)+1:], true
		}
	}
	return "", false
}

func verifC18Uint(ws []string, k string) (uint64, bool) {
	s, ok := verifC18KV(ws, k)
	if !ok {
		return 0, false
	}
	v, err := strconv.ParseUint(s, 10, 64)
	return v, err == nil
}

func verifC18At(ws []string) (time.Duration, bool) {
	for _, w := range ws {
		if strings.HasPrefix(w, "@") {
			v, err := strconv.ParseInt(w[1:], 10, 64)
			if err != nil || v < 0 {
				return 0, false
			}
			return time.Duration(v) * time.Millisecond, true
		}
	}
	return 0, false
}

func verifC18Dash(s string) string {
	if s == "-" {
		return ""
	}
	return s
}

type verifC18Env struct {
	broker Broker
	rec    *verifC18Recorder
	ep     *verifC18Epochs
	start  time.Time
	// Redis variant: the real RedisBroker over the fake endpoint; PUBLISHed messages are handed to the
	// real handleRedisClientMessage
	redis *RedisBroker
	fake  *verifFakeRedis
}

// afterPublish delivers what the Redis side PUBLISHed during the op through the real PUB/SUB handler.
func (env *verifC18Env) afterPublish() string {
	if env.redis == nil {
		return ""
	}
	note := ""
	for _, m := range env.fake.drainOutbox() {
		if err := env.redis.handleRedisClientMessage(false, env.rec, channelID(m.channel), []byte(m.payload)); err != nil {
			note = "undeliverable"
		}
	}
	return note
}

func (env *verifC18Env) sleepUntil(at time.Duration) {
	d := env.start.Add(at).Sub(time.Now())
	if d > 0 {
		time.Sleep(d)
	}
	synctest.Wait()
}

// verifC18Err maps Go errors to the enum the model prints.
func verifC18Err(err error) string {
	m := err.Error()
	switch {
	case strings.HasPrefix(m, "wrong Redis reply offset"):
		return "reply:offset"
	case strings.HasPrefix(m, "wrong Redis reply"):
		return "reply:" + strings.ReplaceAll(strings.TrimPrefix(m, "wrong Redis reply "), " ", "_")
	case strings.Contains(m, "VERIFMODEL"):
		return "UNSUPPORTED:" + strings.ReplaceAll(m, " ", "_")
	}
	return "other:" + strings.ReplaceAll(m, " ", "_")
}

func verifC18FmtPubs(pubs []*Publication) string {
	if len(pubs) == 0 {
		return "-"
	}
	parts := make([]string, 0, len(pubs))
	for _, p := range pubs {
		parts = append(parts, fmt.Sprintf("%d/%s", p.Offset, string(p.Data)))
	}
	return strings.Join(parts, ",")
}

func (env *verifC18Env) step(line string) (res string) {
	defer func() {
		if r := recover(); r != nil {
			res = "PANIC"
		}
	}()
	ws := strings.Fields(line)
	if len(ws) == 0 {
		return "bad-op"
	}
	switch ws[0] {
	case "pub":
		if len(ws) < 3 {
			return "bad-op"
		}
		ch, data, rest := ws[1], ws[2], ws[3:]
		size, ok1 := verifC18Uint(rest, "size")
		ttl, ok2 := verifC18Uint(rest, "ttl")
		meta, ok3 := verifC18Uint(rest, "meta")
		idem, ok4 := verifC18KV(rest, "idem")
		ittl, ok5 := verifC18Uint(rest, "ittl")
		ver, ok6 := verifC18Uint(rest, "ver")
		vep, ok7 := verifC18KV(rest, "vep")
		delta, ok8 := verifC18Uint(rest, "delta")
		at, ok9 := verifC18At(rest)
		if !(ok1 && ok2 && ok3 && ok4 && ok5 && ok6 && ok7 && ok8 && ok9) {
			return "bad-op"
		}
		env.sleepUntil(at)
		env.rec.calls = env.rec.calls[:0]
		r, err := env.broker.Publish(ch, []byte(data), PublishOptions{
			HistorySize:         int(size),
			HistoryTTL:          time.Duration(ttl) * time.Millisecond,
			HistoryMetaTTL:      time.Duration(meta) * time.Millisecond,
			IdempotencyKey:      verifC18Dash(idem),
			IdempotentResultTTL: time.Duration(ittl) * time.Millisecond,
			Version:             ver,
			VersionEpoch:        verifC18Dash(vep),
			UseDelta:            delta != 0,
		})
		note := env.afterPublish()
		if err != nil {
			return "err=" + verifC18Err(err)
		}
		sup := "none"
		if r.Suppressed {
			switch r.SuppressReason {
			case SuppressReasonIdempotency:
				sup = "idem"
			case SuppressReasonVersion:
				sup = "ver"
			default:
				sup = "other:" + string(r.SuppressReason)
			}
		} else if r.SuppressReason != "" {
			sup = "reason-without-flag"
		}
		resEp := env.ep.canon(r.Epoch) // result epoch is numbered before the broadcast's epoch
		bc := "-"
		if note != "" && len(env.rec.calls) == 0 {
			bc = note
		}
		if len(env.rec.calls) == 1 {
			c := env.rec.calls[0]
			prev := "-"
			if c.hasPrev {
				prev = c.prevData // the Redis side cannot know the previous offset (it unmarshals the stored payload)
			}
			d := 0
			if c.useDelta {
				d = 1
			}
			bc = fmt.Sprintf("%d/%s@%d:%d;d=%d;prev=%s", c.off, c.data, c.sp.Offset, env.ep.canon(c.sp.Epoch), d, prev)
			if c.ch != ch {
				bc += ";wrong-channel=" + c.ch
			}
		} else if len(env.rec.calls) > 1 {
			bc = fmt.Sprintf("multiple:%d", len(env.rec.calls))
		}
		return fmt.Sprintf("off=%d ep=%d sup=%s bc=%s", r.Offset, resEp, sup, bc)
	case "get":
		if len(ws) < 2 {
			return "bad-op"
		}
		ch, rest := ws[1], ws[2:]
		sinceS, ok1 := verifC18KV(rest, "since")
		limS, ok2 := verifC18KV(rest, "limit")
		rev, ok3 := verifC18Uint(rest, "rev")
		meta, ok4 := verifC18Uint(rest, "meta")
		at, ok5 := verifC18At(rest)
		if !(ok1 && ok2 && ok3 && ok4 && ok5) {
			return "bad-op"
		}
		lim, err := strconv.ParseInt(limS, 10, 64)
		if err != nil {
			return "bad-op"
		}
		var since *StreamPosition
		if sinceS != "-" {
			parts := strings.Split(sinceS, ":")
			if len(parts) != 2 {
				return "bad-op"
			}
			off, err1 := strconv.ParseUint(parts[0], 10, 64)
			ei, err2 := strconv.Atoi(parts[1])
			if err1 != nil || err2 != nil || ei < 0 {
				return "bad-op"
			}
			since = &StreamPosition{Offset: off, Epoch: env.ep.resolve(ei)}
		}
		env.sleepUntil(at)
		pubs, sp, err := env.broker.History(ch, HistoryOptions{
			Filter:  HistoryFilter{Since: since, Limit: int(lim), Reverse: rev != 0},
			MetaTTL: time.Duration(meta) * time.Millisecond,
		})
		if err != nil {
			return "err=" + verifC18Err(err)
		}
		return fmt.Sprintf("pos=%d:%d pubs=%s", sp.Offset, env.ep.canon(sp.Epoch), verifC18FmtPubs(pubs))
	case "rm":
		if len(ws) < 2 {
			return "bad-op"
		}
		at, ok := verifC18At(ws[2:])
		if !ok {
			return "bad-op"
		}
		env.sleepUntil(at)
		if err := env.broker.RemoveHistory(ws[1]); err != nil {
			return "err=" + strings.ReplaceAll(err.Error(), " ", "_")
		}
		return "ok"
	case "sleep":
		at, ok := verifC18At(ws[1:])
		if !ok {
			return "bad-op"
		}
		env.sleepUntil(at)
		return "ok"
	}
	return "bad-op"
}

// verifC18Scenario runs one `reset …` scenario in its own synctest bubble and returns one
// output line per input line.
func verifC18Scenario(t *testing.T, lines []string) []string {
	return verifC18ScenarioWith(t, lines, nil)
}

func verifC18ScenarioWith(t *testing.T, lines []string, fake *verifFakeRedis) []string {
	out := make([]string, 0, len(lines))
	ws := strings.Fields(lines[0])
	meta, ok := verifC18Uint(ws[1:], "meta")
	if !ok {
		for range lines {
			out = append(out, "bad-op")
		}
		return out
	}
	synctest.Test(t, func(t *testing.T) {
		start := time.Now()
		node, err := New(Config{
			LogLevel:       LogLevelNone,
			HistoryMetaTTL: time.Duration(meta) * time.Millisecond,
		})
		if err != nil {
			t.Fatal(err)
		}
		rec := &verifC18Recorder{}
		env := &verifC18Env{rec: rec, start: start, ep: &verifC18Epochs{idx: map[string]int{}}}
		var closeFn func()
		if fake == nil {
			broker, err := NewMemoryBroker(node, MemoryBrokerConfig{})
			if err != nil {
				t.Fatal(err)
			}
			if err := broker.RegisterBrokerEventHandler(rec); err != nil {
				t.Fatal(err)
			}
			env.broker = broker
			closeFn = func() { _ = broker.Close(context.Background()) }
		} else {
			fake.reset()
			lists, _ := verifC18Uint(ws[1:], "lists")
			shard, err := verifFakeShard(fake)
			if err != nil {
				t.Fatal(err)
			}
			rb, err := NewRedisBroker(node, RedisBrokerConfig{Shards: []*RedisShard{shard}, UseLists: lists != 0})
			if err != nil {
				t.Fatal(err)
			}
			env.broker, env.redis, env.fake = rb, rb, fake
			closeFn = func() {
				_ = rb.Close(context.Background())
				shard.Close()
				_ = node.Shutdown(context.Background())
			}
		}
		out = append(out, fmt.Sprintf("ok t0=%d", start.UnixMilli()))
		for _, l := range lines[1:] {
			if l == "" || strings.HasPrefix(l, "#") {
				out = append(out, "#")
				continue
			}
			out = append(out, env.step(l))
		}
		closeFn()
		synctest.Wait()
	})
	return out
}

func verifC18Run(t *testing.T, step func(t *testing.T, scenario []string) []string) {
	in, err := os.Open(os.Getenv("VERIF_OPS"))
	if err != nil {
		t.Skip("no VERIF_OPS")
	}
	defer in.Close()
	outF, err := os.Create(os.Getenv("VERIF_OUT"))
	if err != nil {
		t.Fatal(err)
	}
	defer outF.Close()
	w := bufio.NewWriter(outF)
	defer w.Flush()
	sc := bufio.NewScanner(in)
	sc.Buffer(make([]byte, 1<<20), 1<<26)
	var cur []string
	flush := func() {
		if len(cur) == 0 {
			return
		}
		for _, o := range step(t, cur) {
			fmt.Fprintln(w, o)
		}
		cur = nil
	}
	for sc.Scan() {
		line := sc.Text()
		if strings.HasPrefix(line, "reset") {
			flush()
			cur = []string{line}
			continue
		}
		if cur == nil {
			// lines before the first reset
			if line == "" || strings.HasPrefix(line, "#") {
				fmt.Fprintln(w, "#")
			} else {
				fmt.Fprintln(w, "bad-op")
			}
			continue
		}
		cur = append(cur, line)
	}
	flush()
}

func TestVerifC18Mem(t *testing.T) {
	verifC18Run(t, verifC18Scenario)
}

// TestVerifC18Redis runs the same op lines through the REAL RedisBroker (Go glue of broker_redis.go)
// over the fake endpoint backed by the Lean model of Redis + the translated Lua scripts.
func TestVerifC18Redis(t *testing.T) {
	if os.Getenv("VERIF_OPS") == "" {
		t.Skip("no VERIF_OPS")
	}
	lean, err := verifLeanStart()
	if err != nil {
		t.Fatal(err)
	}
	defer lean.stop()
	fake := verifFakeRedisNew(lean)
	verifC18Run(t, func(t *testing.T, sc []string) []string { return verifC18ScenarioWith(t, sc, fake) })
}
