"""Shared pieces of the C18 check: translator driver (regen), scenario generator, line parsing."""
import glob
import os
import sys

HERE = os.path.dirname(os.path.abspath(__file__))
sys.path.insert(0, HERE)
import lua2lean  # noqa: E402

# scripts whose translation the C18 / C23 obligations depend on: a failure here is a broken obligation
REQUIRED = ["broker_history_add_stream", "broker_history_add_list", "broker_history_stream", "broker_history_list",
            "broker_publish_idempotent", "map_broker_add", "map_broker_stream_read", "map_broker_read_ordered",
            "map_broker_read_unordered"]


def regen_lua(ctx, repo):
    """Translate every script under internal/redis_lua; returns (ok, report).  Required scripts that leave
    the translator's subset make ok False and are replaced by a module that does not compile (never a
    stale model)."""
    report = {}
    ok = True
    srcdir = os.path.join(repo, "internal", "redis_lua")
    seen = set()
    for path in sorted(glob.glob(os.path.join(srcdir, "*.lua"))):
        name = os.path.basename(path)[:-4]
        seen.add(name)
        mod = lua2lean.modname(name)
        try:
            text = lua2lean.translate(name, open(path).read())
            report[name] = "ok"
        except lua2lean.Unsupported as ex:
            report[name] = f"unsupported: {ex}"
            if name in REQUIRED:
                ok = False
                text = (f"-- GENERATED: translation of {name}.lua FAILED: {ex}\n"
                        f"#eval (show Nat from \"lua2lean: {name}.lua left the translator's subset\")\n")
            else:
                # not needed by C18/C23: leave no module behind
                p = os.path.join(os.path.dirname(HERE), "..", "lean", "CentrifugeVerif", "Gen", "Lua", mod + ".lean")
                if os.path.exists(p):
                    os.remove(p)
                continue
        ctx.write_gen(os.path.join("Lua", mod + ".lean"), text)
    for name in REQUIRED:
        if name not in seen:
            ok = False
            report[name] = "missing"
            ctx.write_gen(os.path.join("Lua", lua2lean.modname(name) + ".lean"),
                          f"#eval (show Nat from \"lua2lean: {name}.lua is missing\")\n")
    return ok, report


# ------------------------------------------------------------------------------------ generator
def fmt_pub(ch, data, size, ttl, meta, idem, ittl, ver, vep, delta, at):
    return (f"pub {ch} {data} size={size} ttl={ttl} meta={meta} idem={idem or '-'} ittl={ittl} ver={ver} "
            f"vep={vep or '-'} delta={delta} @{at}")


def fmt_get(ch, since, limit, rev, meta, at):
    s = "-" if since is None else f"{since[0]}:{since[1]}"
    return f"get {ch} since={s} limit={limit} rev={rev} meta={meta} @{at}"


def gen_scenario(rng, lists, profile):
    """One scenario (list of op lines, first is `reset`).

    Times: op number i happens at second k_i (non-decreasing) and millisecond 500+i, so that a TTL armed
    by an earlier op has the same whole-second verdict on both sides (memory works at 1 s granularity).
    Every channel keeps one history TTL and one meta TTL for the whole scenario (a deadline shortened by a
    later call is honoured late by the memory broker's expiry heap — C17's subject, not compared here), and
    meta TTL >= history TTL.
    profile 'core': the region where the two brokers are expected to agree — versions < 2^53 (mixed with
                    unversioned publishes); idempotency keys only on history publishes; reverse reads without `since` or with since in {1, 2}; list
                    storage: no versions, no delta, no reverse.
    profile 'wide': additionally versions >= 2^53, idempotency keys on
                    no-history publishes, arbitrary reverse+since, and for lists versions/delta/reverse —
                    the region where the known differences live.
    """
    wide = profile == "wide"
    node_meta = rng.choice([0, 0, 20000, 60000])
    ops = [f"reset meta={node_meta} lists={1 if lists else 0}"]
    chans = ["a", "b"] if rng.random() < 0.6 else ["a"]
    per = {}
    for ch in chans:
        p = {"size": rng.choice([1, 2, 3, 3, 5]), "ttl": rng.choice([3000, 5000, 10000, 10000]),
             "meta": rng.choice([0, 0, 12000, 30000]), "top": 0,
             "versioned": rng.random() < (0.45 if not lists or wide else 0.0), "ver": 0}
        if lists:
            p["meta"] = 0  # historyList ignores HistoryOptions.MetaTTL; keep one meta TTL per channel
        eff = p["meta"] or node_meta
        if eff and eff < p["ttl"]:
            p["ttl"] = 3000 if eff >= 3000 else p["ttl"]
        eff = p["meta"] or node_meta
        if eff and eff < p["ttl"]:
            p["meta"] = p["ttl"] + 5000
        per[ch] = p
    t = 0
    n = rng.randint(6, 28)
    idem_keys = ["k1", "k2"]
    for i in range(1, n + 1):
        if rng.random() < 0.35:
            t += rng.choice([0, 0, 0, 1, 1, 2, 3, 5, 8])
        at = t * 1000 + 500 + i
        ch = rng.choice(chans)
        p = per[ch]
        k = rng.random()
        if k < 0.55:
            size, ttl, meta = p["size"], p["ttl"], p["meta"]
            idem, ittl, v, vep, delta = "", 0, 0, "", 0
            if rng.random() < 0.3:
                idem = rng.choice(idem_keys)
                ittl = rng.choice([0, 2000, 5000])
            if p["versioned"] and rng.random() < 0.75:
                p["ver"] = max(1, p["ver"] + rng.choice([1, 1, 2, -1, 0, 3]))
                v = p["ver"]
                if wide and rng.random() < 0.15:
                    v = rng.choice([2 ** 53, 2 ** 53 + 1, 2 ** 63, 2 ** 64 - 1, 2 ** 53 - 1])
                if rng.random() < 0.3:
                    vep = rng.choice(["x", "y"])
            if rng.random() < 0.3 and (wide or not lists):
                delta = 1
            nohist = rng.random() < 0.1
            if nohist:
                size, ttl = rng.choice([(0, 0), (0, p["ttl"]), (p["size"], 0)])
                if not wide:
                    idem, ittl = "", 0
            if wide and rng.random() < 0.1:
                size = rng.choice([1, 2, 4])
            ops.append(fmt_pub(ch, f"d{i}", size, ttl, meta, idem, ittl, v, vep, delta, at))
            if not nohist:
                p["top"] += 1  # an upper estimate of the top offset
        elif k < 0.93:
            top = p["top"]
            since = None
            rev = 0
            limit = rng.choice([-1, -1, -1, 0, 1, 2, 3])
            if rng.random() < 0.55:
                ep = 1 if rng.random() < 0.8 else rng.choice([0, 2, 7])
                off = rng.randint(0, top + 1)
                if rng.random() < 0.15:
                    off = rng.choice([top + 2, top + 5, 2 ** 64 - 1, 2 ** 64 - 2])
                since = (off, ep)
            if rng.random() < 0.3 and (wide or not lists):
                rev = 1
                if since is not None and not wide:
                    since = (rng.choice([1, 2]), since[1])
                elif since is not None and rng.random() < 0.5:
                    since = (rng.randint(0, top + 3), since[1])
            if since is not None and rev == 0 and since[0] >= 2 ** 64 - 1:
                since = (2 ** 64 - 2, since[1])  # since = 2^64-1 forward: C17-1 (memory wrap-around), not compared
            ops.append(fmt_get(ch, since, limit, rev, p["meta"], at))
        elif k < 0.97:
            ops.append(f"rm {ch} @{at}")
        else:
            ops.append(f"sleep @{at}")
    return ops


def split_scenarios(ops):
    out, cur = [], None
    for l in ops:
        if l.startswith("reset"):
            if cur:
                out.append(cur)
            cur = [l]
        elif cur is not None:
            cur.append(l)
    if cur:
        out.append(cur)
    return out
