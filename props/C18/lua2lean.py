#!/usr/bin/env python3
"""lua2lean — translate a Redis Lua script (the subset used by /repo/internal/redis_lua/*.lua) into a
Lean 4 function over the Redis/Lua model (lean/CentrifugeVerif/Model/{LuaVal,Redis,LuaRedis}.lean).

Small and dumb on purpose: a hand-written tokenizer + recursive-descent parser (no dependencies, plain
python3) and an emitter that produces `do`-notation in A-normal form (every operator application is
one `let tN ← …` line, so the generated code does not rely on nested-action hoisting and Lua's
left-to-right evaluation order is explicit; `and`/`or` become explicit conditionals, so they
short-circuit).  Anything outside the subset raises `Unsupported` — the caller turns that into a
broken obligation; an old model is never kept silently.

Subset: `local` (multi-name, with or without initialisers), assignment to names and `name[expr]`,
`if/elseif/else`, numeric `for`, `for _, v in ipairs(t)` / `for i, v in ipairs(t)`, `break`,
`return [expr]`, expression statements that are calls; expressions: nil/true/false, integer
literals, strings, names, `KEYS[i]`/`ARGV[i]`/indexing, table constructors with positional fields,
`..`, `#`, `not`, unary minus, `+ - *`, comparisons, `and`/`or`, and calls to `redis.call`,
`tonumber`, `tostring`, `unpack` (only as the last argument of a call), `string.find`,
`string.sub`, `table.sort(name, function(a, b) return a < b end)` (or `>`).
Tables have value semantics in the model; the translator therefore rejects aliasing of a table that
is mutated afterwards (see `check_alias`).
"""
import re
import sys


class Unsupported(Exception):
    pass


KEYWORDS = {"and", "break", "do", "else", "elseif", "end", "false", "for", "function", "if", "in", "local",
            "nil", "not", "or", "repeat", "return", "then", "true", "until", "while"}

TOKEN_RE = re.compile(r"""
    (?P<ws>\s+)
  | (?P<lcomment>--\[\[.*?\]\])
  | (?P<comment>--[^\n]*)
  | (?P<num>\d+(\.\d+)?([eE][+-]?\d+)?|0[xX][0-9a-fA-F]+)
  | (?P<name>[A-Za-z_][A-Za-z_0-9]*)
  | (?P<str>"(?:[^"\\\n]|\\.)*"|'(?:[^'\\\n]|\\.)*')
  | (?P<op>\.\.\.|\.\.|==|~=|<=|>=|[-+*/%^\#<>=(){}\[\];:,.])
""", re.X | re.S)


def tokenize(src):
    toks = []
    i = 0
    while i < len(src):
        m = TOKEN_RE.match(src, i)
        if not m:
            raise Unsupported(f"cannot tokenize at offset {i}: {src[i:i + 30]!r}")
        i = m.end()
        k = m.lastgroup
        if k in ("ws", "comment", "lcomment"):
            continue
        v = m.group(k)
        if k == "name" and v in KEYWORDS:
            k = "kw"
        toks.append((k, v))
    toks.append(("eof", ""))
    return toks


def unescape(lit):
    body = lit[1:-1]
    out = []
    i = 0
    while i < len(body):
        c = body[i]
        if c != "\\":
            if ord(c) > 127:
                raise Unsupported("non-ASCII character in a string literal")
            out.append(c)
            i += 1
            continue
        i += 1
        e = body[i]
        table = {"n": "\n", "t": "\t", "r": "\r", "\\": "\\", '"': '"', "'": "'", "0": "\0", "a": "\a",
                 "b": "\b", "f": "\f", "v": "\v"}
        if e in table:
            out.append(table[e])
            i += 1
        else:
            raise Unsupported(f"string escape \\{e}")
    return "".join(out)


# ------------------------------------------------------------------------------------------ parser
BINPRI = {"or": (1, 1), "and": (2, 2), "<": (3, 3), ">": (3, 3), "<=": (3, 3), ">=": (3, 3), "~=": (3, 3),
          "==": (3, 3), "..": (5, 4), "+": (6, 6), "-": (6, 6), "*": (7, 7), "/": (7, 7), "%": (7, 7),
          "^": (10, 9)}
UNARY_PRI = 8


class Parser:
    def __init__(self, toks):
        self.t = toks
        self.p = 0

    def peek(self):
        return self.t[self.p]

    def next(self):
        tok = self.t[self.p]
        self.p += 1
        return tok

    def accept(self, val):
        if self.t[self.p][1] == val and self.t[self.p][0] in ("op", "kw"):
            self.p += 1
            return True
        return False

    def expect(self, val):
        if not self.accept(val):
            raise Unsupported(f"expected {val!r}, got {self.peek()!r}")

    def name(self):
        k, v = self.next()
        if k != "name":
            raise Unsupported(f"expected a name, got {v!r}")
        return v

    def block(self):
        stmts = []
        while True:
            k, v = self.peek()
            if k == "eof" or (k == "kw" and v in ("end", "else", "elseif", "until")):
                return stmts
            if self.accept(";"):
                continue
            s = self.statement()
            stmts.append(s)
            if s[0] in ("return", "break"):
                self.accept(";")
                k, v = self.peek()
                if not (k == "eof" or (k == "kw" and v in ("end", "else", "elseif", "until"))):
                    raise Unsupported("statement after return/break")
                return stmts

    def statement(self):
        pos = self.p
        k, v = self.peek()
        if k == "kw":
            if v == "local":
                self.next()
                if self.peek() == ("kw", "function"):
                    raise Unsupported("local function")
                names = [self.name()]
                while self.accept(","):
                    names.append(self.name())
                exprs = []
                if self.accept("="):
                    exprs = self.exprlist()
                return ("local", names, exprs, pos)
            if v == "if":
                self.next()
                arms = []
                cond = self.expr()
                self.expect("then")
                body = self.block()
                arms.append((cond, body))
                orelse = None
                while True:
                    if self.accept("elseif"):
                        c = self.expr()
                        self.expect("then")
                        b = self.block()
                        arms.append((c, b))
                    elif self.accept("else"):
                        orelse = self.block()
                        self.expect("end")
                        break
                    else:
                        self.expect("end")
                        break
                return ("if", arms, orelse, pos)
            if v == "for":
                self.next()
                n1 = self.name()
                if self.accept("="):
                    a = self.expr()
                    self.expect(",")
                    b = self.expr()
                    step = None
                    if self.accept(","):
                        step = self.expr()
                    self.expect("do")
                    body = self.block()
                    self.expect("end")
                    return ("fornum", n1, a, b, step, body, pos)
                names = [n1]
                while self.accept(","):
                    names.append(self.name())
                self.expect("in")
                it = self.exprlist()
                self.expect("do")
                body = self.block()
                self.expect("end")
                return ("forin", names, it, body, pos)
            if v == "return":
                self.next()
                k2, v2 = self.peek()
                if k2 == "eof" or (k2 == "kw" and v2 in ("end", "else", "elseif", "until")) or v2 == ";":
                    return ("return", None, pos)
                es = self.exprlist()
                if len(es) != 1:
                    raise Unsupported("return with several values")
                return ("return", es[0], pos)
            if v == "break":
                self.next()
                return ("break", pos)
            raise Unsupported(f"statement starting with {v!r}")
        # assignment or call
        e = self.suffixedexp()
        if self.peek()[1] in ("=", ","):
            targets = [e]
            while self.accept(","):
                targets.append(self.suffixedexp())
            self.expect("=")
            exprs = self.exprlist()
            return ("assign", targets, exprs, pos)
        if e[0] != "call":
            raise Unsupported("expression statement that is not a call")
        return ("callstat", e, pos)

    def exprlist(self):
        es = [self.expr()]
        while self.accept(","):
            es.append(self.expr())
        return es

    def primaryexp(self):
        k, v = self.peek()
        if k == "name":
            self.next()
            return ("name", v)
        if v == "(" and k == "op":
            self.next()
            e = self.expr()
            self.expect(")")
            return ("paren", e)
        raise Unsupported(f"unexpected token {v!r}")

    def suffixedexp(self):
        e = self.primaryexp()
        while True:
            k, v = self.peek()
            if k == "op" and v == ".":
                self.next()
                e = ("index", e, ("str", self.name()))
            elif k == "op" and v == "[":
                self.next()
                i = self.expr()
                self.expect("]")
                e = ("index", e, i)
            elif k == "op" and v == "(":
                self.next()
                args = []
                if not self.accept(")"):
                    args = self.exprlist()
                    self.expect(")")
                e = ("call", e, args)
            elif k == "op" and v == ":":
                raise Unsupported("method call")
            elif k == "str" or (k == "op" and v == "{"):
                raise Unsupported("call without parentheses")
            else:
                return e

    def simpleexp(self):
        k, v = self.peek()
        if k == "num":
            self.next()
            if not re.fullmatch(r"\d+", v):
                raise Unsupported(f"non-integer numeral {v}")
            return ("num", int(v))
        if k == "str":
            self.next()
            return ("str", unescape(v))
        if k == "kw" and v in ("nil", "true", "false"):
            self.next()
            return (v,)
        if k == "op" and v == "...":
            raise Unsupported("varargs")
        if k == "op" and v == "{":
            self.next()
            items = []
            while not self.accept("}"):
                if self.peek()[0] == "name" and self.t[self.p + 1][1] == "=":
                    raise Unsupported("table constructor with named fields")
                if self.peek()[1] == "[":
                    raise Unsupported("table constructor with [k]=v fields")
                items.append(self.expr())
                if not (self.accept(",") or self.accept(";")):
                    self.expect("}")
                    break
            return ("table", items)
        if k == "kw" and v == "function":
            self.next()
            self.expect("(")
            params = []
            if not self.accept(")"):
                params.append(self.name())
                while self.accept(","):
                    params.append(self.name())
                self.expect(")")
            body = self.block()
            self.expect("end")
            return ("function", params, body)
        return self.suffixedexp()

    def expr(self, limit=0):
        k, v = self.peek()
        if (k == "kw" and v == "not") or (k == "op" and v in ("-", "#")):
            self.next()
            operand = self.expr(UNARY_PRI)
            left = ("unop", v, operand)
        else:
            left = self.simpleexp()
        while True:
            k, v = self.peek()
            if k not in ("op", "kw") or v not in BINPRI:
                break
            lp, rp = BINPRI[v]
            if lp <= limit:
                break
            self.next()
            right = self.expr(rp)
            left = ("binop", v, left, right)
        return left


def parse(src):
    p = Parser(tokenize(src))
    b = p.block()
    if p.peek()[0] != "eof":
        raise Unsupported(f"trailing input at token {p.peek()!r}")
    return b


# ------------------------------------------------------------------------------------- alias check
def walk_stmts(block, fn, in_loop=False):
    for s in block:
        fn(s, in_loop)
        if s[0] == "if":
            for _, b in s[1]:
                walk_stmts(b, fn, in_loop)
            if s[2] is not None:
                walk_stmts(s[2], fn, in_loop)
        elif s[0] == "fornum":
            walk_stmts(s[5], fn, True)
        elif s[0] == "forin":
            walk_stmts(s[3], fn, True)


def check_alias(block):
    """Tables are values in the model.  That is sound as long as no table is reachable through two
    names while one of them is mutated.  Mutations: `n[e] = v` and `table.sort(n, …)`.  A statement
    `a = b` / `local a = b` (bare names) involving a mutated name must come textually after the last
    mutation of both and must not sit in a loop."""
    mutated = {}

    def coll(s, in_loop):
        if s[0] == "assign":
            for t in s[1]:
                if t[0] == "index":
                    if t[1][0] != "name":
                        raise Unsupported("assignment through a nested index")
                    mutated[t[1][1]] = max(mutated.get(t[1][1], -1), s[-1])
        if s[0] == "callstat":
            c = s[1]
            if c[1] == ("index", ("name", "table"), ("str", "sort")) and c[2] and c[2][0][0] == "name":
                mutated[c[2][0][1]] = max(mutated.get(c[2][0][1], -1), s[-1])
    walk_stmts(block, coll)

    def chk(s, in_loop):
        if s[0] in ("assign", "local"):
            targets = s[1]
            for t, e in zip(targets, s[2]):
                tn = t if s[0] == "local" else (t[1] if t[0] == "name" else None)
                if tn is None or e[0] != "name":
                    continue
                for n in (tn, e[1]):
                    if n in mutated and (in_loop or mutated[n] > s[-1]):
                        raise Unsupported(f"table {n} is aliased and mutated afterwards (value semantics unsound)")
    walk_stmts(block, chk)


# ----------------------------------------------------------------------------------------- emitter
def lean_str(s):
    out = ['"']
    for c in s:
        o = ord(c)
        if c == '"':
            out.append('\\"')
        elif c == "\\":
            out.append("\\\\")
        elif c == "\n":
            out.append("\\n")
        elif c == "\t":
            out.append("\\t")
        elif c == "\r":
            out.append("\\r")
        elif o < 32 or o == 127:
            out.append("\\x%02x" % o)
        else:
            out.append(c)
    out.append('"')
    return "".join(out)


class Emitter:
    def __init__(self):
        self.lines = []
        self.ntmp = 0
        self.commands = set()
        self.dynamic_commands = False
        self.loopvars = []

    def tmp(self):
        self.ntmp += 1
        return f"t{self.ntmp}"

    def out(self, ind, text):
        self.lines.append("  " * ind + text)

    def var(self, n):
        if n in ("KEYS", "ARGV"):
            return n
        return "v_" + n

    # expressions: emit statements, return an atomic term
    def expr(self, e, ind):
        k = e[0]
        if k == "nil":
            return "LVal.nil"
        if k == "true":
            return "(LVal.bool true)"
        if k == "false":
            return "(LVal.bool false)"
        if k == "num":
            return f"(LVal.num {e[1]})"
        if k == "str":
            return f"(LVal.str {lean_str(e[1])})"
        if k == "name":
            if e[1] in ("redis", "string", "table", "math", "tonumber", "tostring", "unpack", "ipairs", "pairs",
                        "next", "type", "error", "pcall", "select", "cjson", "cmsgpack", "bit"):
                raise Unsupported(f"library name {e[1]} used as a value")
            return self.var(e[1])
        if k == "paren":
            return self.expr(e[1], ind)
        if k == "index":
            a = self.expr(e[1], ind)
            b = self.expr(e[2], ind)
            t = self.tmp()
            self.out(ind, f"let {t} ← liftE (Lua.index {a} {b})")
            return t
        if k == "table":
            items = [self.expr(x, ind) for x in e[1]]
            for x in e[1]:
                if x[0] == "call":
                    # a call in a constructor could expand to several values
                    self.single_valued_call(x)
            t = self.tmp()
            self.out(ind, f"let {t} ← liftE (Lua.mkTable [{', '.join(items)}])")
            return t
        if k == "unop":
            a = self.expr(e[2], ind)
            t = self.tmp()
            if e[1] == "not":
                self.out(ind, f"let {t} := Lua.ofBool (!Lua.truthy {a})")
            elif e[1] == "#":
                self.out(ind, f"let {t} ← liftE (Lua.len {a})")
            elif e[1] == "-":
                self.out(ind, f"let {t} ← liftE (Lua.neg {a})")
            else:
                raise Unsupported(f"unary {e[1]}")
            return t
        if k == "binop":
            op = e[1]
            if op in ("and", "or"):
                a = self.expr(e[2], ind)
                t = self.tmp()
                cond = f"Lua.truthy {a}" if op == "and" else f"!Lua.truthy {a}"
                self.out(ind, f"let {t} ← (if {cond} then (do")
                b = self.expr(e[3], ind + 2)
                self.out(ind + 2, f"pure {b}) else pure {a} : RedisM LVal)")
                return t
            a = self.expr(e[2], ind)
            b = self.expr(e[3], ind)
            t = self.tmp()
            if op == "==":
                self.out(ind, f"let {t} := Lua.ofBool (Lua.eq {a} {b})")
            elif op == "~=":
                self.out(ind, f"let {t} := Lua.ofBool (!Lua.eq {a} {b})")
            elif op == "<":
                self.out(ind, f"let {t} := Lua.ofBool (← liftE (Lua.lt {a} {b}))")
            elif op == ">":
                self.out(ind, f"let {t} := Lua.ofBool (← liftE (Lua.lt {b} {a}))")
            elif op == "<=":
                self.out(ind, f"let {t} := Lua.ofBool (← liftE (Lua.le {a} {b}))")
            elif op == ">=":
                self.out(ind, f"let {t} := Lua.ofBool (← liftE (Lua.le {b} {a}))")
            elif op == "..":
                self.out(ind, f"let {t} ← liftE (Lua.concat {a} {b})")
            elif op == "+":
                self.out(ind, f"let {t} ← liftE (Lua.add {a} {b})")
            elif op == "-":
                self.out(ind, f"let {t} ← liftE (Lua.sub {a} {b})")
            elif op == "*":
                self.out(ind, f"let {t} ← liftE (Lua.mul {a} {b})")
            else:
                raise Unsupported(f"operator {op}")
            return t
        if k == "call":
            return self.call(e, ind)
        if k == "function":
            raise Unsupported("function value")
        raise Unsupported(f"expression kind {k}")

    def single_valued_call(self, c):
        f = c[1]
        if f in (("name", "tonumber"), ("name", "tostring"), ("index", ("name", "redis"), ("str", "call")),
                 ("index", ("name", "string"), ("str", "sub"))):
            return
        raise Unsupported("a call that may return several values is used in a value list")

    def args(self, args, ind):
        """argument list of redis.call: atoms, with `unpack(t)` allowed in last position"""
        parts = []
        for i, a in enumerate(args):
            if a[0] == "call" and a[1] == ("name", "unpack"):
                if i != len(args) - 1 or len(a[2]) != 1:
                    raise Unsupported("unpack outside the last argument position")
                x = self.expr(a[2][0], ind)
                t = self.tmp()
                self.out(ind, f"let {t} ← liftE (Lua.unpack {x})")
                parts.append(("list", t))
            else:
                parts.append(("atom", self.expr(a, ind)))
        atoms = [p[1] for p in parts if p[0] == "atom"]
        s = "[" + ", ".join(atoms) + "]"
        if parts and parts[-1][0] == "list":
            s = f"({s} ++ {parts[-1][1]})"
        return s

    def call(self, e, ind):
        f, args = e[1], e[2]
        t = self.tmp()
        if f == ("index", ("name", "redis"), ("str", "call")):
            if not args:
                raise Unsupported("redis.call without arguments")
            if args[0][0] == "str":
                self.commands.add(args[0][1].lower())
            else:
                self.dynamic_commands = True
            a = self.args(args, ind)
            self.out(ind, f"let {t} ← call {a}")
            return t
        if f == ("name", "tonumber"):
            if len(args) != 1:
                raise Unsupported("tonumber with a base")
            a = self.expr(args[0], ind)
            self.out(ind, f"let {t} ← liftE (Lua.tonumber {a})")
            return t
        if f == ("name", "tostring"):
            if len(args) != 1:
                raise Unsupported("tostring arity")
            a = self.expr(args[0], ind)
            self.out(ind, f"let {t} ← liftE (Lua.tostring {a})")
            return t
        if f == ("index", ("name", "string"), ("str", "find")):
            if len(args) != 2:
                raise Unsupported("string.find with init/plain arguments")
            a = self.expr(args[0], ind)
            b = self.expr(args[1], ind)
            self.out(ind, f"let {t} ← liftE (Lua.stringFind {a} {b})")
            return t
        if f == ("index", ("name", "string"), ("str", "sub")):
            if len(args) != 3:
                raise Unsupported("string.sub arity")
            a = self.expr(args[0], ind)
            b = self.expr(args[1], ind)
            c = self.expr(args[2], ind)
            self.out(ind, f"let {t} ← liftE (Lua.stringSub {a} {b} {c})")
            return t
        raise Unsupported(f"call of {f}")

    # statements
    def block(self, stmts, ind):
        if not stmts:
            self.out(ind, "pure ()")
        for s in stmts:
            self.stmt(s, ind)

    def assign_values(self, exprs, n, ind):
        """evaluate the right-hand sides (all before any assignment) and pad/truncate to n values"""
        if len(exprs) > n:
            raise Unsupported("more values than targets")
        vals = []
        for i, x in enumerate(exprs):
            if x[0] == "call" and i == len(exprs) - 1 and len(exprs) < n:
                raise Unsupported("multiple results of a call spread over several targets")
            if x[0] == "call" and i == len(exprs) - 1:
                pass
            vals.append(self.expr(x, ind))
        while len(vals) < n:
            vals.append("LVal.nil")
        return vals

    def stmt(self, s, ind):
        k = s[0]
        if k == "local":
            names, exprs = s[1], s[2]
            vals = self.assign_values(exprs, len(names), ind)
            for n, v in zip(names, vals):
                if n in ("KEYS", "ARGV"):
                    raise Unsupported("shadowing KEYS/ARGV")
                self.out(ind, f"let mut {self.var(n)} : LVal := {v}")
            return
        if k == "assign":
            targets, exprs = s[1], s[2]
            if len(targets) == 1 and targets[0][0] == "index":
                tgt = targets[0]
                if tgt[1][0] != "name" or tgt[1][1] in ("KEYS", "ARGV"):
                    raise Unsupported("assignment through a nested index / into KEYS or ARGV")
                if len(exprs) != 1:
                    raise Unsupported("multi-value table assignment")
                base = self.var(tgt[1][1])
                if tgt[1][1] in self.loopvars:
                    raise Unsupported("assignment to a loop variable")
                i = self.expr(tgt[2], ind)
                v = self.expr(exprs[0], ind)
                self.out(ind, f"{base} ← liftE (Lua.setIndex {base} {i} {v})")
                return
            for t in targets:
                if t[0] != "name":
                    raise Unsupported("mixed multiple assignment")
                if t[1] in self.loopvars or t[1] in ("KEYS", "ARGV"):
                    raise Unsupported("assignment to a loop variable / KEYS / ARGV")
            vals = self.assign_values(exprs, len(targets), ind)
            for t, v in zip(targets, vals):
                self.out(ind, f"{self.var(t[1])} := {v}")
            return
        if k == "callstat":
            c = s[1]
            if c[1] == ("index", ("name", "table"), ("str", "sort")):
                args = c[2]
                if len(args) != 2 or args[0][0] != "name" or args[1][0] != "function":
                    raise Unsupported("table.sort form")
                fn = args[1]
                params, body = fn[1], fn[2]
                if len(params) != 2 or len(body) != 1 or body[0][0] != "return":
                    raise Unsupported("table.sort comparator form")
                r = body[0][1]
                a, b = params
                if r == ("binop", "<", ("name", a), ("name", b)):
                    desc = "false"
                elif r == ("binop", ">", ("name", a), ("name", b)):
                    desc = "true"
                else:
                    raise Unsupported("table.sort comparator is neither a < b nor a > b")
                v = self.var(args[0][1])
                self.out(ind, f"{v} ← liftE (Lua.sortBy {desc} {v})")
                return
            self.expr(c, ind)
            return
        if k == "return":
            if s[1] is None:
                self.out(ind, "return LVal.nil")
            else:
                if s[1][0] == "call":
                    self.single_valued_call(s[1])
                v = self.expr(s[1], ind)
                self.out(ind, f"return {v}")
            return
        if k == "break":
            self.out(ind, "break")
            return
        if k == "if":
            arms, orelse = s[1], s[2]
            self.emit_if(arms, orelse, ind)
            return
        if k == "fornum":
            _, n, a, b, step, body, _ = s
            ta = self.expr(a, ind)
            tb = self.expr(b, ind)
            ts = self.expr(step, ind) if step is not None else "(LVal.num 1)"
            t = self.tmp()
            self.out(ind, f"let {t} ← liftE (Lua.numRange {ta} {tb} {ts})")
            self.out(ind, f"for {self.var(n)} in {t} do")
            self.loopvars.append(n)
            self.block(body, ind + 1)
            self.loopvars.pop()
            return
        if k == "forin":
            _, names, its, body, _ = s
            if len(its) != 1 or its[0][0] != "call" or its[0][1] != ("name", "ipairs") or len(its[0][2]) != 1:
                raise Unsupported("generic for over something other than ipairs(t)")
            if len(names) != 2:
                raise Unsupported("ipairs loop must bind two names")
            x = self.expr(its[0][2][0], ind)
            t = self.tmp()
            self.out(ind, f"let {t} ← liftE (Lua.ipairs {x})")
            iv, vv = names
            self.out(ind, f"for ({self.var(iv)}, {self.var(vv)}) in "
                          f"(List.zip ((List.range {t}.length).map (fun (k : Nat) => LVal.num ((k : Int) + 1))) {t}) do")
            self.loopvars += [iv, vv]
            self.block(body, ind + 1)
            self.loopvars.pop()
            self.loopvars.pop()
            return
        raise Unsupported(f"statement kind {k}")

    def emit_if(self, arms, orelse, ind):
        cond, body = arms[0]
        c = self.expr(cond, ind)
        self.out(ind, f"if Lua.truthy {c} then")
        self.block(body, ind + 1)
        rest = arms[1:]
        if rest:
            self.out(ind, "else")
            self.emit_if(rest, orelse, ind + 1)
        elif orelse is not None:
            self.out(ind, "else")
            self.block(orelse, ind + 1)


SUPPORTED_COMMANDS = {
    "hget", "hmget", "hset", "hincrby", "hlen", "hexists", "hdel", "hgetall", "hscan", "hpexpire", "exists", "del",
    "expire", "pexpire", "publish", "spublish", "lpush", "ltrim", "lrange", "lindex", "zadd", "zrem", "zscore",
    "zcard", "zrange", "zrevrange", "zrangebyscore", "zrevrangebyscore", "xadd", "xrange", "xrevrange"}


def assigned_names(stmts):
    """names assigned (plainly, through an index, or by table.sort) anywhere inside the statements"""
    out = set()

    def visit(s, _):
        if s[0] == "assign":
            for t in s[1]:
                if t[0] == "name":
                    out.add(t[1])
                elif t[0] == "index" and t[1][0] == "name":
                    out.add(t[1][1])
        elif s[0] == "callstat":
            c = s[1]
            if c[1] == ("index", ("name", "table"), ("str", "sort")) and c[2] and c[2][0][0] == "name":
                out.add(c[2][0][1])
    walk_stmts(stmts, visit)
    return out


def split_chunks(ast):
    """top-level statement list → chunks: every compound statement (if / for) is a chunk of its own, runs of
    simple statements in between are grouped"""
    chunks, cur = [], []
    for st in ast:
        if st[0] in ("if", "fornum", "forin"):
            if cur:
                chunks.append(cur)
                cur = []
            chunks.append([st])
        else:
            cur.append(st)
    if cur:
        chunks.append(cur)
    return chunks or [[]]


def translate(name, src):
    """Lua source → Lean module text defining `CentrifugeVerif.Gen.Lua.<name>`.

    The top-level statement sequence is cut into parts `<name>_p0 … <name>_pN` (one per top-level compound
    statement / run of simple statements); part i takes KEYS, ARGV and the top-level locals declared so far
    and ends by calling part i+1.  This keeps every definition small, so that proofs can execute the script
    symbolically part by part."""
    import hashlib
    ast = parse(src)
    check_alias(ast)
    chunks = split_chunks(ast)
    commands, dynamic = set(), False
    # top-level locals in scope at the start of each chunk
    scope = []
    scopes = []
    for ch in chunks:
        scopes.append(list(scope))
        for st in ch:
            if st[0] == "local":
                for n in st[1]:
                    if n not in scope:
                        scope.append(n)
    scopes.append(list(scope))
    defs = []
    for idx, ch in enumerate(chunks):
        em = Emitter()
        params = scopes[idx]
        for n in sorted(assigned_names(ch) & set(params), key=params.index):
            em.out(1, f"let mut {em.var(n)} : LVal := {em.var(n)}")
        for st in ch:
            em.stmt(st, 1)
        last = idx == len(chunks) - 1
        if last:
            if not ch or ch[-1][0] != "return":
                em.out(1, "return LVal.nil")
        else:
            args = " ".join(em.var(n) for n in scopes[idx + 1])
            em.out(1, f"{name}_p{idx + 1} KEYS ARGV {args}".rstrip())
        commands |= em.commands
        dynamic = dynamic or em.dynamic_commands
        ps = " ".join(f"({em.var(n)} : LVal)" for n in params)
        head = f"def {name}_p{idx} (KEYS ARGV : LVal) {ps}".rstrip() + " : RedisM LVal := do"
        defs.append("\n".join([head] + em.lines))
    unknown = sorted(commands - SUPPORTED_COMMANDS)
    if unknown:
        raise Unsupported(f"Redis commands not in the model: {unknown}")
    head = [
        "import CentrifugeVerif.Model.LuaRedis",
        "/-",
        f"GENERATED by props/C18/lua2lean.py from internal/redis_lua/{name}.lua — do not edit.",
        f"source sha1: {hashlib.sha1(src.encode()).hexdigest()}",
        f"redis commands (literal): {' '.join(sorted(commands))}"
        + ("  (+ a command name taken from a variable)" if dynamic else ""),
        f"parts: {len(chunks)}",
        "-/",
        "set_option linter.unusedVariables false",
        "namespace CentrifugeVerif.Gen.Lua",
        "open CentrifugeVerif CentrifugeVerif.Lua CentrifugeVerif.LuaRedis",
        "",
    ]
    body = "\n\n".join(reversed(defs))
    entry = f"\n\ndef {name} (KEYS ARGV : LVal) : RedisM LVal := {name}_p0 KEYS ARGV\n"
    return "\n".join(head) + body + entry + "\nend CentrifugeVerif.Gen.Lua\n"


def modname(script):
    return "".join(w.capitalize() for w in script.split("_"))


if __name__ == "__main__":
    for path in sys.argv[1:]:
        nm = path.rsplit("/", 1)[-1][:-4]
        try:
            txt = translate(nm, open(path).read())
            sys.stdout.write(txt)
        except Unsupported as ex:
            print(f"UNSUPPORTED {nm}: {ex}", file=sys.stderr)
            sys.exit(1)
