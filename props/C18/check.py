"""C18 — Redis and Memory stream brokers agree.

Redis side  = the REAL RedisBroker (Go glue of broker_redis.go: argument marshalling, reply parsing,
              historyStream/historyList post-processing, handleRedisClientMessage) talking RESP2 to an
              in-process fake endpoint (harness/zz_verif_redisfake_test.go) that forwards every command to the
              Lean driver drv_c23: the trusted Redis/Lua model (Model/{LuaVal,Redis,LuaRedis}.lean) running
              the Lua scripts of /repo/internal/redis_lua, re-translated to Lean on every run (lua2lean.py →
              Gen/Lua/*.lean).  Additionally the hand model of that Go glue (Model/RedisGlue.lean, driver
              lean/Drivers/C18.lean — the one the Lean examples talk about) is compared with the real glue.
Memory side = the REAL MemoryBroker, driven by harness/zz_verif_c18_test.go inside a synctest bubble.

Both run the same op lines; the property *is* that the outputs agree (offsets, epochs as first-seen
indices, suppression outcome, publications, stream positions, and the HandlePublication call each
publish leads to).  Every disagreement is reported with the shrunk scenario as replay (the memory half
replays on the real code, the Redis half on the translated scripts).  Disagreements that are genuine
differences of the unchanged code are listed in findings.json, each with a narrow signature, and are
re-derived from their stored replay on every run.
"""
import json
import os
import sys

sys.path.insert(0, os.path.dirname(os.path.abspath(__file__)))
import c18lib  # noqa: E402
from vlib.core import ddmin, REPO  # noqa: E402

HARNESS = ["props/C18/harness/zz_verif_c18_test.go", "props/C18/harness/zz_verif_redisfake_test.go"]
TWO53 = 2 ** 53


def regen(ctx):
    ok, report = c18lib.regen_lua(ctx, REPO)
    ctx.extra["lua2lean"] = report
    return ok


# ------------------------------------------------------------------------------------- parsing
def kvs(ws):
    d = {}
    for w in ws:
        if w.startswith("@"):
            d["@"] = int(w[1:])
        elif "=" in w:
            k, v = w.split("=", 1)
            d[k] = v
    return d


def parse_op(line):
    ws = line.split()
    k = ws[0]
    if k == "reset":
        d = kvs(ws[1:])
        return {"k": "reset", "meta": int(d["meta"]), "lists": int(d.get("lists", "0"))}
    if k == "pub":
        d = kvs(ws[3:])
        return {"k": "pub", "ch": ws[1], "data": ws[2], "size": int(d["size"]), "ttl": int(d["ttl"]),
                "meta": int(d["meta"]), "idem": "" if d["idem"] == "-" else d["idem"], "ittl": int(d["ittl"]),
                "ver": int(d["ver"]), "vep": "" if d["vep"] == "-" else d["vep"], "delta": int(d["delta"]),
                "at": d["@"]}
    if k == "get":
        d = kvs(ws[2:])
        since = None
        if d["since"] != "-":
            o, e = d["since"].split(":")
            since = (int(o), int(e))
        return {"k": "get", "ch": ws[1], "since": since, "limit": int(d["limit"]), "rev": int(d["rev"]),
                "meta": int(d["meta"]), "at": d["@"]}
    if k == "rm":
        return {"k": "rm", "ch": ws[1], "at": kvs(ws[2:])["@"]}
    return {"k": k}


def outkv(out):
    return kvs(out.split())


# ---------------------------------------------------------------------------- known differences
def classify(sc, j, mem, red):
    """Signature of the first disagreement of scenario `sc` (op index j).  The signature names one of the
    known difference classes only when the *precondition* of that class holds in the prefix; anything
    else gets the generic shape signature (which matches no finding)."""
    hdr = parse_op(sc[0])
    op = parse_op(sc[j])
    lists = bool(hdr["lists"])
    prefix = [(parse_op(sc[i]), mem[i], red[i]) for i in range(1, j)]
    same = [(o, a, b) for (o, a, b) in prefix if o.get("ch") == op.get("ch")]
    m, r = mem[j], red[j]
    mk, rk = (outkv(m) if "=" in m else {}), (outkv(r) if "=" in r else {})
    sig = {"kind": "unclassified", "op": op["k"], "lists": lists,
           "mem": (mk.get("sup") or ("pubs" if "pubs" in mk else m[:12])),
           "red": (rk.get("sup") or ("pubs" if "pubs" in rk else r[:24]))}
    hist = lambda o: o["k"] == "pub" and o["size"] > 0 and o["ttl"] > 0  # noqa: E731
    if op["k"] == "pub":
        has_hist = hist(op)
        if has_hist and op["ver"] > 0 and not lists and {mk.get("sup"), rk.get("sup")} == {"none", "ver"}:
            # replay the three version rules over the channel's prefix (stored publishes are the ones both
            # sides reported as sup=none): memory (every stored publish overwrites the pair, also with 0),
            # ideal Redis (exact integers, only versioned publishes write v/ve), actual Redis (Go formats
            # the version with Itoa(int(v)), Lua compares doubles)
            wrap = lambda v: v if v < 2 ** 63 else v - 2 ** 64  # noqa: E731
            num = lambda v: float(wrap(v))  # noqa: E731
            mem_v, ideal, actual, ep = None, None, None, None
            for (o, a, _) in same:
                if not hist(o):
                    continue
                ao = outkv(a)
                if ao.get("sup") == "idem":
                    # an idempotency-suppressed publish reports the CACHED result (possibly an older epoch):
                    # it neither stores anything nor tells the stream's current epoch
                    continue
                if ao.get("ep") != ep:
                    mem_v, ideal, actual, ep = None, None, None, ao.get("ep")
                if ao.get("sup") != "none":
                    continue
                if o["ver"] > 0:
                    # (since /repo a5ec69f4 the memory stream keeps its top version on an unversioned publish)
                    mem_v = (o["ver"], o["vep"])
                    ideal, actual = (o["ver"], o["vep"]), (num(o["ver"]), o["vep"], o["ver"])
            epok = lambda st: op["vep"] == "" or op["vep"] == st[1]  # noqa: E731
            mem_s = mem_v is not None and epok(mem_v) and op["ver"] <= mem_v[0]
            ideal_s = ideal is not None and epok(ideal) and ideal[0] >= op["ver"]
            actual_s = actual is not None and epok(actual) and actual[0] >= num(op["ver"])
            if (mk["sup"] == "ver") == mem_s and (rk["sup"] == "ver") == actual_s:
                if ideal_s != actual_s:
                    wraps = op["ver"] >= 2 ** 63 or (actual is not None and actual[2] >= 2 ** 63)
                    return {"kind": "version-beyond-2^53-on-redis", "how": "int-wrap" if wraps else "double-rounding"}
                if mem_s != ideal_s:
                    return {"kind": "memory-unversioned-publish-resets-version", "side": "memory"}
        if lists and has_hist and op["ver"] > 0 and mk.get("sup") == "ver" and rk.get("sup") == "none":
            return {"kind": "list-storage-has-no-version-suppression", "side": "redis"}
        if lists and has_hist and op["delta"] == 1 and rk.get("bc") == "undeliverable" and mk.get("sup") == "none":
            return {"kind": "list-storage-delta-push-carries-raw-list-value", "side": "redis"}
        if (not has_hist) and op["idem"] and mk.get("sup") == "idem" and rk.get("sup") == "none":
            return {"kind": "no-history-idempotent-repeat-not-flagged-on-redis", "side": "redis"}
        if (has_hist and op["idem"] and mk.get("sup") == "idem" and r.startswith("err=reply:offset")
                and any(o["k"] == "pub" and not hist(o) and o["idem"] == op["idem"] for (o, _, _) in same)):
            return {"kind": "idempotency-key-of-no-history-publish-breaks-history-publish-on-redis", "side": "redis"}
    # a version-suppressed publish with UseDelta reads the previous publication first (historyHub.getLocked),
    # which refreshes the meta deadline on the memory broker; the Redis script returns before EXPIRE
    if (not lists and any(o["k"] == "pub" and o["delta"] == 1 and outkv(a).get("sup") == "ver" and (o["meta"] or hdr["meta"])
                          for (o, a, _) in same)):
        em = mk.get("ep") or (mk.get("pos", ":").split(":")[1])
        er = rk.get("ep") or (rk.get("pos", ":").split(":")[1])
        if em and er and em.isdigit() and er.isdigit() and int(er) > int(em):
            return {"kind": "memory-suppressed-delta-publish-refreshes-meta-ttl", "side": "memory"}
    if op["k"] == "get" and "pubs" in mk and "pubs" in rk:
        mp, rp = mk["pubs"], rk["pubs"]
        pos_m, pos_r = mk.get("pos"), rk.get("pos")
        if lists and op["rev"] == 1 and pos_m == pos_r:
            return {"kind": "list-storage-ignores-reverse", "side": "redis"}
        if (not lists and op["rev"] == 1 and op["since"] is not None and pos_m == pos_r and mp == "-" and rp != "-"):
            top = int(pos_m.split(":")[0])
            if op["since"][0] == 0 or op["since"][0] - 1 > top:
                return {"kind": "reverse-since-out-of-range-returns-stream-on-redis", "side": "redis",
                        "since": "zero" if op["since"][0] == 0 else "beyond-top"}
        if (pos_m == pos_r and rp == "-" and mp != "-"
                and any(o["k"] == "pub" and outkv(a).get("sup") == "ver" for (o, a, _) in same)):
            return {"kind": "memory-suppressed-publish-extends-history-ttl", "side": "memory"}
        if (not lists and pos_r.startswith("0:") and rp != "-"
                and any(hist(o) and (o["meta"] or hdr["meta"]) and (o["meta"] or hdr["meta"]) < o["ttl"]
                        for (o, _, _) in same)):
            return {"kind": "redis-meta-expired-before-stream-old-publications-under-new-epoch", "side": "redis"}
    return sig


# ------------------------------------------------------------------------------------------ run
def drivers(ctx):
    if not hasattr(ctx, "_drv"):
        # once per run (every lake call takes the global build lock)
        ctx._drv = ctx.lean_driver_build()
        ctx._srv = ctx.lean_driver_build("drv_c23")
    return ctx._drv, ctx._srv


def run_both(ctx, binary, ops):
    """memory side (real MemoryBroker) and Redis side (REAL RedisBroker Go code over the fake endpoint that is
    backed by the Lean Redis model + translated scripts)"""
    _, srv = drivers(ctx)
    impl = ctx.go_run(binary, "TestVerifC18Mem", ops)
    if srv is None:
        return impl, None
    red = ctx.go_run(binary, "TestVerifC18Redis", ops, env={"VERIF_REDIS_DRV": srv})
    return impl, red


def run_hand_model(ctx, ops):
    """the hand model of the Go glue (Model/RedisGlue.lean) over the same scripts and Redis model"""
    drv, _ = drivers(ctx)
    return ctx.run_lines([drv], ops) if drv else None


def first_diff(sc, a, m):
    for j in range(1, len(sc)):
        x = a[j] if j < len(a) else "<missing>"
        y = m[j] if j < len(m) else "<missing>"
        if x != y:
            return j
    return None


def report_diff(ctx, binary, sc, a, m, j, nviol):
    """shrink the scenario (same first-diff signature) and register the violation"""
    sig0 = classify(sc, j, a, m)

    def fails(sub):
        s2 = [sc[0]] + sub
        i2, m2 = run_both(ctx, binary, s2)
        if m2 is None:
            return False
        j2 = first_diff(s2, i2, m2)
        return j2 is not None and classify(s2, j2, i2, m2) == sig0
    body = sc[1:j + 1]
    if sig0["kind"] != "unclassified":
        # a known difference class (each has its own minimal stored replay): no shrinking needed
        ctx.count("diff:" + sig0["kind"])
        ctx.violation("property",
                      f"Redis side and memory broker disagree at `{sc[j]}`: memory `{a[j]}` vs redis `{m[j]}`",
                      signature=sig0,
                      replay={"ops": sc[:j + 1], "memory_real": a[:j + 1], "redis_model": m[:j + 1],
                              "first_diff_index": j})
        return
    if nviol < 2 and len(body) > 1:
        try:
            body = ddmin(body, fails)
        except AssertionError:
            pass
    small = [sc[0]] + body
    i2, m2 = run_both(ctx, binary, small)
    j2 = first_diff(small, i2, m2 or [])
    sig = classify(small, j2, i2, m2) if j2 is not None and m2 else sig0
    ctx.count("diff:" + sig["kind"])
    ctx.violation("property",
                  f"Redis side and memory broker disagree at `{small[j2] if j2 else sc[j]}`: "
                  f"memory `{(i2[j2] if j2 else a[j])}` vs redis `{(m2[j2] if j2 and m2 else m[j])}`",
                  signature=sig,
                  replay={"ops": small, "memory_real": i2, "redis_model": m2, "first_diff_index": j2,
                          "note": "memory_real = real MemoryBroker under synctest; redis_model = translated Lua "
                                  "scripts over the Redis model (lean/Drivers/C23.lean)"})


def run(ctx):
    ctx.rule = ("scenarios of publish/history/remove ops on 1-2 channels over virtual time (TTL expiry of history, "
                "meta and idempotency results; trimming; idempotency keys; versions with epochs; delta; forward / "
                "reverse / since / limit reads), stream and list storage; 'core' profile = the region where agreement "
                "is expected (any disagreement is a violation), 'wide' profile = everything incl. versions >= 2^53, "
                "no-history publishes, out-of-range reverse reads (disagreements are classified against the known "
                "findings by precondition); non-trivial = scenario with >= 1 stored publication and >= 1 read; "
                "distinct = distinct scenario text")
    ctx.assumptions = [
        "Redis command semantics and Lua 5.1 semantics are a hand-written trusted model (no Redis/Lua in the sandbox)",
        "single non-cluster shard, plain PUB/SUB; protobuf marshalling replaced by a round-tripping stand-in",
        "all ops of a scenario happen at increasing sub-second phases so that second-granular (memory) and "
        "millisecond-granular (Redis) TTLs give the same verdict; TTLs are whole seconds",
        "the Go glue of broker_redis.go that runs is the real one; its hand model (RedisGlue.lean) is compared "
        "with it on every run",
    ]
    ctx.trusted_base = ["Lean 4.33.0 kernel", "axioms: propext, Classical.choice, Quot.sound",
                        "Model/LuaVal.lean, Model/Redis.lean (Lua + Redis semantics)", "lua2lean.py translator",
                        "fake RESP2 endpoint + harness + canonicalisation"]
    gen_ok = regen(ctx)
    proofs_ok = ctx.lean_obligations() and gen_ok
    binary = ctx.go_test_binary(".", HARNESS)
    if binary is None:
        ctx.violation("correspondence", "harness no longer builds against package centrifuge",
                      signature={"kind": "harness-build"}, replay={"log": getattr(ctx, "build_error", "")},
                      no_input=True)
        return
    here = os.path.dirname(os.path.abspath(__file__))
    if ctx.replay:
        scenarios = c18lib.split_scenarios(json.load(open(ctx.replay)).get("ops", []))
        known = []
    else:
        corpus = [l.rstrip("\n") for l in open(os.path.join(here, "corpus.ops")) if l.strip() and not l.startswith("#")]
        scenarios = c18lib.split_scenarios(corpus)
        known = json.load(open(os.path.join(here, "findings.json")))["findings"]
        for f in known:
            scenarios += c18lib.split_scenarios(f["replay"]["ops"])
        n_core = ctx.scale(260, 6000)
        n_wide = ctx.scale(120, 3000)
        for i in range(n_core):
            scenarios.append(c18lib.gen_scenario(ctx.rng, lists=(i % 3 == 2), profile="core"))
        for i in range(n_wide):
            scenarios.append(c18lib.gen_scenario(ctx.rng, lists=(i % 3 == 2), profile="wide"))
    ops = [l for sc in scenarios for l in sc]
    impl, model = run_both(ctx, binary, ops)
    if model is None:
        proofs_ok = False
        model = []
    if len(impl) < len(ops) and ctx.last_go_crash:
        ctx.notes.append("memory harness crashed: " + str(ctx.last_go_crash)[-400:])
    pos = 0
    nviol = 0
    ndiff = 0
    for sc in scenarios:
        a, m = impl[pos:pos + len(sc)], model[pos:pos + len(sc)]
        pos += len(sc)
        stored = sum(1 for x in a if " sup=none " in x and not x.startswith("off=0 "))
        reads = sum(1 for x in a if x.startswith("pos="))
        ctx.record("\n".join(sc), nontrivial=stored > 0 and reads > 0)
        ctx.count("lists" if " lists=1" in sc[0] else "streams")
        for x in a:
            if x.startswith("off="):
                ctx.count("pub:" + outkv(x)["sup"])
            elif x.startswith("pos="):
                ctx.count("get:" + ("empty" if x.endswith("pubs=-") else "pubs"))
        for y in m:
            if y.startswith("UNSUPPORTED"):
                ctx.count("model-unsupported")
        if not model:
            continue
        j = first_diff(sc, a, m)
        if j is None:
            continue
        ndiff += 1
        if any(y.startswith("UNSUPPORTED") for y in m[:j + 1]):
            ctx.violation("correspondence", f"the scenario leaves the Redis/Lua model: {m[j]}",
                          signature={"kind": "model-unsupported"}, replay={"ops": sc[:j + 1], "redis_model": m[:j + 1]},
                          no_input=True)
            continue
        report_diff(ctx, binary, sc, a, m, j, nviol)
        if classify(sc, j, a, m)["kind"] == "unclassified":
            nviol += 1
    ctx.traces_validated = len(scenarios)
    ctx.extra["scenarios_with_a_disagreement"] = ndiff
    # correspondence of the hand model of the Go glue (RedisGlue.lean, the one the Lean examples/theorems in
    # Props/C18.lean talk about) with the real Go glue: same ops, same Redis model, same scripts
    hand = run_hand_model(ctx, ops)
    nh = 0
    if hand is not None and model:
        pos = 0
        for sc in scenarios:
            a, m = model[pos:pos + len(sc)], hand[pos:pos + len(sc)]
            pos += len(sc)
            j = first_diff(sc, a, m)
            if j is None:
                continue
            nh += 1
            if nh <= 2:
                ctx.violation("correspondence",
                              f"hand model of the Go glue differs from the real RedisBroker at `{sc[j]}`: "
                              f"real `{a[j] if j < len(a) else None}` vs hand model `{m[j] if j < len(m) else None}`",
                              signature={"kind": "glue-model-diff", "op": sc[j].split()[0]},
                              replay={"ops": sc[:j + 1], "redis_real_glue": a[:j + 1], "hand_model": m[:j + 1]},
                              no_input=True)
    ctx.extra["glue_model_disagreements"] = nh
    if not proofs_ok:
        ctx.proof_broken()
