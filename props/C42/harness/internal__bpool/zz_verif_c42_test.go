//go:build verif

package bpool

// Verification harness for C42 (injected with `go test -overlay`, never part of the repo).
// One op per line from $VERIF_OPS, one canonical line per op to $VERIF_OUT.
//
//	idx <v>                       -> next=.. prev=.. nextG=.. prevG=..   (the four log2 helpers)
//	reset <bytes|slices>          -> ok        (fresh pools, fresh id table)
//	new <kind> <slot> <cap>       -> buf=<id>  (caller allocates a foreign buffer, len 0)
//	get <kind> <n> <slot>         -> buf=<id> new=<0|1> len=.. cap=.. dirty=.. hdirty=..  | PANIC
//	put <kind> <slot> <len> <m>   -> ok | bad-slot | PANIC
//	    len = -1: B kept as is, else B = B[:min(len,cap)];  m: k keep contents, z zero all,
//	    v [0,len) non-zero rest zero, h [len,cap) non-zero rest zero, a all non-zero.
//
// `buf` ids are first-seen indices of the buffer object (pointer identity), `new=1` when the
// object was not known before (allocated by Get).  `dirty` counts non-zero elements in [0,len),
// `hdirty` those in [len,cap) (not part of the property, compared with the model only).

import (
	"bufio"
	"fmt"
	"os"
	"strconv"
	"strings"
	"sync"
	"testing"
)

type verifC42State struct {
	kind   string
	idsB   map[*ByteBuffer]int
	idsS   map[*ByteSlicesBuf]int
	slotsB map[string]*ByteBuffer
	slotsS map[string]*ByteSlicesBuf
	next   int
}

func (s *verifC42State) reset(kind string) {
	s.kind = kind
	s.idsB = map[*ByteBuffer]int{}
	s.idsS = map[*ByteSlicesBuf]int{}
	s.slotsB = map[string]*ByteBuffer{}
	s.slotsS = map[string]*ByteSlicesBuf{}
	s.next = 0
	pools = [19]sync.Pool{}
	byteSlicesBufPools = [13]sync.Pool{}
}

func verifC42Fill(mode string, n, cp int, set func(i int, dirty bool)) {
	for i := 0; i < cp; i++ {
		switch mode {
		case "z":
			set(i, false)
		case "v":
			set(i, i < n)
		case "h":
			set(i, i >= n)
		case "a":
			set(i, true)
		}
	}
}

func (s *verifC42State) step(line string) (res string) {
	defer func() {
		if r := recover(); r != nil {
			res = "PANIC"
		}
	}()
	ws := strings.Fields(line)
	if len(ws) == 0 {
		return "bad-op"
	}
	switch ws[0] {
	case "idx":
		v, err := strconv.ParseUint(ws[1], 10, 32)
		if err != nil {
			return "bad-op"
		}
		return fmt.Sprintf("next=%d prev=%d nextG=%d prevG=%d", nextLogBase2(uint32(v)), prevLogBase2(uint32(v)),
			nextLogBase2ByteSlices(uint32(v)), prevLogBase2ByteSlices(uint32(v)))
	case "reset":
		if ws[1] != "bytes" && ws[1] != "slices" {
			return "bad-op"
		}
		s.reset(ws[1])
		return "ok"
	case "new":
		cp, _ := strconv.Atoi(ws[3])
		id := s.next
		s.next++
		if ws[1] == "bytes" {
			b := &ByteBuffer{B: make([]byte, 0, cp)}
			s.idsB[b] = id
			s.slotsB[ws[2]] = b
		} else {
			b := &ByteSlicesBuf{B: make([][]byte, 0, cp)}
			s.idsS[b] = id
			s.slotsS[ws[2]] = b
		}
		return fmt.Sprintf("buf=%d", id)
	case "get":
		n, err := strconv.Atoi(ws[2])
		if err != nil {
			return "bad-op"
		}
		if ws[1] == "bytes" {
			b := GetByteBuffer(n)
			id, known := s.idsB[b]
			if !known {
				id = s.next
				s.next++
				s.idsB[b] = id
			}
			s.slotsB[ws[3]] = b
			dirty, hdirty := 0, 0
			for i, x := range b.B[:cap(b.B)] {
				if x != 0 {
					if i < len(b.B) {
						dirty++
					} else {
						hdirty++
					}
				}
			}
			return fmt.Sprintf("buf=%d new=%d len=%d cap=%d dirty=%d hdirty=%d", id, verifC42B2I(!known), len(b.B), cap(b.B), dirty, hdirty)
		}
		b := GetByteSlicesBuf(n)
		id, known := s.idsS[b]
		if !known {
			id = s.next
			s.next++
			s.idsS[b] = id
		}
		s.slotsS[ws[3]] = b
		dirty, hdirty := 0, 0
		for i, x := range b.B[:cap(b.B)] {
			if x != nil {
				if i < len(b.B) {
					dirty++
				} else {
					hdirty++
				}
			}
		}
		return fmt.Sprintf("buf=%d new=%d len=%d cap=%d dirty=%d hdirty=%d", id, verifC42B2I(!known), len(b.B), cap(b.B), dirty, hdirty)
	case "put":
		n, err := strconv.Atoi(ws[3])
		if err != nil {
			return "bad-op"
		}
		mode := ws[4]
		if ws[1] == "bytes" {
			b, ok := s.slotsB[ws[2]]
			if !ok {
				return "bad-slot"
			}
			delete(s.slotsB, ws[2])
			if n >= 0 {
				if n > cap(b.B) {
					n = cap(b.B)
				}
				b.B = b.B[:n]
			}
			full := b.B[:cap(b.B)]
			verifC42Fill(mode, len(b.B), cap(b.B), func(i int, d bool) {
				if d {
					full[i] = 0xAA
				} else {
					full[i] = 0
				}
			})
			PutByteBuffer(b)
			return "ok"
		}
		b, ok := s.slotsS[ws[2]]
		if !ok {
			return "bad-slot"
		}
		delete(s.slotsS, ws[2])
		if n >= 0 {
			if n > cap(b.B) {
				n = cap(b.B)
			}
			b.B = b.B[:n]
		}
		full := b.B[:cap(b.B)]
		verifC42Fill(mode, len(b.B), cap(b.B), func(i int, d bool) {
			if d {
				full[i] = []byte{1}
			} else {
				full[i] = nil
			}
		})
		PutByteSlicesBuf(b)
		return "ok"
	}
	return "bad-op"
}

func verifC42B2I(b bool) int {
	if b {
		return 1
	}
	return 0
}

func TestVerifC42(t *testing.T) {
	in, err := os.Open(os.Getenv("VERIF_OPS"))
	if err != nil {
		t.Skip("no VERIF_OPS")
	}
	defer in.Close()
	out, err := os.Create(os.Getenv("VERIF_OUT"))
	if err != nil {
		t.Fatal(err)
	}
	defer out.Close()
	w := bufio.NewWriter(out)
	defer w.Flush()
	sc := bufio.NewScanner(in)
	sc.Buffer(make([]byte, 1<<20), 1<<26)
	st := &verifC42State{}
	st.reset("bytes")
	for sc.Scan() {
		line := sc.Text()
		if line == "" || strings.HasPrefix(line, "#") {
			fmt.Fprintln(w, "#")
			continue
		}
		fmt.Fprintln(w, st.step(line))
	}
}
