//go:build verif

package centrifuge

// Verification harness for C42, item buffers of writer.go (injected with `go test -overlay`).
// Same line protocol as props/C42/harness/internal__bpool, kind = items:
//
//	idx <v>                      -> nextG=.. prevG=..     (writer.go nextLogBase2 / prevLogBase2)
//	reset items                  -> ok
//	new items <slot> <cap>       -> buf=<id>
//	get items <n> <slot>         -> buf=<id> new=<0|1> len=.. cap=.. dirty=..  | PANIC
//	put items <slot> <len> <m>   -> ok | bad-slot | PANIC

import (
	"bufio"
	"fmt"
	"os"
	"strconv"
	"strings"
	"sync"
	"testing"

	"github.com/centrifugal/centrifuge/internal/queue"
)

type verifC42Items struct {
	ids   map[*itemBuf]int
	slots map[string]*itemBuf
	next  int
}

func (s *verifC42Items) reset() {
	s.ids = map[*itemBuf]int{}
	s.slots = map[string]*itemBuf{}
	s.next = 0
	itemBufPools = [13]sync.Pool{}
}

func verifC42ItemDirty(it queue.Item) bool {
	return it.Data != nil || it.Channel != "" || it.Key != "" || it.FrameType != 0
}

func (s *verifC42Items) step(line string) (res string) {
	defer func() {
		if r := recover(); r != nil {
			res = "PANIC"
		}
	}()
	ws := strings.Fields(line)
	if len(ws) == 0 {
		return "bad-op"
	}
	switch ws[0] {
	case "idx":
		v, err := strconv.ParseUint(ws[1], 10, 32)
		if err != nil {
			return "bad-op"
		}
		return fmt.Sprintf("nextG=%d prevG=%d", nextLogBase2(uint32(v)), prevLogBase2(uint32(v)))
	case "reset":
		s.reset()
		return "ok"
	case "new":
		cp, _ := strconv.Atoi(ws[3])
		id := s.next
		s.next++
		b := &itemBuf{B: make([]queue.Item, 0, cp)}
		s.ids[b] = id
		s.slots[ws[2]] = b
		return fmt.Sprintf("buf=%d", id)
	case "get":
		n, err := strconv.Atoi(ws[2])
		if err != nil {
			return "bad-op"
		}
		b := getItemBuf(n)
		id, known := s.ids[b]
		if !known {
			id = s.next
			s.next++
			s.ids[b] = id
		}
		s.slots[ws[3]] = b
		dirty, hdirty := 0, 0
		for i, x := range b.B[:cap(b.B)] {
			if verifC42ItemDirty(x) {
				if i < len(b.B) {
					dirty++
				} else {
					hdirty++
				}
			}
		}
		nw := 0
		if !known {
			nw = 1
		}
		return fmt.Sprintf("buf=%d new=%d len=%d cap=%d dirty=%d hdirty=%d", id, nw, len(b.B), cap(b.B), dirty, hdirty)
	case "put":
		n, err := strconv.Atoi(ws[3])
		if err != nil {
			return "bad-op"
		}
		mode := ws[4]
		b, ok := s.slots[ws[2]]
		if !ok {
			return "bad-slot"
		}
		delete(s.slots, ws[2])
		if n >= 0 {
			if n > cap(b.B) {
				n = cap(b.B)
			}
			b.B = b.B[:n]
		}
		full := b.B[:cap(b.B)]
		for i := range full {
			var d, touch bool
			switch mode {
			case "z":
				d, touch = false, true
			case "v":
				d, touch = i < len(b.B), true
			case "h":
				d, touch = i >= len(b.B), true
			case "a":
				d, touch = true, true
			}
			if touch {
				if d {
					full[i] = queue.Item{Data: []byte{1}, Channel: "c"}
				} else {
					full[i] = queue.Item{}
				}
			}
		}
		putItemBuf(b)
		return "ok"
	}
	return "bad-op"
}

func TestVerifC42Items(t *testing.T) {
	in, err := os.Open(os.Getenv("VERIF_OPS"))
	if err != nil {
		t.Skip("no VERIF_OPS")
	}
	defer in.Close()
	out, err := os.Create(os.Getenv("VERIF_OUT"))
	if err != nil {
		t.Fatal(err)
	}
	defer out.Close()
	w := bufio.NewWriter(out)
	defer w.Flush()
	sc := bufio.NewScanner(in)
	sc.Buffer(make([]byte, 1<<20), 1<<26)
	st := &verifC42Items{}
	st.reset()
	for sc.Scan() {
		line := sc.Text()
		if line == "" || strings.HasPrefix(line, "#") {
			fmt.Fprintln(w, "#")
			continue
		}
		fmt.Fprintln(w, st.step(line))
	}
}
