"""C42 — buffer pools never hand out undersized or dirty buffers.

Proof: lean/CentrifugeVerif/Props/C42.lean over Model/BPool.lean (all get/put/forget sequences, arbitrary
puts, every resolution of sync.Pool's nondeterminism).
Tie: the real pools of internal/bpool and writer.go are driven with random get/put scenarios (odd
capacities, re-sliced and dirty buffers); the *observed* trace (which buffer object came back) is then
validated step by step against the nondeterministic Lean model (drv_c42), and the property statement
(cap >= n, empty, no panic) is evaluated on the implementation's outputs.
"""
import json
import os
import re
from vlib.core import diff_lines, ddmin, REPO

HERE = os.path.dirname(os.path.abspath(__file__))
MAXLEN = {"bytes": 262144, "slices": 4096, "items": 4096}


# ---------------------------------------------------------------------------------- generator
def pick_len(rng, kind):
    m = MAXLEN[kind]
    r = rng.random()
    if r < 0.45:
        return rng.randint(1, 40)
    if r < 0.65:
        k = rng.randint(0, m.bit_length() - 1)
        return max(0, (1 << k) + rng.choice([-1, 0, 0, 1]))
    if r < 0.75:
        return rng.choice([m - 1, m, m + 1, 2 * m, 2 * m + 3])
    if r < 0.83:
        return 0
    if r < 0.87:
        return rng.choice([-1, -2, -7, -4294967296, -4294967291, -(2 ** 31)])
    return rng.randint(1, min(m, 5000))


def pick_cap(rng, kind):
    m = MAXLEN[kind]
    r = rng.random()
    if r < 0.6:
        return rng.choice([0, 1, 2, 3, 5, 6, 7, 8, 9, 10, 12, 15, 16, 17, 24, 31, 32, 33, 63, 100])
    if r < 0.8:
        k = rng.randint(0, m.bit_length() - 1)
        return max(0, (1 << k) + rng.choice([-1, 0, 1]))
    if r < 0.9:
        return rng.choice([m - 1, m, m + 1, 2 * m])
    return rng.randint(1, min(m, 3000))


def gen_scenario(rng, kind, undisciplined):
    """One scenario; `undisciplined` scenarios return buffers whose B was shortened over non-zero
    elements (or with non-zero elements beyond len)."""
    ops = [f"reset {kind}"]
    held, nslot = [], 0
    nops = rng.choice([6, 12, 25, 40])
    recent_caps = []
    for _ in range(nops):
        r = rng.random()
        if held and r < 0.45:
            slot = rng.choice(held)
            held.remove(slot)
            if undisciplined:
                ln = rng.choice([-1, 0, 0, 1, 2, rng.randint(0, 20)])
                mode = rng.choice(["k", "z", "v", "h", "a", "a", "h"])
            else:
                if rng.random() < 0.5:
                    ln, mode = -1, rng.choice(["k", "z", "v", "v"])
                else:
                    ln, mode = rng.choice([0, 1, 2, 3, rng.randint(0, 40), 10 ** 6]), rng.choice(["z", "v", "v"])
            ops.append(f"put {kind} {slot} {ln} {mode}")
        elif r < 0.6:
            slot = f"s{nslot}"
            nslot += 1
            cp = pick_cap(rng, kind)
            recent_caps.append(cp)
            held.append(slot)
            ops.append(f"new {kind} {slot} {cp}")
        else:
            slot = f"s{nslot}"
            nslot += 1
            if recent_caps and rng.random() < 0.5:
                c = rng.choice(recent_caps)  # ask around a capacity that was put: bucket boundaries
                n = max(0, rng.choice([c, c - 1, c + 1, c // 2, c // 2 + 1, 1 << max(0, c.bit_length() - 1)]))
            else:
                n = pick_len(rng, kind)
            held.append(slot)
            ops.append(f"get {kind} {n} {slot}")
    return ops


def idx_values(rng, n):
    vs = [0, 1, 2, 3, 4, 5, 2 ** 32 - 1, 2 ** 32 - 2, 2 ** 31, 2 ** 31 + 1, 2 ** 31 - 1]
    for k in range(1, 32):
        vs += [2 ** k - 1, 2 ** k, 2 ** k + 1]
    vs += [rng.randint(0, 2 ** 32 - 1) for _ in range(n)]
    vs += [rng.randint(0, 1 << rng.randint(1, 20)) for _ in range(n)]
    return vs


# ---------------------------------------------------------------------------------- oracle
def eff(kind, n):
    return n if (kind == "bytes" or n > 0) else 16


def kvs(line):
    return dict(w.split("=", 1) for w in line.split() if "=" in w)


def oracle_get(kind, n, out):
    """The property statement on one observed Get.  Returns None or (key, message)."""
    if kind == "bytes" and n < 0:
        return None  # a negative length is not a requested length (make() would panic as well)
    if out == "PANIC":
        return ("panic", f"Get({n}) on the {kind} pool panicked")
    kv = kvs(out)
    try:
        ln, cp, dirty = int(kv["len"]), int(kv["cap"]), int(kv["dirty"])
    except (KeyError, ValueError):
        return ("unparseable", "unparseable output " + out)
    e = eff(kind, n)
    if cp < e:
        return ("cap", f"Get({n}) on the {kind} pool returned capacity {cp} < {e}")
    if kind == "items":
        if ln != e:
            return ("len", f"getItemBuf({n}) returned length {ln}, expected {e}")
    elif ln != 0:
        return ("len", f"Get({n}) on the {kind} pool returned a non-empty buffer (len {ln})")
    if dirty:
        return ("dirty", f"Get({n}) on the {kind} pool returned {dirty} non-zero element(s)")
    return None


def oracle_idx(out):
    kv = kvs(out)
    v = int(kv["v"])
    if v == 0:
        return None
    for name in ("next", "nextG", "inextG"):
        x = int(kv[name])
        if not (v <= 2 ** x and (x == 0 or 2 ** (x - 1) < v)):
            return f"{name}({v}) = {x} is not the rounded-up log2"
    for name in ("prev", "prevG", "iprevG"):
        x = int(kv[name])
        if not (2 ** x <= v < 2 ** (x + 1)):
            return f"{name}({v}) = {x} is not the rounded-down log2"
    return None


# ---------------------------------------------------------------------------------- running
class Runner:
    def __init__(self, ctx, bin_bpool, bin_root):
        self.ctx, self.bin_bpool, self.bin_root = ctx, bin_bpool, bin_root

    def kinds(self, ops):
        k, res = None, []
        for op in ops:
            ws = op.split()
            if ws and ws[0] == "reset" and len(ws) > 1:
                k = ws[1]
            res.append("idx" if ws and ws[0] == "idx" else k)
        return res

    def impl(self, ops):
        ks = self.kinds(ops)
        a = [op if k in ("idx", "bytes", "slices") else "#" for op, k in zip(ops, ks)]
        b = [op if k in ("idx", "items") else "#" for op, k in zip(ops, ks)]
        oa = self.ctx.go_run(self.bin_bpool, "TestVerifC42", a) if any(x != "#" for x in a) else []
        ob = self.ctx.go_run(self.bin_root, "TestVerifC42Items", b) if any(x != "#" for x in b) else []
        out = []
        for i, (op, k) in enumerate(zip(ops, ks)):
            xa = oa[i] if i < len(oa) else "<missing>"
            xb = ob[i] if i < len(ob) else "<missing>"
            if k == "idx":
                out.append(f"v={op.split()[1]} {xa} " + " ".join("i" + w for w in xb.split()))
            elif k == "items":
                out.append(xb)
            elif k in ("bytes", "slices"):
                out.append(xa)
            else:
                out.append("bad-op")
        return out, ks

    @staticmethod
    def annotate(ops, impl):
        res = []
        for op, out in zip(ops, impl):
            ws = op.split()
            if ws and ws[0] == "get":
                if out.startswith("buf="):
                    kv = kvs(out)
                    res.append(f"{op} via={kv['buf']} new={kv['new']}")
                else:
                    res.append(f"{op} via=panic")
            elif ws and ws[0] == "new" and out.startswith("buf="):
                res.append(f"{op} {out}")
            else:
                res.append(op)
        return res


def split_scenarios(ops):
    cur, res = [], []
    for op in ops:
        if op.startswith("reset") and cur:
            res.append(cur)
            cur = []
        cur.append(op)
    if cur:
        res.append(cur)
    return res


def first_failure(kind_list, ops, impl):
    for op, k, out in zip(ops, kind_list, impl):
        ws = op.split()
        if ws and ws[0] == "get" and k in MAXLEN:
            r = oracle_get(k, int(ws[2]), out)
            if r:
                return r
    return None


WEAKER = {"a": ["z", "v", "h"], "h": ["z"], "v": ["z"], "k": ["z", "v"]}


def shrink_scenario(runner, scen, key):
    """ddmin over the ops after `reset`, then weaken each put's dirt pattern and length."""
    head, body = scen[0], scen[1:]

    def fails(sub):
        ops = [head] + list(sub)
        impl, ks = runner.impl(ops)
        r = first_failure(ks, ops, impl)
        return r is not None and r[0] == key
    if not fails(body):
        return scen
    body = ddmin(body, fails)
    for i, op in enumerate(list(body)):
        ws = op.split()
        if ws[0] == "put":
            for m in WEAKER.get(ws[4], []):
                cand = body[:i] + [" ".join(ws[:4] + [m])] + body[i + 1:]
                if fails(cand):
                    body = cand
                    break
    return [head] + body


def signature(scen, kind, key):
    hidden = False
    for op in scen:
        ws = op.split()
        if ws[0] == "put" and (ws[4] in ("h", "a") or (ws[4] == "k" and ws[3] != "-1")):
            hidden = True
    return {"pool": kind, "oracle": key, "put_hidden_dirty": hidden}


def install_local_findings(ctx):
    """known_findings.json is the coordinator's union of props/*/findings.json; until it is
    regenerated, entries of this property's own findings.json are honoured the same way."""
    try:
        local = json.load(open(os.path.join(HERE, "findings.json"))).get("findings", [])
    except FileNotFoundError:
        local = []
    orig = ctx._match_known

    def match(sig):
        r = orig(sig)
        if r is not None:
            return r
        for e in local:
            m = e.get("match") or {}
            if e.get("property") == ctx.prop and e.get("status") == "known" and m and \
                    all(sig.get(k) == v for k, v in m.items()):
                return e
        return None
    ctx._match_known = match
    return local


def check_call_sites(ctx):
    """Informational since the fix of C42-1 (get_ok_items needs no hypothesis about callers any more):
    records whether callers still return itemBuf.B as handed out."""
    bad = []
    for fn in sorted(os.listdir(REPO)):
        if not fn.endswith(".go") or fn.endswith("_test.go"):
            continue
        src = open(os.path.join(REPO, fn)).read()
        if "getItemBuf(" not in src and "itemBuf" not in src:
            continue
        # split into top-level functions
        for m in re.finditer(r"^func [^\n]*?(\w+)\([^\n]*\{\n(.*?)^\}", src, re.S | re.M):
            name, body = m.group(1), m.group(2)
            if name in ("getItemBuf", "putItemBuf"):
                continue
            if "getItemBuf(" in body:
                ctx.count("items:call-site", body.count("getItemBuf("))
                if "putItemBuf(" not in body:
                    bad.append(f"{fn}:{name} gets an item buffer but never returns it")
                for v in set(re.findall(r"(\w+)\s*:?=\s*getItemBuf\(", body)):
                    if re.search(r"\b%s\.B\s*=[^=]" % re.escape(v), body) or \
                            re.search(r"\b%s\.B\s*=\s*append" % re.escape(v), body):
                        bad.append(f"{fn}:{name} re-assigns {v}.B before putItemBuf")
    ctx.extra["itembuf_call_sites_ok"] = not bad
    ctx.extra["itembuf_call_site_notes"] = bad


def run(ctx):
    ctx.rule = ("random get/new/put scenarios per pool (bytes, byte-slice lists, item buffers) on the real "
                "sync.Pool-backed pools: request lengths around powers of two, 0, negative, max, max+1; foreign "
                "buffers of odd capacity; buffers returned re-sliced and with non-zero contents; plus the log2 "
                "helpers on boundary and random uint32 values.  non-trivial = scenario in which a pooled buffer "
                "was handed out again; distinct = distinct scenario text")
    ctx.assumptions = [
        "a buffer is not used by its previous owner after Put (no aliasing through the pool)",
        "sync.Pool behaves as a bag that may lose items (model: explicit choice / forget); which item it "
        "returns is taken from the observed run and validated, not predicted",
        "none about callers of the item-buffer pool: puts of re-sliced dirty buffers are generated (finding "
        "C42-1 is fixed; its replay stays in the corpus)"]
    local = install_local_findings(ctx)
    proofs_ok = ctx.lean_obligations()
    bin_bpool = ctx.go_test_binary("internal/bpool", ["props/C42/harness/internal__bpool/zz_verif_c42_test.go"])
    bin_root = ctx.go_test_binary(".", ["props/C42/harness/root/zz_verif_c42_items_test.go"])
    if bin_bpool is None or bin_root is None:
        ctx.violation("correspondence", "harness no longer builds against internal/bpool or package centrifuge",
                      signature={"kind": "harness-build"}, replay={"log": getattr(ctx, "build_error", "")},
                      no_input=True)
        return
    runner = Runner(ctx, bin_bpool, bin_root)
    check_call_sites(ctx)

    scenarios = []
    if ctx.replay:
        scenarios = split_scenarios(json.load(open(ctx.replay)).get("ops", []))
    else:
        # re-derive every known finding from its stored replay (KNOWN-FINDING is printed because the
        # failure still reproduces on the current tree, not because the file says so)
        not_repro = []
        for e in local:
            if e.get("status") != "known" or not e.get("replay"):
                continue
            fops = e["replay"]["ops"]
            fimpl, fks = runner.impl(fops)
            r = first_failure(fks, fops, fimpl)
            kind = next((k for k in fks if k), None)
            if r:
                ctx.violation("property", r[1], signature=signature(fops, kind, r[0]),
                              replay={"ops": fops, "impl": fimpl, "finding": e.get("id")})
            if not r or e.get("id") not in [k.get("id") for k in ctx.known_hits]:
                not_repro.append(e.get("id"))
        ctx.extra["known_findings_not_reproduced"] = not_repro
        corpus = [l.strip() for l in open(os.path.join(HERE, "corpus.ops")) if l.strip() and not l.startswith("#")]
        scenarios += split_scenarios(corpus)
        scenarios.append([f"idx {v}" for v in idx_values(ctx.rng, ctx.scale(300, 20000))])
        n = ctx.scale(120, 4000)
        for kind in ("bytes", "slices", "items"):
            for i in range(n):
                # undisciplined = buffers returned with B shortened over non-zero elements / non-zero
                # elements beyond len (the situation of the fixed finding C42-1): generated for all pools
                scenarios.append(gen_scenario(ctx.rng, kind, undisciplined=(i % 2 == 0)))

    ops = [op for sc in scenarios for op in sc]
    impl, ks = runner.impl(ops)
    model = ctx.lean_run(Runner.annotate(ops, impl))
    if model is None:
        proofs_ok = False
        model = []

    # ---- oracle, per scenario
    pos, nviol = 0, 0
    for sc in scenarios:
        sl = slice(pos, pos + len(sc))
        pos += len(sc)
        sk, simpl = ks[sl], impl[sl]
        kind = next((k for k in sk if k), None)
        if kind == "idx":
            for op, out in zip(sc, simpl):
                ctx.count("idx")
                try:
                    msg = oracle_idx(out)
                except (KeyError, ValueError):
                    msg = "unparseable idx output " + out
                if msg:
                    ctx.violation("property", msg, signature={"pool": "idx", "oracle": msg.split("(")[0]},
                                  replay={"ops": [op], "impl": [out]})
            ctx.record("idx x%d" % len(sc), nontrivial=True)
            continue
        hits = 0
        for op, out in zip(sc, simpl):
            w = op.split()[0]
            ctx.count(f"{kind}:{w}")
            if w == "get" and out.startswith("buf="):
                if " new=0" in out:
                    hits += 1
                    ctx.count(f"{kind}:pool-hit")
                else:
                    ctx.count(f"{kind}:pool-miss")
            elif w == "get":
                ctx.count(f"{kind}:get-{out.split()[0]}")
        ctx.record(" ; ".join(sc), nontrivial=hits > 0)
        r = first_failure(sk, sc, simpl)
        if r:
            nviol += 1
            if nviol <= 12:
                small = shrink_scenario(runner, sc, r[0])
                simpl2, sk2 = runner.impl(small)
                r2 = first_failure(sk2, small, simpl2) or r
                sig = signature(small, kind, r2[0])
                ctx.violation("property", r2[1], signature=sig,
                              replay={"ops": small, "impl": simpl2, "original_ops": sc})
    ctx.traces_validated = len(scenarios)
    ctx.extra["oracle_failures"] = nviol
    # ---- correspondence: observed trace must be a trace of the model with the same observations
    ndiff = 0
    for i, op, a, b in diff_lines(ops, [x if not x.startswith("v=") else x.split(" ", 1)[1] for x in impl], model):
        ndiff += 1
        if ndiff <= 3 and model:
            # replay = the scenario containing op i
            p = 0
            for sc in scenarios:
                if p <= i < p + len(sc):
                    break
                p += len(sc)
            ctx.violation("correspondence", f"model and implementation differ at `{op}`: impl `{a}` model `{b}`",
                          signature={"kind": "diff", "op": op.split()[0], "pool": ks[i], "impl": a.split()[0],
                                     "model": b.split()[0]},
                          replay={"ops": sc, "impl": impl[p:p + len(sc)], "model": model[p:p + len(sc)],
                                  "correspondence": "Drivers/C42.lean vs internal/bpool, writer.go"},
                          no_input=(nviol == 0))
    ctx.extra["disagreements"] = ndiff
    if not proofs_ok:
        ctx.proof_broken()
