"""Reference RFC 6455 §5 / RFC 7692 receiver in Python (the statement-level oracle of C29, also used by
C30 to judge the bytes on the wire) and frame-building helpers for the generators.

`ref_decode(cfg, data, quirks=False)` reads the property statement: which data messages a conforming
receiver extracts from the byte stream, which control frames it sees, where it has to fail the
connection (and with which close code), where the configured limits trip.  With `quirks=True` it
follows the Go reader's one remaining deviation instead (64-bit length with the top bit set: "too big", no close
frame; only used to collect the inflate table)."""
import zlib

TAIL = b"\x00\x00\xff\xff"
TWO63 = 1 << 63


def frame(op, payload=b"", fin=True, rsv=0, key=None, lenform=None, lenval=None):
    """One frame. rsv: bit mask 4=RSV1 2=RSV2 1=RSV3; key: 4-byte mask or None; lenform: None (minimal), 7, 16
    or 64; lenval: announced length (default len(payload))."""
    n = len(payload) if lenval is None else lenval
    b0 = (0x80 if fin else 0) | (rsv << 4) | op
    if lenform is None:
        lenform = 7 if n <= 125 else (16 if n < 65536 else 64)
    mb = 0x80 if key is not None else 0
    if lenform == 7:
        hdr = bytes([b0, mb | (n & 0x7f)])
    elif lenform == 16:
        hdr = bytes([b0, mb | 126]) + (n & 0xffff).to_bytes(2, "big")
    else:
        hdr = bytes([b0, mb | 127]) + (n & (2 ** 64 - 1)).to_bytes(8, "big")
    if key is not None:
        payload = bytes(b ^ key[i & 3] for i, b in enumerate(payload))
        hdr += bytes(key)
    return hdr + payload


def deflate_msg(data, level=6, strategy=zlib.Z_DEFAULT_STRATEGY):
    """permessage-deflate payload of a message (RFC 7692 §7.2.1): raw deflate, sync flush, last 4 bytes
    removed."""
    c = zlib.compressobj(level, zlib.DEFLATED, -15, 8, strategy)
    out = c.compress(data) + c.flush(zlib.Z_SYNC_FLUSH)
    assert out.endswith(TAIL)
    return out[:-4]


def inflate_stream(b):
    """raw DEFLATE decoding of a whole stream; None = corrupt"""
    try:
        d = zlib.decompressobj(-15)
        return d.decompress(b)
    except zlib.error:
        return None


def utf8_valid(b):
    try:
        bytes(b).decode("utf-8")
        return True
    except UnicodeDecodeError:
        return False


def must_reject_code(c):
    return c < 1000 or c in (1005, 1006, 1015)


def must_accept_code(c):
    return 1000 <= c <= 1003 or 1007 <= c <= 1011 or 3000 <= c <= 4999


def go_valid_code(c):
    return c in (1000, 1001, 1002, 1003, 1007, 1008, 1009, 1010, 1011, 1012, 1013) or 3000 <= c <= 4999


class Ref:
    """Result of the reference decoding."""

    def __init__(self):
        self.events = []        # strings in the harness syntax
        self.writes = []        # statement level: ("pong", payload) / ("close", code or None)
        self.rule = None        # which rule ended the stream (for signatures)
        self.inf = {}           # inflate table: bytes -> bytes | None
        self.loose_from = None  # events from this index on are not compared exactly
        self.gray = False       # a close code the RFC leaves undefined was involved
        self.frames = []        # (op, fin, rsv1, masked, length) of every complete frame parsed
        self.kinds = set()      # coverage tags


def hx(b):
    return bytes(b).hex() if len(b) else "-"


def ref_decode(cfg, data, quirks=False, known_good=None, gray_accept=go_valid_code, handlers=True,
               trust_zlib=False):
    """cfg: dict server, comp, rl, dl.  known_good: deflate payloads known to be valid (others are not compared
    exactly) unless trust_zlib."""
    R = Ref()
    server, comp, rl, dl = cfg["server"], cfg["comp"], cfg["rl"], cfg["dl"]
    i = 0
    frag = None

    def term(ev, rule, write=None):
        R.events.append(ev)
        R.rule = rule
        if write is not None:
            R.writes.append(write)
        if frag is not None and frag["compressed"]:
            pref = bytes(frag["acc"]) + frag.get("partial", b"")
            good = known_good is not None and any(g.startswith(pref) for g in known_good)
        else:
            good = True
        if frag is not None and frag["compressed"] and (dl > 0 or not good):
            # the real reader inflates while frames arrive: it may have failed earlier (a prefix of a
            # valid deflate stream never fails, anything else may)
            R.loose_from = min(R.loose_from, frag["start_ev"]) if R.loose_from is not None else frag["start_ev"]
        return R

    while True:
        if len(data) - i < 2:
            return term("eof", "eof")
        b0, b1 = data[i], data[i + 1]
        i += 2
        fin, rsv1, rsv2, rsv3 = bool(b0 & 0x80), bool(b0 & 0x40), bool(b0 & 0x20), bool(b0 & 0x10)
        op, masked, len7 = b0 & 0x0f, bool(b1 & 0x80), b1 & 0x7f
        ctl, dat = op in (8, 9, 10), op in (1, 2)
        viol = []
        if rsv1:
            if not comp:
                viol.append("rsv1-not-negotiated")
            elif ctl:
                viol.append("rsv1-control")        # rejected by the Go reader since a4ffe486
            elif op == 0:
                viol.append("rsv1-continuation")   # rejected by the Go reader since a4ffe486
        if rsv2:
            viol.append("rsv2")
        if rsv3:
            viol.append("rsv3")
        if not (ctl or dat or op == 0):
            viol.append("opcode")
        if ctl and len7 > 125:
            viol.append("control-long")
        if ctl and not fin:
            viol.append("control-fragmented")
        if dat and frag is not None:
            viol.append("data-inside-message")
        if op == 0 and frag is None:
            viol.append("continuation-without-start")
        if masked != server:
            viol.append("mask")
        if viol:
            return term("proto", "+".join(viol), ("close", 1002))
        if len7 == 126:
            if len(data) - i < 2:
                return term("eof", "eof")
            n = int.from_bytes(data[i:i + 2], "big")
            i += 2
            R.kinds.add("len16" + ("-nonminimal" if n < 126 else ""))
        elif len7 == 127:
            if len(data) - i < 8:
                return term("eof", "eof")
            n = int.from_bytes(data[i:i + 8], "big")
            i += 8
            R.kinds.add("len64" + ("-nonminimal" if n < 65536 else ""))
            if n >= TWO63:
                if quirks:
                    return term("toobig", "len64-msb")
                return term("proto", "len64-msb", ("close", 1002))
        else:
            n = len7
        key = None
        if masked:
            if len(data) - i < 4:
                return term("eof", "eof")
            key = data[i:i + 4]
            i += 4
        if ctl:
            if len(data) - i < n:
                return term("eof", "eof")
            p = data[i:i + n]
            i += n
            if key:
                p = bytes(b ^ key[j & 3] for j, b in enumerate(p))
            R.frames.append((op, fin, rsv1, masked, n))
            if frag is not None:
                frag["interleaved"] = True
                R.kinds.add("control-inside-message")
            if op == 9:
                if handlers:
                    R.events.append("pi:" + hx(p))
                R.writes.append(("pong", bytes(p)))
                continue
            if op == 10:
                if handlers:
                    R.events.append("po:" + hx(p))
                continue
            R.kinds.add("close-len-%s" % (n if n in (0, 1, 2, 125) else "mid"))
            if n == 0:
                return term("cl:1005:-", "close", ("close", None))
            if n == 1:
                # rejected by the Go reader since 13f4dfc8
                return term("proto", "close-len1", ("close", 1002))
            code = p[0] * 256 + p[1]
            if must_reject_code(code):
                ok = False
            elif must_accept_code(code):
                ok = True
            else:
                R.gray = True
                ok = gray_accept(code)
            if not ok:
                return term("proto", "close-code", ("close", 1002))
            if not utf8_valid(p[2:]):
                return term("proto", "close-utf8", ("close", 1002))
            return term("cl:%d:%s" % (code, hx(p[2:])), "close", ("close", code))
        # data frame
        if frag is None:
            frag = {"typ": op, "compressed": rsv1, "acc": bytearray(), "start_ev": len(R.events),
                    "interleaved": False, "nframes": 0}
        total = len(frag["acc"]) + n
        if total >= TWO63:
            # the Go reader writes the 1009 frame on this exit since 7b24129f
            return term("toobig", "length-overflow", ("close", 1009))
        if rl > 0 and total > rl:
            return term("toobig", "read-limit", ("close", 1009))
        if len(data) - i < n:
            frag["partial"] = bytes(data[i:])
            return term("eof", "eof")
        p = data[i:i + n]
        i += n
        if key:
            p = bytes(b ^ key[j & 3] for j, b in enumerate(p))
        frag["acc"] += p
        frag["nframes"] += 1
        R.frames.append((op, fin, rsv1, masked, n))
        if frag["nframes"] > 1:
            R.kinds.add("fragmented")
        if not fin:
            continue
        f, frag = frag, None
        acc = bytes(f["acc"])
        if f["compressed"]:
            R.kinds.add("compressed")
            k = acc + TAIL
            good = (known_good is not None and acc in known_good) or trust_zlib
            out = inflate_stream(k) if good else None
            good = good and out is not None
            R.inf[k] = out
            if not good:
                # corrupt / unknown deflate data: zlib and Go's flate need not agree on it
                R.kinds.add("compressed-unknown")
                R.loose_from = f["start_ev"] if R.loose_from is None else min(R.loose_from, f["start_ev"])
                return term("baddata", "bad-deflate")
            if dl > 0 and len(out) > dl:
                if f["interleaved"]:
                    R.loose_from = f["start_ev"] if R.loose_from is None else min(R.loose_from, f["start_ev"])
                return term("toobig", "inflated-limit", ("close", 1009))
            R.events.append("m%d:%s" % (f["typ"], hx(out)))
        else:
            R.events.append("m%d:%s" % (f["typ"], hx(acc)))
