"""C29 — the WebSocket frame reader conforms to RFC 6455 and RFC 7692.

Proof: lean/CentrifugeVerif/Props/C29.lean (model Model/WS/Reader.lean against Spec/WSSpec.lean).
Tie: the same byte streams are read by a real Conn (internal/websocket, harness injected by overlay) and by the
Lean driver (model `M` and specification `S`); outputs are diffed.
Oracle: props/C29/wsref.py — the statement (which messages a conforming receiver extracts, where it has to fail
with which close frame) evaluated on the implementation's events and on the frames it wrote back.
"""
import json
import os
import sys

sys.path.insert(0, os.path.dirname(os.path.abspath(__file__)))
import wsref  # noqa: E402
from wsref import frame, deflate_msg, ref_decode, TAIL, hx  # noqa: E402

HERE = os.path.dirname(os.path.abspath(__file__))
HARNESS = "props/C29/harness/internal__websocket/zz_verif_c29_test.go"

VALID_CODES = [1000, 1001, 1002, 1003, 1007, 1008, 1009, 1010, 1011, 3000, 3999, 4000, 4999]
GRAY_CODES = [1004, 1012, 1013, 1014, 1016, 1100, 2000, 2999, 5000, 65535]
BAD_CODES = [0, 1, 999, 1005, 1006, 1015]
BAD_UTF8 = [b"\xff", b"\xc0\x80", b"\xc1\xbf", b"\xe0\x80\x80", b"\xe0\x9f\xbf", b"\xed\xa0\x80", b"\xed\xbf\xbf",
            b"\xf0\x80\x80\x80", b"\xf0\x8f\xbf\xbf", b"\xf4\x90\x80\x80", b"\xf5\x80\x80\x80", b"\xc2", b"\xe2\x82",
            b"\xf0\x9f\x98", b"\x80", b"\xbf", b"ab\xc3", b"\xe2\x28\xa1", b"\xf8\x88\x80\x80\x80"]
GOOD_UTF8 = [b"", b"bye", "κόσμε".encode(), "¢€\U0001f600".encode(), b"\xc2\x80", b"\xdf\xbf", b"\xe0\xa0\x80",
             b"\xed\x9f\xbf", b"\xee\x80\x80", b"\xef\xbf\xbf", b"\xf0\x90\x80\x80", b"\xf4\x8f\xbf\xbf", b"\x7f\x00"]


# ----------------------------------------------------------------------------------------- generator
class Case:
    def __init__(self):
        self.cfg = {"server": True, "comp": False, "rl": 0, "dl": 0}
        self.h = 1
        self.chunk = 0
        self.rbuf = 0
        self.rdsz = 0
        self.parts = []        # frame byte strings
        self.cut = None        # truncate the concatenation to this many bytes
        self.known_good = set()
        self.tags = []

    def data(self):
        d = b"".join(self.parts)
        return d if self.cut is None else d[:self.cut]


def rnd_payload(rng, n):
    k = rng.random()
    if k < 0.3:
        return bytes(rng.randrange(256) for _ in range(n))
    if k < 0.6:
        return bytes(rng.choice(b"abcdefgh {}\":,0123") for _ in range(n))
    return (b"centrifuge" * (n // 10 + 1))[:n]


def rnd_size(rng):
    k = rng.random()
    if k < 0.15:
        return 0
    if k < 0.55:
        return rng.randint(1, 20)
    if k < 0.75:
        return rng.choice([124, 125, 126, 127, 128, 200])
    if k < 0.97:
        return rng.randint(1, 400)
    return rng.choice([65535, 65536, 65537, 70000])


def gen_case(rng):
    c = Case()
    server = rng.random() < 0.6
    comp = rng.random() < 0.4
    c.cfg = {"server": server, "comp": comp, "rl": 0, "dl": 0}
    c.h = 0 if rng.random() < 0.15 else 1
    c.chunk = rng.choice([0, 0, 0, 1, 2, 3, 5, 7, 64])
    c.rbuf = rng.choice([0, 0, 1, 125, 126, 300])
    c.rdsz = rng.choice([0, 0, 0, 1, 3, 8, 1000])
    kind = rng.random()
    if kind < 0.08:
        return gen_raw(rng, c)

    def key():
        return bytes(rng.randrange(256) for _ in range(4)) if server else None

    nmsg = rng.choice([0, 1, 1, 2, 3])
    msgs = []  # (first index in parts, wire size, inflated size, compressed)
    for _ in range(nmsg):
        typ = rng.choice([1, 2])
        body = rnd_payload(rng, rnd_size(rng))
        compressed = comp and rng.random() < 0.6
        wire = body
        if compressed:
            wire = deflate_msg(body, rng.choice([1, 6, 9]),
                               rng.choice([0, 0, 2]))  # default / huffman-only strategies
            c.known_good.add(wire)
        nfr = rng.choice([1, 1, 1, 2, 3, 4])
        cuts = sorted(rng.randint(0, len(wire)) for _ in range(nfr - 1))
        pieces = [wire[a:b] for a, b in zip([0] + cuts, cuts + [len(wire)])]
        first = len(c.parts)
        for j, pc in enumerate(pieces):
            lf = None
            if rng.random() < 0.06:
                lf = 64 if rng.random() < 0.5 or len(pc) > 65535 else 16
                if lf == 16 and len(pc) > 65535:
                    lf = 64
            c.parts.append(frame(typ if j == 0 else 0, pc, fin=(j == len(pieces) - 1),
                                 rsv=4 if (compressed and j == 0) else 0, key=key(), lenform=lf))
            if j < len(pieces) - 1 and rng.random() < 0.35:
                cop = rng.choice([9, 9, 10])
                c.parts.append(frame(cop, rnd_payload(rng, rng.choice([0, 1, 5, 125])), key=key()))
        msgs.append((first, len(wire), len(body), compressed))
        if rng.random() < 0.3:
            c.parts.append(frame(rng.choice([9, 10]), rnd_payload(rng, rng.choice([0, 3, 124, 125])), key=key()))
    # limits around the real sizes
    if msgs and rng.random() < 0.3:
        m = rng.choice(msgs)
        c.cfg["rl"] = max(0, m[1] + rng.choice([-1, 0, 0, 1, 5, -5]))
        c.tags.append("rl")
    if msgs and comp and rng.random() < 0.3:
        m = rng.choice(msgs)
        c.cfg["dl"] = max(0, m[2] + rng.choice([-1, 0, 0, 1, 7, -7]))
        c.tags.append("dl")
    # closing
    k = rng.random()
    if k < 0.35:
        code = rng.choice(VALID_CODES + GRAY_CODES[:3])
        c.parts.append(frame(8, code.to_bytes(2, "big") + rng.choice(GOOD_UTF8), key=key()))
    elif k < 0.45:
        c.parts.append(frame(8, b"", key=key()))
    # fault injection
    if rng.random() < 0.55:
        inject_fault(rng, c, key)
    # truncation
    if rng.random() < 0.3:
        total = len(b"".join(c.parts))
        if total:
            if rng.random() < 0.5:
                bounds = [0]
                for p in c.parts:
                    bounds.append(bounds[-1] + len(p))
                c.cut = max(0, min(total, rng.choice(bounds) + rng.choice([-1, 0, 1, 2, 3, 6, 10])))
            else:
                c.cut = rng.randint(0, total)
            c.tags.append("cut")
    return c


def inject_fault(rng, c, key):
    """Insert or replace one frame with a boundary / invalid one."""
    server, comp = c.cfg["server"], c.cfg["comp"]
    pos = rng.randint(0, len(c.parts))
    f = rng.choice(["rsv", "rsv-ctl", "rsv1-cont", "opcode", "ctl-nofin", "ctl-long", "ctl-len7-126", "ctl-len7-127",
                    "cont-nostart", "data-in-msg", "mask", "msb", "nonminimal", "close-len", "close-code",
                    "close-utf8", "overflow", "corrupt-deflate", "rsv1-ctl", "rsv1-cont", "close-len", "close-code"])
    c.tags.append("fault:" + f)
    ins = []
    if f == "rsv":
        ins = [frame(rng.choice([1, 2]), rnd_payload(rng, 3), rsv=rng.randint(1, 7), key=key())]
    elif f in ("rsv-ctl", "rsv1-ctl"):
        rsv = 4 if f == "rsv1-ctl" else rng.randint(1, 7)
        ins = [frame(rng.choice([8, 9, 10]), rng.choice([b"", b"\x03\xe8", b"x"]), rsv=rsv, key=key())]
    elif f == "rsv1-cont":
        body = rnd_payload(rng, 6)
        ins = [frame(rng.choice([1, 2]), body[:3], fin=False, key=key()),
               frame(0, body[3:], fin=rng.random() < 0.7, rsv=rng.choice([4, 4, 4, 2, 1, 6]), key=key())]
    elif f == "opcode":
        ins = [frame(rng.choice([3, 4, 5, 6, 7, 11, 12, 13, 14, 15]), rnd_payload(rng, rng.choice([0, 2])),
                     fin=rng.random() < 0.8, key=key())]
    elif f == "ctl-nofin":
        ins = [frame(rng.choice([8, 9, 10]), b"", fin=False, key=key())]
    elif f == "ctl-long":
        ins = [frame(rng.choice([8, 9, 10]), b"\x03\xe8" + rnd_payload(rng, rng.choice([124, 125, 300])), key=key())]
    elif f == "ctl-len7-126":
        ins = [frame(rng.choice([8, 9, 10]), b"\x03\xe8abc", lenform=16, key=key())]
    elif f == "ctl-len7-127":
        ins = [frame(rng.choice([8, 9, 10]), b"\x03\xe8abc", lenform=64, key=key())]
    elif f == "cont-nostart":
        ins = [frame(0, rnd_payload(rng, 4), fin=rng.random() < 0.5, key=key())]
    elif f == "data-in-msg":
        ins = [frame(1, b"ab", fin=False, key=key()), frame(rng.choice([1, 2]), b"cd", fin=rng.random() < 0.5, key=key())]
    elif f == "mask":
        k = None if server else bytes(rng.randrange(256) for _ in range(4))
        ins = [frame(rng.choice([1, 2, 0, 8, 9, 10]), rng.choice([b"", b"\x03\xe8", b"hello"]), key=k)]
    elif f == "msb":
        v = rng.choice([1 << 63, (1 << 63) + 5, (1 << 64) - 1, (1 << 63) - 1])
        first = rng.random() < 0.5
        ins = ([] if first else [frame(2, b"x", fin=False, key=key())]) + \
              [frame(2 if first else 0, b"abc", lenform=64, lenval=v, key=key())]
    elif f == "nonminimal":
        n = rng.choice([0, 1, 125])
        ins = [frame(rng.choice([1, 2]), rnd_payload(rng, n), lenform=rng.choice([16, 64]), key=key())]
    elif f == "close-len":
        n = rng.choice([0, 1, 1, 2, 3, 125])
        body = (b"\x03\xe8" + rnd_payload(rng, 200).replace(b"\xff", b"a"))[:n]
        if n > 2 and not wsref.utf8_valid(body[2:]):
            body = b"\x03\xe8" + b"r" * (n - 2)
        ins = [frame(8, body, key=key())]
    elif f == "close-code":
        code = rng.choice(BAD_CODES) if rng.random() < 0.4 else \
            rng.choice(GRAY_CODES + VALID_CODES + [rng.randint(0, 65535), 2999, 3000, 4999, 5000])
        ins = [frame(8, code.to_bytes(2, "big") + rng.choice([b"", b"x"]), key=key())]
    elif f == "close-utf8":
        ins = [frame(8, (1000).to_bytes(2, "big") + rng.choice(BAD_UTF8 + GOOD_UTF8), key=key())]
    elif f == "overflow":
        v = rng.choice([(1 << 63) - 1, (1 << 63) - 2, (1 << 63) - 3])
        ins = [frame(1, b"ab", fin=False, key=key()), frame(0, b"cd", lenform=64, lenval=v, key=key())]
    elif f == "corrupt-deflate":
        if comp:
            body = deflate_msg(rnd_payload(rng, 40))
            b = bytearray(body)
            for _ in range(rng.randint(1, 3)):
                b[rng.randrange(len(b))] ^= 1 << rng.randrange(8)
            ins = [frame(rng.choice([1, 2]), bytes(b), rsv=4, key=key())]
        else:
            ins = [frame(1, b"zz", rsv=4, key=key())]
    c.parts[pos:pos] = ins


def gen_raw(rng, c):
    """Raw bytes: random, biased towards plausible header bytes, or a bit flip in a valid stream."""
    c.cfg["comp"] = rng.random() < 0.2
    n = rng.choice([0, 1, 2, 3, 6, 10, 20, 40])
    b = bytearray(rng.randrange(256) for _ in range(n))
    server = c.cfg["server"]
    i = 0
    while i < len(b) and rng.random() < 0.8:
        b[i] = rng.choice([0x81, 0x82, 0x01, 0x02, 0x00, 0x80, 0x88, 0x89, 0x8a, 0xc1, 0x91, 0x83])
        if i + 1 < len(b):
            ln = rng.choice([0, 1, 2, 5, 126, 127])
            b[i + 1] = (0x80 if server else 0) | ln
            i += 2 + (4 if server else 0) + (ln if ln < 126 else 2)
        else:
            break
    c.parts = [bytes(b)]
    c.tags.append("raw")
    return c


def fmt(c):
    d = c.data()
    R = ref_decode(c.cfg, d, quirks=True, known_good=c.known_good)
    inf = ",".join("%s:%s" % (k.hex(), "!" if v is None else hx(v)) for k, v in R.inf.items()) or "-"
    return ("rd side=%s comp=%d rl=%d dl=%d h=%d chunk=%d rbuf=%d rdsz=%d data=%s inf=%s" %
            ("s" if c.cfg["server"] else "c", int(c.cfg["comp"]), c.cfg["rl"], c.cfg["dl"], c.h, c.chunk, c.rbuf,
             c.rdsz, hx(d), inf))


def parse_op(op):
    kv = dict(w.split("=", 1) for w in op.split()[1:])
    cfg = {"server": kv["side"] == "s", "comp": kv["comp"] == "1", "rl": int(kv["rl"]), "dl": int(kv["dl"])}
    data = b"" if kv["data"] == "-" else bytes.fromhex(kv["data"])
    good = set()
    if kv.get("inf", "-") != "-":
        for pair in kv["inf"].split(","):
            k, v = pair.split(":")
            if v != "!":
                kb = bytes.fromhex(k)
                good.add(kb[:-4])
    return cfg, data, good, kv


# ----------------------------------------------------------------------------------------- oracle
def parse_out(line):
    kv = dict(w.split("=", 1) for w in line.split() if "=" in w)
    ev = [] if kv.get("ev", "-") == "-" else kv["ev"].split(",")
    w = [] if kv.get("w", "-") == "-" else kv["w"].split(",")
    return ev, w, kv.get("wm", "ok")


def check_writes(R, w):
    """Statement level: a pong with the same payload for every ping, a close frame with code 1002 after a protocol
    violation, 1009 after a size limit, some close frame after a received close; nothing else."""
    want = list(R.writes)
    got = []
    for f in w:
        b0, p = f.split(":")
        p = b"" if p == "-" else bytes.fromhex(p)
        if b0 == "8a":
            got.append(("pong", p))
        elif b0 == "88":
            got.append(("close", (p[0] * 256 + p[1]) if len(p) >= 2 else None))
        else:
            return "unexpected frame written back: " + f
    if len(got) != len(want):
        if len(got) < len(want) and got == want[:len(got)] and want[len(got)][0] == "close":
            return "no close frame written (expected code %s)" % want[len(got)][1]
        return "frames written back %s, expected %s" % (got, want)
    for g, x in zip(got, want):
        if g[0] != x[0]:
            return "frames written back %s, expected %s" % (got, want)
        if g[0] == "pong" and g[1] != x[1]:
            return "pong payload differs from ping payload"
        if g[0] == "close" and x[1] in (1002, 1009) and g[1] != x[1]:
            return "close frame with code %s written, expected %s" % (g[1], x[1])
    return None


def oracle(op, out):
    """None = the statement holds for this stream; else (message, signature)."""
    cfg, data, good, kv = parse_op(op)
    if out.startswith("PANIC") or out == "<missing>":
        return "reader panicked", {"kind": "panic"}
    ev, w, wm = parse_out(out)
    h = kv.get("h", "1") == "1"
    alts = [wsref.go_valid_code, lambda c: not wsref.go_valid_code(c)]
    last = None
    for acc in alts:
        R = ref_decode(cfg, data, quirks=False, known_good=good, gray_accept=acc, handlers=h)
        res = judge(R, ev, w, wm)
        if res is None:
            return None
        if last is None:
            last = res
        if not R.gray:
            break
    return last


def judge(R, ev, w, wm):
    if wm != "ok":
        return "frame written back with wrong masking", {"kind": "write-mask"}
    lf = R.loose_from
    exp = R.events
    if lf is not None:
        if ev[:lf] != exp[:lf]:
            return ("events %s, expected prefix %s" % (ev, exp[:lf]),
                    {"kind": "events", "rule": R.rule, "impl": (ev[lf - 1] if lf and len(ev) >= lf else "-").split(":")[0]})
        return None
    if ev != exp:
        k = 0
        while k < len(ev) and k < len(exp) and ev[k] == exp[k]:
            k += 1
        got = ev[k].split(":")[0] if k < len(ev) else "-"
        want = exp[k].split(":")[0] if k < len(exp) else "-"
        what = "events %s, a conforming receiver reports %s (rule %s)" % (ev, exp, R.rule)
        if want == "proto" and got == "toobig" and R.rule == "len64-msb":
            return what, {"kind": "wrong-failure", "rule": R.rule, "impl": got}
        if want == "proto" and got != "PANIC":
            return what, {"kind": "accepted-violation", "rule": R.rule}
        return what, {"kind": "events", "rule": R.rule, "impl": got, "want": want}
    msg = check_writes(R, w)
    if msg:
        return msg, {"kind": "writes", "rule": R.rule, "what": msg.split(" (")[0][:40]}
    return None


# ----------------------------------------------------------------------------------------- run
def load_findings():
    try:
        return json.load(open(os.path.join(HERE, "findings.json"))).get("findings", [])
    except FileNotFoundError:
        return []


def install_known(ctx):
    """known_findings.json is the union of props/*/findings.json (regenerated by the coordinator); also consult this
    property's own findings.json so that the check does not depend on when that happens."""
    orig = ctx._match_known
    mine = load_findings()

    fixed_ids = {e.get("id") for e in mine if e.get("status") == "fixed"}

    def match(signature):
        r = orig(signature)
        if r is not None and r.get("id") in fixed_ids:
            r = None  # stale entry of known_findings.json: this property's findings.json says it is fixed
        if r is not None:
            return r
        for e in mine:
            if e.get("property") == ctx.prop and e.get("status") == "known":
                m = e.get("match") or {}
                if m and all(signature.get(k) == v for k, v in m.items()):
                    return e
        return None
    ctx._match_known = match


def split_frames(op):
    """Cut the data of an op into frames as far as they parse (for shrinking)."""
    cfg, data, good, kv = parse_op(op)
    parts, i = [], 0
    while i + 2 <= len(data):
        b1 = data[i + 1]
        n, j = b1 & 0x7f, i + 2
        if n == 126:
            if j + 2 > len(data):
                break
            n = int.from_bytes(data[j:j + 2], "big")
            j += 2
        elif n == 127:
            if j + 8 > len(data):
                break
            n = int.from_bytes(data[j:j + 8], "big")
            j += 8
        if b1 & 0x80:
            j += 4
        if j + n > len(data):
            break
        parts.append(data[i:j + n])
        i = j + n
    if i < len(data):
        parts.append(data[i:])
    return parts


def with_data(op, data):
    ws = op.split()
    cfg, _, good, kv = parse_op(op)
    R = ref_decode(cfg, data, quirks=True, known_good=good)
    inf = ",".join("%s:%s" % (k.hex(), "!" if v is None else hx(v)) for k, v in R.inf.items()) or "-"
    out = []
    for w in ws:
        if w.startswith("data="):
            w = "data=" + hx(data)
        elif w.startswith("inf="):
            w = "inf=" + inf
        out.append(w)
    return " ".join(out)


def shrink(ctx, binary, op, sig):
    from vlib.core import ddmin
    parts = split_frames(op)

    def fails(ps):
        o = with_data(op, b"".join(ps))
        out = ctx.go_run(binary, "TestVerifC29", [o])
        r = oracle(o, out[0] if out else "<missing>")
        return r is not None and r[1] == sig
    try:
        if len(parts) > 1 and fails(parts):
            parts = ddmin(parts, fails)
    except Exception:
        pass
    o = with_data(op, b"".join(parts))
    # neutral transport parameters when they do not matter
    for k in ("chunk", "rbuf", "rdsz"):
        cand = " ".join((k + "=0") if w.startswith(k + "=") else w for w in o.split())
        out = ctx.go_run(binary, "TestVerifC29", [cand])
        r = oracle(cand, out[0] if out else "<missing>")
        if r is not None and r[1] == sig:
            o = cand
    return o


def run(ctx):
    install_known(ctx)
    ctx.rule = ("byte streams built from frame sequences: 0-3 messages (text/binary, sizes 0..70000, 1-4 fragments, "
                "optional real deflate compression, 7/16/64-bit and non-minimal length forms) with interleaved "
                "ping/pong, optional close, one injected boundary/invalid frame (RSV bits, opcodes, control "
                "FIN/length, continuation rules, mask, 64-bit MSB, close payload length/code/UTF-8, length overflow, "
                "corrupt deflate), read limits at size-1/size/size+1, truncation at and around frame boundaries, raw "
                "random bytes; server and client side, transport chunking 1..64, ReadMessage and NextReader+small "
                "reads; non-trivial = at least one complete frame parsed; distinct = distinct op line")
    ctx.assumptions = [
        "UTF-8 validity of text *messages* (RFC 6455 §8.1) is left to the application by this library and is not "
        "part of the specification used here",
        "flate is a parameter of model and specification (inflate table carried by the op line, computed with zlib "
        "for deflate streams produced by the generator); for corrupt or over-limit compressed messages that are "
        "fragmented or truncated only the event prefix before that message is compared",
        "close codes the RFC leaves undefined (1004, 1012-1014, 1016-2999, >= 5000) may be accepted or rejected",
        "the application stops reading at the first error (documented contract of NextReader)"]
    proofs_ok = ctx.lean_obligations()
    binary = ctx.go_test_binary("internal/websocket", [HARNESS])
    if binary is None:
        ctx.violation("correspondence", "harness no longer builds against internal/websocket",
                      signature={"kind": "harness-build"}, replay={"log": getattr(ctx, "build_error", "")},
                      no_input=True)
        return
    if ctx.replay:
        ops = json.load(open(ctx.replay)).get("ops", [])
        tags = [[] for _ in ops]
    else:
        corpus = [l.strip() for l in open(os.path.join(HERE, "corpus.ops")) if l.strip() and not l.startswith("#")]
        for f in load_findings():  # known ones are re-derived, fixed ones guard against regression
            corpus += f.get("replay", {}).get("ops", [])
        n = ctx.scale(4000, 150000)
        cases = [gen_case(ctx.rng) for _ in range(n)]
        ops = corpus + [fmt(c) for c in cases]
        tags = [["corpus"]] * len(corpus) + [c.tags for c in cases]
    ctx.log("generated", len(ops), "ops")
    impl = ctx.go_run(binary, "TestVerifC29", ops)
    if ctx.last_go_crash:
        ctx.notes.append("go harness: " + str(ctx.last_go_crash)[-300:])
    model = ctx.lean_run(ops)
    if model is None:
        proofs_ok = False
        model = []
    ctx.log("model and implementation ran")
    nviol = ncorr = 0
    seen_sigs = set()
    for i, op in enumerate(ops):
        out = impl[i] if i < len(impl) else "<missing>"
        cfg, data, good, kv = parse_op(op)
        R = ref_decode(cfg, data, quirks=False, known_good=good, handlers=kv.get("h", "1") == "1")
        ctx.record(op, nontrivial=bool(R.frames))
        for t in tags[i]:
            ctx.count(t)
        ctx.count("side:" + kv["side"] + ("+deflate" if cfg["comp"] else ""))
        ctx.count("end:" + str(R.rule).split("+")[0] + ("+more" if "+" in str(R.rule) else ""))
        for k in R.kinds:
            ctx.count(k)
        if R.loose_from is not None:
            ctx.count("loose")
        for ev in (out.split()[0][3:].split(",") if out.startswith("ev=") else []):
            ctx.count("impl:" + ev.split(":")[0])
        res = oracle(op, out)
        if res:
            msg, sig = res
            nviol += 1
            sk = json.dumps(sig, sort_keys=True)
            if ctx._match_known(sig) is not None:
                # still reproduces: reported once as KNOWN-FINDING (the stored replay ops run first)
                ctx.violation("property", msg, signature=sig, replay={"ops": [op], "impl": [out]})
                ctx.count("known-finding-case")
            else:
                if sk not in seen_sigs and len(seen_sigs) < 12:
                    seen_sigs.add(sk)
                    small = shrink(ctx, binary, op, sig) if not ctx.replay else op
                    sout = ctx.go_run(binary, "TestVerifC29", [small])
                    r2 = oracle(small, sout[0] if sout else "<missing>")
                    if r2 is None or r2[1] != sig:
                        small, sout, r2 = op, [out], res
                    ctx.violation("property", r2[0], signature=r2[1],
                                  replay={"ops": [small], "impl": sout, "original_op": op})
                continue
        # correspondence: implementation vs model, specification (Lean) vs oracle (Python)
        m = model[i] if i < len(model) else "<missing>"
        if not m.startswith("M "):
            mm, ss = "<missing>", "<missing>"
        else:
            mm, ss = m[2:].split(" S ")
            ss, qq = ss.split(" Q ")
            # the specification with the documented relaxation(s) of Quirks.go must describe the model exactly
            if parse_out(qq)[0] != [e if e not in ("eofraw", "internal") else e for e in parse_out(mm)[0]]:
                ctx.violation("correspondence", "Lean model and relaxed specification differ: `%s` vs `%s`" % (mm, qq),
                              signature={"kind": "model-vs-quirk-spec"}, replay={"ops": [op], "model": [m]},
                              no_input=True)
        mev, mw, _ = parse_out(mm)
        iev, iw, _ = parse_out(out)
        sev, _, _ = parse_out(ss)
        lf = R.loose_from
        same = (iev[:lf] == mev[:lf]) if lf is not None else (iev == mev and iw == mw)
        spec_same = (sev[:lf] == R.events[:lf]) if lf is not None else (sev == R.events)
        if not same or not spec_same:
            ncorr += 1
            if ncorr <= 3 and model:
                what = ("model and implementation differ: impl `%s` model `%s`" % (out, mm)) if not same else \
                       ("Lean specification and Python oracle differ: spec `%s` oracle `%s`" % (ss, ",".join(R.events)))
                ctx.violation("correspondence", what,
                              signature={"kind": "diff" if not same else "spec-sync"},
                              replay={"ops": [op], "impl": [out], "model": [m]}, no_input=True)
    ctx.traces_validated = len(ops)
    ctx.extra["property_failures"] = nviol
    ctx.extra["disagreements"] = ncorr
    if not proofs_ok:
        ctx.proof_broken()
