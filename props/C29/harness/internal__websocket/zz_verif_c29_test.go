//go:build verif

package websocket

// Verification harness for C29 (injected with `go test -overlay`, never part of the repo).
// One op per line of $VERIF_OPS, one canonical line per op to $VERIF_OUT.
//
//   rd side=s|c comp=0|1 rl=N dl=N h=0|1 chunk=N rbuf=N rdsz=N data=<hex> [inf=… ignored]
//
// A real Conn (server or client side, with or without negotiated permessage-deflate, read limits)
// reads the byte stream `data` from a bytes-backed net.Conn that hands out at most `chunk` bytes per
// Read (0 = everything) and ends with io.EOF.  The application loop is the documented one: call
// ReadMessage (rdsz=0) or NextReader + Read with an rdsz-byte buffer until an error is returned.
// Output: `ev=<events> w=<frames written back, unmasked> wm=ok|bad`.

import (
	"bufio"
	"bytes"
	"compress/flate"
	"encoding/hex"
	"errors"
	"fmt"
	"io"
	"net"
	"os"
	"strconv"
	"strings"
	"testing"
	"time"
)

type verifC29Conn struct {
	data  []byte
	pos   int
	chunk int
	w     bytes.Buffer
}

func (c *verifC29Conn) Read(p []byte) (int, error) {
	if c.pos >= len(c.data) {
		return 0, io.EOF
	}
	n := len(c.data) - c.pos
	if n > len(p) {
		n = len(p)
	}
	if c.chunk > 0 && n > c.chunk {
		n = c.chunk
	}
	copy(p, c.data[c.pos:c.pos+n])
	c.pos += n
	return n, nil
}
func (c *verifC29Conn) Write(p []byte) (int, error)        { return c.w.Write(p) }
func (c *verifC29Conn) Close() error                       { return nil }
func (c *verifC29Conn) LocalAddr() net.Addr                { return nil }
func (c *verifC29Conn) RemoteAddr() net.Addr               { return nil }
func (c *verifC29Conn) SetDeadline(_ time.Time) error      { return nil }
func (c *verifC29Conn) SetReadDeadline(_ time.Time) error  { return nil }
func (c *verifC29Conn) SetWriteDeadline(_ time.Time) error { return nil }

func verifC29Hex(b []byte) string {
	if len(b) == 0 {
		return "-"
	}
	return hex.EncodeToString(b)
}

func verifC29Unhex(s string) ([]byte, bool) {
	if s == "-" || s == "" {
		return nil, true
	}
	b, err := hex.DecodeString(s)
	return b, err == nil
}

func verifC29KV(ws []string) map[string]string {
	m := map[string]string{}
	for _, w := range ws {
		if i := strings.IndexByte(w, '='); i > 0 {
			m[w[:i]] = w[i+1:]
		}
	}
	return m
}

// verifC29Written decodes the control frames the connection wrote.
func verifC29Written(b []byte, isServer bool) (string, string) {
	var out []string
	wm := "ok"
	for len(b) > 0 {
		if len(b) < 2 {
			out = append(out, "?short")
			break
		}
		b0, b1 := b[0], b[1]
		masked := b1&0x80 != 0
		if masked == isServer {
			wm = "bad"
		}
		n := int(b1 & 0x7f)
		b = b[2:]
		if n > 125 {
			out = append(out, "?len")
			break
		}
		var key [4]byte
		if masked {
			if len(b) < 4 {
				out = append(out, "?short")
				break
			}
			copy(key[:], b[:4])
			b = b[4:]
		}
		if len(b) < n {
			out = append(out, "?short")
			break
		}
		p := append([]byte(nil), b[:n]...)
		b = b[n:]
		if masked {
			for i := range p {
				p[i] ^= key[i&3]
			}
		}
		out = append(out, fmt.Sprintf("%02x:%s", b0, verifC29Hex(p)))
	}
	if len(out) == 0 {
		return "-", wm
	}
	return strings.Join(out, ","), wm
}

func verifC29ErrEvent(err error) string {
	var ce *CloseError
	var cie flate.CorruptInputError
	var ie flate.InternalError
	switch {
	case err == errUnexpectedEOF:
		return "eof"
	case errors.As(err, &ce):
		return fmt.Sprintf("cl:%d:%s", ce.Code, verifC29Hex([]byte(ce.Text)))
	case err == ErrReadLimit:
		return "toobig"
	case err == io.EOF:
		return "eofraw"
	case err == io.ErrUnexpectedEOF || errors.As(err, &cie) || errors.As(err, &ie):
		return "baddata"
	case err.Error() == "websocket: internal error, unexpected text or binary in Reader":
		return "internal"
	case strings.HasPrefix(err.Error(), "websocket: "):
		return "proto"
	}
	return "other:" + strings.ReplaceAll(err.Error(), " ", "_")
}

func verifC29Step(line string) (res string) {
	defer func() {
		if r := recover(); r != nil {
			res = "PANIC"
		}
	}()
	ws := strings.Fields(line)
	if len(ws) == 0 || ws[0] != "rd" {
		return "bad-op"
	}
	kv := verifC29KV(ws[1:])
	num := func(k string) int {
		n, _ := strconv.Atoi(kv[k])
		return n
	}
	data, ok := verifC29Unhex(kv["data"])
	if !ok {
		return "bad-op"
	}
	isServer := kv["side"] == "s"
	nc := &verifC29Conn{data: data, chunk: num("chunk")}
	c := newConn(nc, isServer, num("rbuf"), 0, nil, nil, nil)
	if kv["comp"] == "1" {
		c.newDecompressionReader = decompressNoContextTakeover
		c.newCompressionWriter = compressNoContextTakeover
	}
	c.SetReadLimit(int64(num("rl")))
	c.SetDecompressedReadLimit(int64(num("dl")))
	var ev []string
	if kv["h"] == "1" {
		c.SetPingHandler(func(b []byte) error {
			ev = append(ev, "pi:"+verifC29Hex(b))
			return c.defaultPingHandler(b)
		})
		c.SetPongHandler(func(b []byte) error {
			ev = append(ev, "po:"+verifC29Hex(b))
			return c.defaultPongHandler(b)
		})
	}
	rdsz := num("rdsz")
	for i := 0; i < len(data)+4; i++ {
		var mt int
		var p []byte
		var err error
		if rdsz == 0 {
			mt, p, err = c.ReadMessage()
		} else {
			var r io.Reader
			mt, r, err = c.NextReader()
			if err == nil {
				buf := make([]byte, rdsz)
				for {
					n, rerr := r.Read(buf)
					p = append(p, buf[:n]...)
					if rerr == io.EOF {
						break
					}
					if rerr != nil {
						err = rerr
						break
					}
				}
			}
		}
		if err != nil {
			ev = append(ev, verifC29ErrEvent(err))
			break
		}
		ev = append(ev, fmt.Sprintf("m%d:%s", mt, verifC29Hex(p)))
	}
	w, wm := verifC29Written(nc.w.Bytes(), isServer)
	e := "-"
	if len(ev) > 0 {
		e = strings.Join(ev, ",")
	}
	return fmt.Sprintf("ev=%s w=%s wm=%s", e, w, wm)
}

func TestVerifC29(t *testing.T) {
	in, err := os.Open(os.Getenv("VERIF_OPS"))
	if err != nil {
		t.Skip("no VERIF_OPS")
	}
	defer in.Close()
	out, err := os.Create(os.Getenv("VERIF_OUT"))
	if err != nil {
		t.Fatal(err)
	}
	defer out.Close()
	w := bufio.NewWriter(out)
	defer w.Flush()
	sc := bufio.NewScanner(in)
	sc.Buffer(make([]byte, 1<<20), 1<<28)
	for sc.Scan() {
		line := sc.Text()
		if line == "" || strings.HasPrefix(line, "#") {
			fmt.Fprintln(w, "#")
			continue
		}
		fmt.Fprintln(w, verifC29Step(line))
	}
}
