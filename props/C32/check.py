"""C32 — SSE and HTTP-stream framing deliver each message intact.

Proof: lean/CentrifugeVerif/Props/C32.lean over Spec/EventSource.lean (client-side decoders) and
Model/{SSE,HTTPStream}.lean (what the handlers write).
Tie: a harness compiled into package centrifuge runs a real Node behind the real SSEHandler /
HTTPStreamHandler (httptest), with connect/subscribe/RPC replies, publications, sends and the
disconnect push carrying generated payloads; it reports every message handed to the transport
(Node.OnTransportWrite) and the complete response body.  The Lean driver then (a) rebuilds the body
from the captured messages with the handler model (correspondence) and (b) decodes the real body with
the spec decoders.
Oracle (the property statement): the decoded sequence equals the sequence handed to the transport,
each message exactly one event/record.  Additionally every frame handed to a JSON transport is
checked for raw LF / CR (the assumption about the external JSON encoder).
"""
import json
import os
import re
import time

from vlib.core import ddmin

HERE = os.path.dirname(os.path.abspath(__file__))


def hx(b):
    if isinstance(b, str):
        b = b.encode("utf-8")
    return b.hex() if b else "-"


def unhx(s):
    return b"" if s == "-" else bytes.fromhex(s)


def unlist(s):
    return [] if s == "none" else [unhx(x) for x in s.split(",")]


def enlist(l):
    return ",".join(hx(x) for x in l) if l else "none"


# ------------------------------------------------------------------ payload generators
WS_PROFILES = {
    "none": [""],
    "space": ["", " ", "  ", "\t"],
    "lf": ["", " ", "\n", "\n\n", " \n "],
    "cr": ["", " ", "\r", "\r\r", " \r"],
    "crlf": ["", "\r\n", "\r\n\r\n", " \r\n\t"],
    "mixed": ["", " ", "\t", "\n", "\r", "\r\n", "\n\r", "\n\n\r\n"],
}
STRINGS = ["", "x", "hello world", "line\nbreak", "cr\rhere", "crlf\r\nhere", "tab\there", "quote\"q", "back\\slash",
           "é", "日本語", "\U0001f600", " sep ", "\u0085nel", "data: x", ": comment", " lead", "trail ", "a:b",
           "\x00nul", "\x7f", "id: 7", "event: boom", "retry: 10", "﻿bom", "{}", "\\n"]


def jstr(rng, s, raw_unicode):
    out = json.dumps(s, ensure_ascii=not raw_unicode)
    return out


def gen_json(rng, ws, depth=0, big=False):
    """a JSON text with insignificant white space drawn from `ws` between tokens"""
    w = lambda: rng.choice(ws)
    k = rng.random()
    if depth > 3 or k < 0.35:
        t = rng.random()
        if t < 0.45:
            return jstr(rng, rng.choice(STRINGS) + (rng.choice(STRINGS) if rng.random() < 0.3 else ""), rng.random() < 0.6)
        if t < 0.7:
            return rng.choice(["0", "-1", "1.5e10", "123456789012345678901234567890", "1E-2", "0.0"])
        return rng.choice(["null", "true", "false"])
    if k < 0.7:
        n = rng.randint(0, 4) if not big else rng.randint(20, 60)
        items = [jstr(rng, rng.choice(STRINGS) or "k", rng.random() < 0.6) + w() + ":" + w() + gen_json(rng, ws, depth + 1)
                 for _ in range(n)]
        return "{" + w() + ("," + w()).join(i + w() for i in items) + "}"
    n = rng.randint(0, 4) if not big else rng.randint(20, 60)
    items = [gen_json(rng, ws, depth + 1) for _ in range(n)]
    return "[" + w() + ("," + w()).join(i + w() for i in items) + "]"


def gen_json_payload(rng, profile):
    ws = WS_PROFILES[profile]
    k = rng.random()
    if k < 0.02:  # large
        n = rng.choice([5000, 20000, 70000])
        s = "{" + rng.choice(ws) + "\"big\":" + rng.choice(ws) + json.dumps("x" * n) + rng.choice(ws) + "}"
    elif k < 0.05:
        s = gen_json(rng, ws, big=True)
    else:
        s = gen_json(rng, ws)
    if rng.random() < 0.3:
        s = rng.choice(ws) + s + rng.choice(ws)
    return s.encode("utf-8")


def gen_bin_payload(rng):
    k = rng.random()
    if k < 0.3:
        n = rng.choice([0, 1, 2, 10, 100, 126, 127, 128, 129, 200])
    elif k < 0.4:
        n = rng.choice([16382, 16383, 16384, 16385, 70000]) if rng.random() < 0.25 else rng.choice([255, 256, 1000])
    else:
        n = rng.randint(0, 300)
    t = rng.random()
    if t < 0.3:
        return bytes(rng.choice([0x0a, 0x0d, 0x00, 0xff, 0x80, 0x7f, 0x20]) for _ in range(n))
    if t < 0.5 and n > 1000:
        return bytes([rng.randrange(256)]) * n
    return bytes(rng.randrange(256) for _ in range(n))


REASONS = ["", "bye", "shutdown", "new\nline", "cr\rlf\r\n", "é😀", "data: x\n\n", "a" * 200, " ", "\"q\""]


def gen_scenario(rng):
    t = rng.choice(["sse", "sse", "sse", "hs-json", "hs-json", "hs-proto", "hs-proto"])
    m = rng.choice(["post", "get"]) if t == "sse" else "post"
    profile = rng.choice(["none", "space", "lf", "lf", "crlf", "cr", "mixed", "mixed"])
    steps = []
    budget = 150000

    def payload():
        nonlocal budget
        for _ in range(20):
            p = gen_bin_payload(rng) if t == "hs-proto" else gen_json_payload(rng, profile)
            if len(p) * 3 < budget:  # pubi embeds the payload three times
                budget -= len(p) * 3
                return p
        return b"0" if t != "hs-proto" else b""
    if rng.random() < 0.4:
        steps.append(("cd", payload()))
    if rng.random() < 0.4:
        steps.append(("sd", payload()))
    for _ in range(rng.choice([0, 0, 1, 2])):
        steps.append(("rpc", payload()))
    nasync = rng.choice([0, 1, 1, 2, 3, 5, 8, 20]) if rng.random() < 0.9 else 40
    for _ in range(nasync):
        k = rng.choice(["pub", "pub", "pubi", "send", "ping"])
        # a server ping is an empty Reply: `{}` in JSON, a zero-length record in the Protobuf stream
        steps.append((k, b"" if k == "ping" else payload()))
    if rng.random() < 0.25:
        steps.insert(rng.randint(0, len(steps)), ("ping", b""))
    dc = rng.choice([3500, 3501, 3503, 3001, 3005, 4000])
    dr = rng.choice(REASONS)
    return fmt_scn(t, m, dc, dr.encode("utf-8"), steps)


def gen_multi(rng):
    """several concurrent JSON connections on one channel receiving the same publications (the hub
    encodes a publication once and hands the same bytes to every subscriber)"""
    kinds = [rng.choice(["sse", "sse", "sse", "hs-json"])]
    for _ in range(rng.choice([1, 1, 2])):
        kinds.append(rng.choice(["hs-json", "sse"]))
    profile = rng.choice(["crlf", "crlf", "cr", "mixed", "lf", "none"])
    pubs = []
    for _ in range(rng.choice([1, 1, 2, 3])):
        p = gen_json_payload(rng, profile)
        if len(p) < 30000:
            pubs.append(p)
    s = ",".join("pub:" + hx(p) for p in pubs) if pubs else "none"
    return f"multi c={','.join(kinds)} dc=3501 dr={hx(rng.choice(REASONS))} s={s}"


def gen_gated(rng):
    """concurrent Protobuf HTTP-stream connections with different RPC reply payloads; the first one's
    body write is held while the others are served (pooled encoder / shared buffer reuse)"""
    n = rng.choice([2, 2, 3, 4])
    return "gated r=" + ",".join(hx(gen_bin_payload(rng)[:2000]) for _ in range(n))


def fmt_scn(t, m, dc, dr, steps):
    s = ",".join(f"{k}:{hx(d)}" for k, d in steps) if steps else "none"
    return f"scn t={t} m={m} dc={dc} dr={hx(dr)} s={s}"


def parse_scn(op):
    kv = dict(w.split("=", 1) for w in op.split()[1:])
    steps = [] if kv["s"] == "none" else [(x.split(":")[0], unhx(x.split(":")[1])) for x in kv["s"].split(",")]
    return kv["t"], kv["m"], int(kv["dc"]), unhx(kv["dr"]), steps


def parse_out(out):
    kv = dict(w.split("=", 1) for w in out.split())
    return int(kv["status"]), int(kv["exp"]), unlist(kv["msgs"]), unhx(kv["body"])


# ------------------------------------------------------------------ independent Python decoders (N-version check of the Lean spec)
def py_eventsource(body):
    if body.startswith(b"\xef\xbb\xbf"):
        body = body[3:]
    lines = re.split(rb"\r\n|\n|\r", body)[:-1]  # the last piece is an unterminated line: discarded
    events, data, etype, last = [], [], b"", b""
    for l in lines:
        if l == b"":
            if data:
                events.append((etype, b"\n".join(data), last))
            data, etype = [], b""
            continue
        if l.startswith(b":"):
            continue
        f, sep, v = l.partition(b":")
        if sep and v.startswith(b" "):
            v = v[1:]
        if f == b"data":
            data.append(v)
        elif f == b"event":
            etype = v
        elif f == b"id" and b"\x00" not in v:
            last = v
    return events


def py_decode(t, body):
    if t == "sse":
        return "none" if not py_eventsource(body) else ",".join(f"{hx(a)}:{hx(b)}:{hx(c)}" for a, b, c in py_eventsource(body))
    if t == "hs-json":
        return enlist(body.split(b"\n")[:-1])
    out, i = [], 0
    while i < len(body):
        n, shift = 0, 0
        while True:
            if i >= len(body):
                return "err"
            b = body[i]; i += 1
            n |= (b & 0x7f) << shift
            shift += 7
            if b < 0x80:
                break
        if i + n > len(body):
            return "err"
        out.append(body[i:i + n]); i += n
    return "ok " + enlist(out)


def expected_decoding(t, msgs):
    if t == "sse":
        # the SSE handler drops raw CR bytes (68b38e53); the decoded text must be the message minus raw CRs
        # — and a JSON-equal value, which `json_equal_minus_cr` checks separately
        return "none" if not msgs else ",".join("-:" + hx(m.replace(b"\r", b"")) + ":-" for m in msgs)
    if t == "hs-json":
        return enlist(msgs)
    return "ok " + enlist(msgs)


def json_equal_minus_cr(m):
    """removing raw CR bytes must not change the JSON value (None = the frame is not JSON we can parse)"""
    if b"\r" not in m:
        return True
    try:
        a = json.loads(m.decode("utf-8"))
    except (ValueError, UnicodeDecodeError):
        return None
    try:
        return json.loads(m.replace(b"\r", b"").decode("utf-8")) == a
    except (ValueError, UnicodeDecodeError):
        return False


PREFIX = {"sse": "sse", "hs-json": "json", "hs-proto": "proto"}


def cause_of(t, msgs):
    if t != "hs-proto" and any(b"\n" in m for m in msgs):
        return "raw-LF-in-frame"
    if t == "sse" and any(b"\r" in m for m in msgs):
        return "raw-CR-in-frame"
    return "framing"


def lean_lines(ctx, lines):
    """the Lean driver is built once per run (lake is serialised between all checks by a lock)"""
    path = getattr(ctx, "_c32_driver", None)
    if path is None:
        path = ctx.lean_driver_build()
        ctx._c32_driver = path or False
    if not path:
        return None
    return ctx.run_lines([path], lines, timeout=3000)


def is_json(m):
    try:
        json.loads(m.decode("utf-8"))
        return True
    except (ValueError, UnicodeDecodeError):
        return False


def parse_units(op, out):
    """connections of one scenario: list of (transport, status, expected count, msgs, body)"""
    if out.startswith("multi ;; "):
        units = []
        for part in out.split(" ;; ")[1:]:
            kv = dict(w.split("=", 1) for w in part.split())
            units.append((kv["t"], int(kv["status"]), int(kv["exp"]), unlist(kv["msgs"]), unhx(kv["body"])))
        return units
    status, exp, msgs, body = parse_out(out)
    return [(parse_scn(op)[0], status, exp, msgs, body)]


def judge(ctx, t, status, exp, msgs, body, mbody, mparse, record, tag=""):
    if record:
        ctx.count("transport:" + t + tag)
        ctx.count("msgs", len(msgs))
        nl = sum(1 for m in msgs if b"\n" in m)
        cr = sum(1 for m in msgs if b"\r" in m)
        if t != "hs-proto":
            ctx.count("json-frames-checked-for-CRLF", len(msgs))
            if nl:
                ctx.count("json-frames-with-raw-LF", nl)
            if cr:
                ctx.count("json-frames-with-raw-CR:" + t, cr)
        else:
            ctx.count("proto-frames-with-CR-or-LF", sum(1 for m in msgs if b"\n" in m or b"\r" in m))
            ctx.count("proto-frames-empty", sum(1 for m in msgs if not m))
    want = expected_decoding(t, msgs)
    pyd = py_decode(t, body)
    if status != 200:
        return ("harness", f"unexpected HTTP status {status}", {}, {})
    if len(msgs) != exp:
        return ("harness", f"{len(msgs)} messages handed to the transport, scenario expects {exp}", {}, {})
    if mparse != want:
        cause = cause_of(t, msgs)
        bad = [m for m in msgs if (b"\r" in m or b"\n" in m)] if t != "hs-proto" else []
        return ("property",
                f"{t}: the client-side decoding of the response body is not the sequence of messages handed to the transport ({cause})",
                {"transport": t, "cause": cause},
                {"decoded": mparse[:2000], "handed": want[:2000], "offending_frames": [hx(m)[:400] for m in bad[:3]]})
    if t != "hs-proto" and any(not is_json(m) for m in msgs):
        return ("property", f"{t}: a frame handed to a JSON transport is not a valid JSON text (clobbered shared buffer?)",
                {"transport": t, "cause": "invalid-JSON-frame"},
                {"offending_frames": [hx(m)[:600] for m in msgs if not is_json(m)][:3]})
    if t == "sse" and any(json_equal_minus_cr(m) is False for m in msgs):
        return ("property", "sse: the delivered event (message minus raw CR) is not JSON-equal to the message handed to the transport",
                {"transport": t, "cause": "CR-strip-changes-JSON"},
                {"offending_frames": [hx(m)[:400] for m in msgs if json_equal_minus_cr(m) is False][:3]})
    if t != "hs-proto" and any(b"\n" in m for m in msgs):
        return ("property", f"{t}: a frame handed to a JSON transport contains a raw LF (the JSON encoder was bypassed?)",
                {"transport": t, "cause": "raw-LF-in-frame"}, {"offending_frames": [hx(m)[:400] for m in msgs if b"\n" in m][:3]})
    if pyd != mparse:
        return ("correspondence", f"{t}: Lean spec decoder and the independent Python decoder disagree",
                {"kind": "spec-nversion", "transport": t}, {"lean": mparse[:1000], "python": pyd[:1000]})
    if mbody != hx(body):
        return ("correspondence", f"{t}: handler model writes a different body for the same messages",
                {"kind": "body-diff", "transport": t}, {"model_body": mbody[:2000], "impl_body": hx(body)[:2000]})
    return None


def evaluate(ctx, binary, ops, record=True):
    """returns list of (op, verdict) with verdict None | (kind, msg, signature, extra)"""
    t0 = time.time()
    impl = ctx.go_run(binary, "TestVerifC32", ops, timeout=3000)
    tgo = time.time() - t0
    lean_ops = []
    parsed = []
    for i, op in enumerate(ops):
        out = impl[i] if i < len(impl) else "HARNESS-ERROR missing output"
        if out.startswith("HARNESS-ERROR") or not out.startswith(("status=", "multi ;; ")):
            parsed.append(None)
            ctx.count("harness-error")
            ctx.notes.append(f"harness error: {out[:200]} on {op[:100]}")
            continue
        units = parse_units(op, out)
        parsed.append(units)
        for (t, status, exp, msgs, body) in units:
            lean_ops.append(f"{PREFIX[t]}-body {enlist(msgs)}")
            lean_ops.append(f"{PREFIX[t]}-parse {hx(body)}")
    t0 = time.time()
    model = lean_lines(ctx, lean_ops) if lean_ops else []
    if record:
        ctx.log(f"{len(ops)} scenarios: go {tgo:.1f}s, lean {time.time() - t0:.1f}s")
    res = []
    j = 0
    for i, op in enumerate(ops):
        units = parsed[i]
        if units is None:
            res.append((op, None))
            continue
        verdict = None
        for k, (t, status, exp, msgs, body) in enumerate(units):
            if model is None or 2 * j + 1 >= len(model):
                verdict = verdict or ("model", "lean driver produced no output", {}, {})
                j += 1
                continue
            mbody, mparse = model[2 * j], model[2 * j + 1]
            j += 1
            v = judge(ctx, t, status, exp, msgs, body, mbody, mparse, record, tag=(":multi" if len(units) > 1 else ""))
            if v is not None and (verdict is None or (verdict[0] != "property" and v[0] == "property")):
                if len(units) > 1 and v[2]:
                    v = (v[0], v[1] + f" [connection {k} of {len(units)}]", dict(v[2], multi=True), v[3])
                verdict = v
        res.append((op, verdict))
    return res


def shrink(ctx, binary, op, sig):
    if not op.startswith("scn "):
        return op
    t, m, dc, dr, steps = parse_scn(op)

    def fails(ss):
        r = evaluate(ctx, binary, [fmt_scn(t, m, dc, dr, ss)], record=False)
        v = r[0][1]
        return v is not None and v[0] == "property" and v[2] == sig
    try:
        if steps and fails(steps):
            steps = ddmin(steps, fails) if len(steps) > 1 else steps
            if fails([]):
                steps = []
        if dr and fails_with(ctx, binary, t, m, dc, b"bye", steps, sig):
            dr = b"bye"
    except Exception as e:  # shrinking is best effort
        ctx.notes.append("shrink failed: " + repr(e))
    return fmt_scn(t, m, dc, dr, steps)


def fails_with(ctx, binary, t, m, dc, dr, steps, sig):
    r = evaluate(ctx, binary, [fmt_scn(t, m, dc, dr, steps)], record=False)
    v = r[0][1]
    return v is not None and v[0] == "property" and v[2] == sig


def report(ctx, binary, results, do_shrink=True):
    nprop = 0
    seen = set()
    for op, v in results:
        if v is None:
            continue
        kind, msg, sig, extra = v
        if kind == "harness":
            ctx.count("harness-error")
            ctx.notes.append(f"{msg} on {op[:120]}")
            continue
        if kind == "model":
            ctx.obligation_errors.append({"stage": "driver build", "exe": "drv_c32", "log": msg})
            continue
        key = json.dumps([kind, sig], sort_keys=True)
        if kind == "property":
            nprop += 1
            small = op
            if do_shrink and key not in seen and ctx._match_known(sig) is None:
                small = shrink(ctx, binary, op, sig)
            seen.add(key)
            rep = {"ops": [small], "original_op": op if small != op else None}
            rep.update(extra)
            ctx.violation("property", msg, signature=sig, replay=rep)
        else:
            rep = {"ops": [op]}
            rep.update(extra)
            ctx.violation("correspondence", msg, signature=sig, replay=rep, no_input=(nprop == 0))
    return nprop


def load_corpus():
    p = os.path.join(HERE, "corpus.ops")
    if not os.path.exists(p):
        return []
    return [l.strip() for l in open(p) if l.strip() and not l.startswith("#")]


def run(ctx):
    ctx.rule = ("scenarios against a real Node behind SSEHandler / HTTPStreamHandler (JSON and Protobuf): connect/subscribe/RPC "
                "reply data, publications (with and without ClientInfo), Client.Send and the disconnect push carry generated "
                "payloads — JSON with CR/LF/CRLF/blank lines as insignificant white space, escaped newlines, Unicode "
                "(U+2028, U+0085, emoji), SSE look-alikes (`data: x`, `: c`), large payloads; binary payloads with 0x0A/0x0D "
                "and varint boundary lengths for Protobuf; every scenario is non-trivial; distinct = distinct op line")
    ctx.assumptions = [
        "the centrifugal/protocol JSON encoder removes raw LF from embedded raw JSON (external module; asserted on every run: "
        "no frame handed to a JSON transport contains 0x0A); it does not remove raw CR — the SSE handler does since 68b38e53 "
        "(former finding C32-1), and the check verifies the CR-free text is JSON-equal to the frame",
        "UTF-8 decoding of the event stream is the identity on the well-formed UTF-8 the JSON protocol produces",
        "messages handed to the transport are captured with Node.OnTransportWrite (the []byte given to Transport.Write/WriteMany)",
        "Protobuf message lengths are below 2^56 (8-byte varint scratch buffer of the encoder)",
    ]
    t0 = time.time()
    proofs_ok = ctx.lean_obligations()
    ctx.log(f"lean obligations done ({time.time() - t0:.1f}s incl. waiting for the shared lake lock)")
    t0 = time.time()
    binary = ctx.go_test_binary(".", ["props/C32/harness/root/zz_verif_c32_test.go"])
    ctx.log(f"go harness built ({time.time() - t0:.1f}s)")
    if binary is None:
        ctx.violation("correspondence", "harness no longer builds against package centrifuge", signature={"kind": "harness-build"},
                      replay={"log": getattr(ctx, "build_error", "")}, no_input=True)
        return
    if ctx.replay:
        ops = json.load(open(ctx.replay)).get("ops", [])
        res = evaluate(ctx, binary, ops)
        report(ctx, binary, res, do_shrink=False)
        n = len(ops)
    else:
        fj = os.path.join(HERE, "findings.json")
        if os.path.exists(fj):  # known findings are re-derived from their stored replay on every run
            for f in json.load(open(fj)).get("findings", []):
                report(ctx, binary, evaluate(ctx, binary, f["replay"]["ops"], record=False), do_shrink=False)
        ops = load_corpus() + [gen_scenario(ctx.rng) for _ in range(ctx.scale(600, 10000))] + \
            [gen_multi(ctx.rng) for _ in range(ctx.scale(120, 2000))] + \
            [gen_gated(ctx.rng) for _ in range(ctx.scale(60, 1000))]
        res = []
        chunk = 500
        for i in range(0, len(ops), chunk):
            res += evaluate(ctx, binary, ops[i:i + chunk])
        ctx.log(f"scenarios evaluated ({time.time() - t0:.1f}s since harness build)")
        nprop = report(ctx, binary, res)
        nerr = ctx.hist.get("harness-error", 0)
        if len(ops) >= 4 and 2 * nerr > len(ops):  # a harness that cannot drive the code at all is a broken tie
            ctx.violation("correspondence", "harness cannot drive the SSE/HTTP-stream handlers any more: " + "; ".join(ctx.notes[:2])[:300],
                          signature={"kind": "harness-dead"}, replay={"ops": ops[:1]}, no_input=(nprop == 0))
        n = len(ops)
    for op in ops:
        ctx.record(op[:4000], nontrivial=True)
    ctx.traces_validated = n
    if ctx.obligation_errors:
        proofs_ok = False
    if not proofs_ok:
        ctx.proof_broken()
