//go:build verif

package centrifuge

// Verification harness for C32 (injected with `go test -overlay`, never part of the repo).
//
// One scenario per op line:
//   scn t=sse|hs-json|hs-proto m=post|get dc=<code> dr=<reasonhex> s=<step>,<step>,…
// steps: cd:<hex> connect reply data · sd:<hex> subscribe reply data · rpc:<hex> RPC reply data ·
//        ping:- server ping (Client.sendPing: empty Reply, zero bytes in Protobuf) · pub:<hex> Node.Publish · pubi:<hex> Node.Publish with ClientInfo carrying the payload as
//        ConnInfo/ChanInfo · send:<hex> Client.Send · (all hex, "-" = empty)
// A real Node is run behind the real SSEHandler / HTTPStreamHandler on an httptest server; the
// initial request carries connect + subscribe + the RPC commands; publications and sends follow once
// those were answered; then the client is closed with Disconnect{dc, dr} (which flushes the writer),
// and the whole response body is read until EOF.
// Output: `status=<code> ct=<hex> msgs=<hex,…|none> body=<hex>`; msgs = every message the server
// handed to the transport (captured by Node.OnTransportWrite, i.e. exactly the []byte given to
// Transport.Write/WriteMany), in order.  Time-outs are reported as `HARNESS-ERROR …`.

import (
	"bufio"
	"bytes"
	"context"
	"encoding/binary"
	"encoding/hex"
	"fmt"
	"io"
	"net/http"
	"net/http/httptest"
	"net/url"
	"os"
	"runtime"
	"strconv"
	"strings"
	"sync"
	"testing"
	"time"

	"github.com/centrifugal/protocol"
)

type verifC32Step struct {
	kind string
	data []byte
}

func verifC32Hex(b []byte) string {
	if len(b) == 0 {
		return "-"
	}
	return hex.EncodeToString(b)
}

func verifC32Unhex(s string) ([]byte, bool) {
	if s == "-" {
		return nil, true
	}
	b, err := hex.DecodeString(s)
	return b, err == nil
}

func verifC32Wait(cond func() bool, d time.Duration) bool {
	deadline := time.Now().Add(d)
	for !cond() {
		if time.Now().After(deadline) {
			return false
		}
		time.Sleep(200 * time.Microsecond)
	}
	return true
}

// verifC32Env: one Node and one httptest server per handler for the whole run (creating a Node per
// scenario costs ~0.3 s); the per-scenario inputs and the capture buffer are swapped under mu.
type verifC32Env struct {
	node     *Node
	sse, hs  *httptest.Server
	mu       sync.Mutex
	captured [][]byte
	connectData, subData []byte
	rpcs     [][]byte
	clientCh chan *Client
	multi    *verifC32Multi
}

// verifC32Multi: state of a scenario with several concurrent connections on one channel.
type verifC32Multi struct {
	primary *Client
	capt    map[*Client][][]byte
	gate    chan struct{}
}

// verifC32Conn: one streaming connection whose body is read incrementally.
type verifC32Conn struct {
	kind   string
	client *Client
	status int
	mu     sync.Mutex
	buf    []byte
	done   chan error
}

func (c *verifC32Conn) records() int {
	c.mu.Lock()
	defer c.mu.Unlock()
	if c.kind == "sse" {
		return bytes.Count(c.buf, []byte("\n\n"))
	}
	return bytes.Count(c.buf, []byte("\n"))
}

func (env *verifC32Env) dial(kind string) (*verifC32Conn, string) {
	srv := env.hs
	if kind == "sse" {
		srv = env.sse
	}
	body := []byte(`{"id":1,"connect":{}}` + "\n" + `{"id":2,"subscribe":{"channel":"ch"}}`)
	req, err := http.NewRequest(http.MethodPost, srv.URL, bytes.NewReader(body))
	if err != nil {
		return nil, "request: " + err.Error()
	}
	resp, err := (&http.Client{Timeout: 60 * time.Second}).Do(req)
	if err != nil {
		return nil, "do: " + err.Error()
	}
	conn := &verifC32Conn{kind: kind, status: resp.StatusCode, done: make(chan error, 1)}
	go func() {
		defer resp.Body.Close()
		buf := make([]byte, 32*1024)
		for {
			n, err := resp.Body.Read(buf)
			conn.mu.Lock()
			conn.buf = append(conn.buf, buf[:n]...)
			conn.mu.Unlock()
			if err != nil {
				if err == io.EOF {
					err = nil
				}
				conn.done <- err
				return
			}
		}
	}()
	select {
	case conn.client = <-env.clientCh:
	case <-time.After(20 * time.Second):
		return nil, "no client connected"
	}
	return conn, ""
}

// verifC32Writer: an http.ResponseWriter + Flusher collecting the body; with hold set, the first Write
// blocks (after announcing itself) until released — a slow client whose write is still in flight.
type verifC32Writer struct {
	mu      sync.Mutex
	header  http.Header
	status  int
	body    bytes.Buffer
	hold    bool
	entered chan struct{}
	release chan struct{}
}

func (w *verifC32Writer) Header() http.Header { return w.header }
func (w *verifC32Writer) WriteHeader(s int) {
	w.mu.Lock()
	if w.status == 0 {
		w.status = s
	}
	w.mu.Unlock()
}
func (w *verifC32Writer) Flush() {}
func (w *verifC32Writer) Write(p []byte) (int, error) {
	w.mu.Lock()
	hold := w.hold
	w.hold = false
	if w.status == 0 {
		w.status = 200
	}
	w.mu.Unlock()
	if hold {
		w.entered <- struct{}{}
		select {
		case <-w.release:
		case <-time.After(25 * time.Second):
		}
	}
	w.mu.Lock()
	w.body.Write(p)
	w.mu.Unlock()
	return len(p), nil
}

// runGated: `gated r=<hex>,<hex>,…` — one Protobuf HTTP-stream connection per payload, each with its
// own RPC reply payload.  Connection 0 has a slow client: its first body write is held inside Write
// while the other connections connect, get their replies written and are closed; then it is released.
// The handlers are called directly with a gated ResponseWriter; GOMAXPROCS is 1 for the duration so
// that goroutine hand-overs (and sync.Pool reuse between handler goroutines) are reproducible.
// Output as for `multi`.
func (env *verifC32Env) runGated(ws []string) string {
	kv := map[string]string{}
	for _, w := range ws {
		if i := strings.IndexByte(w, '='); i > 0 {
			kv[w[:i]] = w[i+1:]
		}
	}
	var payloads [][]byte
	for _, x := range strings.Split(kv["r"], ",") {
		d, ok := verifC32Unhex(x)
		if !ok {
			return "bad-op"
		}
		payloads = append(payloads, d)
	}
	if len(payloads) < 2 {
		return "bad-op"
	}
	prev := runtime.GOMAXPROCS(1)
	defer runtime.GOMAXPROCS(prev)
	node := env.node
	if !verifC32Wait(func() bool { return node.Hub().NumClients() == 0 }, 20*time.Second) {
		return "HARNESS-ERROR previous client still registered"
	}
	m := &verifC32Multi{capt: map[*Client][][]byte{}}
	env.mu.Lock()
	env.captured = nil
	env.connectData, env.subData, env.rpcs = nil, nil, payloads
	env.multi = m
	env.mu.Unlock()
	defer func() {
		env.mu.Lock()
		env.multi = nil
		env.mu.Unlock()
	}()
	for len(env.clientCh) > 0 {
		<-env.clientCh
	}
	h := NewHTTPStreamHandler(node, HTTPStreamConfig{})
	type gconn struct {
		w      *verifC32Writer
		client *Client
		done   chan struct{}
		cancel context.CancelFunc
	}
	serve := func(i int, hold bool) (*gconn, string) {
		var reqBody bytes.Buffer
		for _, c := range []*protocol.Command{
			{Id: 1, Connect: &protocol.ConnectRequest{}},
			{Id: 2, Rpc: &protocol.RPCRequest{Method: strconv.Itoa(i)}},
		} {
			b, err := c.MarshalVT()
			if err != nil {
				return nil, "marshal: " + err.Error()
			}
			var lb [binary.MaxVarintLen64]byte
			n := binary.PutUvarint(lb[:], uint64(len(b)))
			reqBody.Write(lb[:n])
			reqBody.Write(b)
		}
		ctx, cancel := context.WithCancel(context.Background())
		req := httptest.NewRequest(http.MethodPost, "/connection/http_stream", bytes.NewReader(reqBody.Bytes())).WithContext(ctx)
		req.Header.Set("Content-Type", "application/octet-stream")
		g := &gconn{w: &verifC32Writer{header: http.Header{}, hold: hold, entered: make(chan struct{}, 1), release: make(chan struct{})},
			done: make(chan struct{}), cancel: cancel}
		go func() {
			defer close(g.done)
			h.ServeHTTP(g.w, req)
		}()
		select {
		case g.client = <-env.clientCh:
		case <-time.After(20 * time.Second):
			cancel()
			return nil, "no client connected"
		}
		return g, ""
	}
	count := func(g *gconn) int { env.mu.Lock(); defer env.mu.Unlock(); return len(m.capt[g.client]) }
	var conns []*gconn
	cleanup := func() {
		for _, g := range conns {
			select {
			case <-g.w.release:
			default:
				close(g.w.release)
			}
			_ = g.client.close(DisconnectForceNoReconnect)
			g.cancel()
		}
	}
	a, e := serve(0, true)
	if a == nil {
		return "HARNESS-ERROR " + e
	}
	conns = append(conns, a)
	select {
	case <-a.w.entered:
	case <-time.After(20 * time.Second):
		cleanup()
		return "HARNESS-ERROR held connection did not start writing"
	}
	for i := 1; i < len(payloads); i++ {
		g, e := serve(i, false)
		if g == nil {
			cleanup()
			return "HARNESS-ERROR " + e
		}
		conns = append(conns, g)
		if !verifC32Wait(func() bool { return count(g) >= 2 }, 20*time.Second) {
			cleanup()
			return "HARNESS-ERROR replies not produced"
		}
		_ = g.client.close(DisconnectForceNoReconnect) // flushes the writer, closes the transport
		select {
		case <-g.done:
		case <-time.After(20 * time.Second):
			cleanup()
			return "HARNESS-ERROR handler did not finish"
		}
	}
	close(a.w.release)
	if !verifC32Wait(func() bool { return count(a) >= 2 }, 20*time.Second) {
		cleanup()
		return "HARNESS-ERROR held connection replies not produced"
	}
	_ = a.client.close(DisconnectForceNoReconnect)
	select {
	case <-a.done:
	case <-time.After(20 * time.Second):
		cleanup()
		return "HARNESS-ERROR held handler did not finish"
	}
	out := []string{"multi"}
	for _, g := range conns {
		g.cancel()
		env.mu.Lock()
		msgs := make([]string, 0)
		for _, mm := range m.capt[g.client] {
			msgs = append(msgs, verifC32Hex(mm))
		}
		env.mu.Unlock()
		ms := "none"
		if len(msgs) > 0 {
			ms = strings.Join(msgs, ",")
		}
		g.w.mu.Lock()
		body, status := verifC32Hex(g.w.body.Bytes()), g.w.status
		g.w.mu.Unlock()
		out = append(out, fmt.Sprintf("status=%d t=hs-proto exp=3 msgs=%s body=%s", status, ms, body))
	}
	return strings.Join(out, " ;; ")
}

// runMulti: `multi c=<kind>,<kind>,… dc=<code> dr=<hex> s=pub:<hex>,…` — JSON connections (sse / hs-json)
// subscribed to the same channel; the first one is the primary.  Every publication is delivered to
// the primary's client first, then the secondaries are released (see the OnTransportWrite hook).
// Output: `multi ;; <per-connection result like scn, plus t=<kind>> ;; …`.
func (env *verifC32Env) runMulti(ws []string) string {
	kv := map[string]string{}
	for _, w := range ws {
		if i := strings.IndexByte(w, '='); i > 0 {
			kv[w[:i]] = w[i+1:]
		}
	}
	kinds := strings.Split(kv["c"], ",")
	dcode, err := strconv.ParseUint(kv["dc"], 10, 32)
	dreason, ok := verifC32Unhex(kv["dr"])
	if err != nil || !ok || len(kinds) < 2 {
		return "bad-op"
	}
	var pubs [][]byte
	if kv["s"] != "" && kv["s"] != "none" {
		for _, st := range strings.Split(kv["s"], ",") {
			parts := strings.SplitN(st, ":", 2)
			if len(parts) != 2 || parts[0] != "pub" {
				return "bad-op"
			}
			d, ok := verifC32Unhex(parts[1])
			if !ok {
				return "bad-op"
			}
			pubs = append(pubs, d)
		}
	}
	node := env.node
	if !verifC32Wait(func() bool { return node.Hub().NumClients() == 0 }, 20*time.Second) {
		return "HARNESS-ERROR previous client still registered"
	}
	m := &verifC32Multi{capt: map[*Client][][]byte{}}
	env.mu.Lock()
	env.captured = nil
	env.connectData, env.subData, env.rpcs = nil, nil, nil
	env.multi = m
	env.mu.Unlock()
	defer func() {
		env.mu.Lock()
		env.multi = nil
		env.mu.Unlock()
	}()
	for len(env.clientCh) > 0 {
		<-env.clientCh
	}
	var conns []*verifC32Conn
	closeAll := func() {
		for _, c := range conns {
			_ = c.client.close(Disconnect{Code: uint32(dcode), Reason: string(dreason)})
		}
	}
	for i, k := range kinds {
		if k != "sse" && k != "hs-json" {
			closeAll()
			return "bad-op"
		}
		c, e := env.dial(k)
		if c == nil {
			closeAll()
			return "HARNESS-ERROR " + e
		}
		conns = append(conns, c)
		if i == 0 {
			env.mu.Lock()
			m.primary = c.client
			env.mu.Unlock()
		}
	}
	count := func(c *verifC32Conn) int { env.mu.Lock(); defer env.mu.Unlock(); return len(m.capt[c.client]) }
	if !verifC32Wait(func() bool {
		for _, c := range conns {
			if count(c) < 2 || c.records() < 2 {
				return false
			}
		}
		return node.Hub().NumSubscribers("ch") == len(conns)
	}, 20*time.Second) {
		closeAll()
		return "HARNESS-ERROR connections not subscribed"
	}
	herr := ""
	for i, d := range pubs {
		gate := make(chan struct{})
		env.mu.Lock()
		m.gate = gate
		env.mu.Unlock()
		base := conns[0].records()
		if _, err := node.Publish("ch", d); err != nil {
			herr = "publish: " + err.Error()
			close(gate)
			break
		}
		if !verifC32Wait(func() bool { return conns[0].records() > base }, 20*time.Second) {
			herr = "primary did not receive publication"
			close(gate)
			break
		}
		close(gate)
		if !verifC32Wait(func() bool {
			for _, c := range conns {
				if count(c) < 3+i {
					return false
				}
			}
			return true
		}, 20*time.Second) {
			herr = "secondary did not get publication"
			break
		}
	}
	env.mu.Lock()
	m.gate = nil
	env.mu.Unlock()
	closeAll()
	out := []string{"multi"}
	for _, c := range conns {
		select {
		case err := <-c.done:
			if err != nil && herr == "" {
				herr = "body read: " + err.Error()
			}
		case <-time.After(30 * time.Second):
			if herr == "" {
				herr = "body not finished"
			}
		}
		env.mu.Lock()
		msgs := make([]string, 0)
		for _, mm := range m.capt[c.client] {
			msgs = append(msgs, verifC32Hex(mm))
		}
		env.mu.Unlock()
		ms := "none"
		if len(msgs) > 0 {
			ms = strings.Join(msgs, ",")
		}
		c.mu.Lock()
		body := verifC32Hex(c.buf)
		c.mu.Unlock()
		out = append(out, fmt.Sprintf("status=%d t=%s exp=%d msgs=%s body=%s", c.status, c.kind, 2+len(pubs)+1, ms, body))
	}
	if herr != "" {
		return "HARNESS-ERROR " + herr
	}
	return strings.Join(out, " ;; ")
}

func verifC32NewEnv() (*verifC32Env, error) {
	env := &verifC32Env{clientCh: make(chan *Client, 4)}
	node, err := New(Config{LogLevel: LogLevelNone})
	if err != nil {
		return nil, err
	}
	env.node = node
	node.OnTransportWrite(func(c *Client, e TransportWriteEvent) bool {
		cp := make([]byte, len(e.Data)) // the bytes as they are handed over, before anything else can touch them
		copy(cp, e.Data)
		env.mu.Lock()
		env.captured = append(env.captured, cp)
		var gate chan struct{}
		if env.multi != nil {
			env.multi.capt[c] = append(env.multi.capt[c], cp)
			if c != env.multi.primary && e.Channel != "" {
				gate = env.multi.gate
			}
		}
		env.mu.Unlock()
		if gate != nil {
			// multi-connection scenarios: a secondary connection writes a publication only after the
			// primary connection's client has received it (deterministic order of the shared frame's use)
			select {
			case <-gate:
			case <-time.After(25 * time.Second):
			}
		}
		return true
	})
	node.OnConnecting(func(context.Context, ConnectEvent) (ConnectReply, error) {
		env.mu.Lock()
		defer env.mu.Unlock()
		return ConnectReply{Credentials: &Credentials{UserID: "u"}, Data: env.connectData}, nil
	})
	node.OnConnect(func(c *Client) {
		c.OnSubscribe(func(_ SubscribeEvent, cb SubscribeCallback) {
			env.mu.Lock()
			d := env.subData
			env.mu.Unlock()
			cb(SubscribeReply{Options: SubscribeOptions{Data: d}}, nil)
		})
		c.OnRPC(func(e RPCEvent, cb RPCCallback) {
			env.mu.Lock()
			rpcs := env.rpcs
			env.mu.Unlock()
			i, err := strconv.Atoi(e.Method)
			if err != nil || i < 0 || i >= len(rpcs) {
				cb(RPCReply{}, ErrorBadRequest)
				return
			}
			cb(RPCReply{Data: rpcs[i]}, nil)
		})
		select {
		case env.clientCh <- c:
		default:
		}
	})
	if err := node.Run(); err != nil {
		return nil, err
	}
	env.sse = httptest.NewServer(NewSSEHandler(node, SSEConfig{}))
	env.hs = httptest.NewServer(NewHTTPStreamHandler(node, HTTPStreamConfig{}))
	return env, nil
}

func (env *verifC32Env) close() {
	env.sse.Close()
	env.hs.Close()
	_ = env.node.Shutdown(context.Background())
}

func (env *verifC32Env) run(line string) string {
	ws := strings.Fields(line)
	if len(ws) < 2 || ws[0] != "scn" {
		return "bad-op"
	}
	kv := map[string]string{}
	for _, w := range ws[1:] {
		if i := strings.IndexByte(w, '='); i > 0 {
			kv[w[:i]] = w[i+1:]
		}
	}
	kind, method := kv["t"], kv["m"]
	dcode, err := strconv.ParseUint(kv["dc"], 10, 32)
	if err != nil {
		return "bad-op"
	}
	dreason, ok := verifC32Unhex(kv["dr"])
	if !ok {
		return "bad-op"
	}
	var steps []verifC32Step
	if kv["s"] != "" && kv["s"] != "none" {
		for _, s := range strings.Split(kv["s"], ",") {
			parts := strings.SplitN(s, ":", 2)
			if len(parts) != 2 {
				return "bad-op"
			}
			d, ok := verifC32Unhex(parts[1])
			if !ok {
				return "bad-op"
			}
			steps = append(steps, verifC32Step{parts[0], d})
		}
	}
	var connectData, subData []byte
	var rpcs [][]byte
	for _, s := range steps {
		switch s.kind {
		case "cd":
			connectData = s.data
		case "sd":
			subData = s.data
		case "rpc":
			rpcs = append(rpcs, s.data)
		case "pub", "pubi", "send", "ping":
		default:
			return "bad-op"
		}
	}

	node := env.node
	if !verifC32Wait(func() bool { return node.Hub().NumClients() == 0 }, 20*time.Second) {
		return "HARNESS-ERROR previous client still registered"
	}
	env.mu.Lock()
	env.captured = nil
	env.connectData, env.subData, env.rpcs = connectData, subData, rpcs
	env.mu.Unlock()
	for len(env.clientCh) > 0 {
		<-env.clientCh
	}
	clientCh := env.clientCh
	count := func() int { env.mu.Lock(); defer env.mu.Unlock(); return len(env.captured) }
	srv := env.hs
	if kind == "sse" {
		srv = env.sse
	}

	// initial frame: connect, subscribe, rpc…
	cmds := []*protocol.Command{
		{Id: 1, Connect: &protocol.ConnectRequest{}},
		{Id: 2, Subscribe: &protocol.SubscribeRequest{Channel: "ch"}},
	}
	for i := range rpcs {
		cmds = append(cmds, &protocol.Command{Id: uint32(3 + i), Rpc: &protocol.RPCRequest{Method: strconv.Itoa(i)}})
	}
	var reqBody bytes.Buffer
	for _, c := range cmds {
		if kind == "hs-proto" {
			b, err := c.MarshalVT()
			if err != nil {
				return "HARNESS-ERROR marshal: " + err.Error()
			}
			var lb [binary.MaxVarintLen64]byte
			n := binary.PutUvarint(lb[:], uint64(len(b)))
			reqBody.Write(lb[:n])
			reqBody.Write(b)
		} else {
			b, err := protocol.NewJSONCommandEncoder().Encode(c)
			if err != nil {
				return "HARNESS-ERROR marshal: " + err.Error()
			}
			if reqBody.Len() > 0 {
				reqBody.WriteByte('\n')
			}
			reqBody.Write(b)
		}
	}
	var req *http.Request
	if kind == "sse" && method == "get" {
		u, _ := url.Parse(srv.URL)
		q := u.Query()
		q.Set(connectUrlParam, reqBody.String())
		u.RawQuery = q.Encode()
		req, err = http.NewRequest(http.MethodGet, u.String(), nil)
	} else {
		req, err = http.NewRequest(http.MethodPost, srv.URL, bytes.NewReader(reqBody.Bytes()))
	}
	if err != nil {
		return "HARNESS-ERROR request: " + err.Error()
	}
	if kind == "hs-proto" {
		req.Header.Set("Content-Type", "application/octet-stream")
	}
	httpClient := &http.Client{Timeout: 60 * time.Second}
	resp, err := httpClient.Do(req)
	if err != nil {
		return "HARNESS-ERROR do: " + err.Error()
	}
	defer resp.Body.Close()
	type readRes struct {
		b   []byte
		err error
	}
	bodyCh := make(chan readRes, 1)
	go func() {
		b, err := io.ReadAll(resp.Body)
		bodyCh <- readRes{b, err}
	}()
	var client *Client
	select {
	case client = <-clientCh:
	case <-time.After(20 * time.Second):
		return "HARNESS-ERROR no client connected (status " + strconv.Itoa(resp.StatusCode) + ")"
	}
	// the initial frame is answered: connect + subscribe + rpc replies were handed to the transport
	if !verifC32Wait(func() bool { return count() >= 2+len(rpcs) }, 20*time.Second) {
		return fmt.Sprintf("HARNESS-ERROR initial replies: %d of %d", count(), 2+len(rpcs))
	}
	if !verifC32Wait(func() bool { return node.Hub().NumSubscribers("ch") == 1 }, 20*time.Second) {
		return "HARNESS-ERROR not subscribed"
	}
	expected := 2 + len(rpcs)
	for _, s := range steps {
		switch s.kind {
		case "pub":
			if _, err := node.Publish("ch", s.data); err != nil {
				return "HARNESS-ERROR publish: " + err.Error()
			}
			expected++
		case "pubi":
			if _, err := node.Publish("ch", s.data, WithClientInfo(&ClientInfo{ClientID: "c", UserID: "u", ConnInfo: s.data, ChanInfo: s.data})); err != nil {
				return "HARNESS-ERROR publish: " + err.Error()
			}
			expected++
		case "ping":
			// what the ping timer does: a server ping is `{}` in JSON and a ZERO-LENGTH message in Protobuf
			client.sendPing()
			expected++
		case "send":
			if err := client.Send(s.data); err != nil {
				return "HARNESS-ERROR send: " + err.Error()
			}
			expected++
		}
	}
	// close flushes the writer queue (and adds the disconnect push), then closes the transport
	_ = client.close(Disconnect{Code: uint32(dcode), Reason: string(dreason)})
	var rr readRes
	select {
	case rr = <-bodyCh:
	case <-time.After(30 * time.Second):
		return "HARNESS-ERROR body not finished"
	}
	if rr.err != nil {
		return "HARNESS-ERROR body read: " + rr.err.Error()
	}
	env.mu.Lock()
	msgs := make([]string, 0, len(env.captured))
	for _, m := range env.captured {
		msgs = append(msgs, verifC32Hex(m))
	}
	env.mu.Unlock()
	ms := "none"
	if len(msgs) > 0 {
		ms = strings.Join(msgs, ",")
	}
	return fmt.Sprintf("status=%d ct=%s exp=%d msgs=%s body=%s", resp.StatusCode,
		verifC32Hex([]byte(resp.Header.Get("Content-Type"))), expected+1, ms, verifC32Hex(rr.b))
}

func TestVerifC32(t *testing.T) {
	in, err := os.Open(os.Getenv("VERIF_OPS"))
	if err != nil {
		t.Skip("no VERIF_OPS")
	}
	defer in.Close()
	out, err := os.Create(os.Getenv("VERIF_OUT"))
	if err != nil {
		t.Fatal(err)
	}
	defer out.Close()
	w := bufio.NewWriter(out)
	defer w.Flush()
	env, err := verifC32NewEnv()
	if err != nil {
		t.Fatal(err)
	}
	defer env.close()
	sc := bufio.NewScanner(in)
	sc.Buffer(make([]byte, 1<<20), 1<<28)
	for sc.Scan() {
		line := sc.Text()
		if line == "" || strings.HasPrefix(line, "#") {
			fmt.Fprintln(w, "#")
			continue
		}
		if f := strings.Fields(line); len(f) > 1 && f[0] == "gated" {
			fmt.Fprintln(w, env.runGated(f[1:]))
			continue
		}
		if f := strings.Fields(line); len(f) > 1 && f[0] == "multi" {
			fmt.Fprintln(w, env.runMulti(f[1:]))
			continue
		}
		fmt.Fprintln(w, env.run(line))
	}
}
