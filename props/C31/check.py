"""C31 — WebSocket close codes and handshake follow the RFC.

Proof: lean/CentrifugeVerif/Props/C31.lean over Model/{Handshake,CloseCode,Base64,Sha1}.lean.
Tie: the same op lines are run through (a) a harness compiled into package internal/websocket
(Upgrade through a hijackable ResponseWriter, util.go functions, close handling on a server Conn),
(b) a harness compiled into package centrifuge (websocketTransport.Close over a real TCP
connection) and (c) the Lean driver; outputs are diffed.
Oracle: the property statement evaluated in Python on the implementation's output, independent of
the Lean model (hashlib/base64 for the accept key, RFC 7230 list grammar for header tokens on
well-formed requests, RFC 6455 §7.4 for close codes, strict UTF-8, first-close-wins bookkeeping).
"""
import base64
import hashlib
import json
import os
import re
import time
import string

from vlib.core import diff_lines

HERE = os.path.dirname(os.path.abspath(__file__))
GUID = b"258EAFA5-E914-47DA-95CA-C5AB0DC85B11"
TCHAR = "!#$%&'*+-.^_`|~" + string.digits + string.ascii_letters
B64 = string.ascii_uppercase + string.ascii_lowercase + string.digits + "+/"
TOKEN_RE = re.compile(rb"[!#$%&'*+\-.^_`|~0-9A-Za-z]+")
LIST_RE = re.compile(rb"[ \t]*[!#$%&'*+\-.^_`|~0-9A-Za-z]+([ \t]*,[ \t]*[!#$%&'*+\-.^_`|~0-9A-Za-z]+)*[ \t]*")
KEY_RE = re.compile(rb"[A-Za-z0-9+/]{22}==")
EXT_RESP = b"permessage-deflate; server_no_context_takeover; client_no_context_takeover"
SERVER_SUBS = [b"centrifuge-json", b"centrifuge-protobuf"]


def hx(b):
    if isinstance(b, str):
        b = b.encode("latin-1")
    return b.hex() if b else "-"


def unhx(s):
    return b"" if s == "-" else bytes.fromhex(s)


# ------------------------------------------------------------------ generators
def rand_token(rng):
    return "".join(rng.choice(TCHAR) for _ in range(rng.randint(1, 6)))


def odd_case(rng, s):
    k = rng.random()
    if k < 0.4:
        return s
    if k < 0.55:
        return s.upper()
    if k < 0.7:
        return s.lower()
    return "".join(c.upper() if rng.random() < 0.5 else c.lower() for c in s)


def gen_list_line(rng, pool, malformed_p=0.25):
    n = rng.choice([1, 1, 2, 2, 3, 4])
    elems = [odd_case(rng, rng.choice(pool)) if rng.random() < 0.8 else rand_token(rng) for _ in range(n)]
    seps = [",", ", ", " ,", " , ", ",\t", "\t,\t ", ",  "]
    s = rng.choice(["", "", " ", "\t", "  "])
    for i, e in enumerate(elems):
        if i:
            s += rng.choice(seps)
        s += e
    s += rng.choice(["", "", " ", "\t "])
    if rng.random() < malformed_p:
        k = rng.randrange(9)
        if k == 0:
            s = "," + s                       # empty first element
        elif k == 1:
            s = s.replace(",", ",,", 1) if "," in s else s + ","
        elif k == 2:
            s = s + rng.choice([";q=1", "; foo", " bar", "/1.0", "(c)", "\"x\"", "="])
        elif k == 3:
            i = rng.randrange(len(s) + 1)
            s = s[:i] + rng.choice(["@", ";", "\"", " x ", "\x7f", "\xe9", "\x00", "[", ":"]) + s[i:]
        elif k == 4:
            s = ""
        elif k == 5:
            s = " "
        elif k == 6:
            s = s + ", " + rng.choice(["@bad", "x y", ""])
        elif k == 7:
            s = rng.choice(["@bad, ", "x y, ", "\"q\", "]) + s
        else:
            s = s.replace(",", ";", 1)
    return s.encode("latin-1")


def gen_key(rng):
    k = rng.random()
    raw = bytes(rng.randrange(256) for _ in range(16))
    good = base64.b64encode(raw).decode()
    if k < 0.45:
        return good.encode()
    if k < 0.52:  # non-canonical trailing bits
        return (good[:21] + rng.choice(B64) + "==").encode()
    if k < 0.60:  # 24 alphabet characters, no padding (decodes to 18 bytes)
        return "".join(rng.choice(B64) for _ in range(24)).encode()
    if k < 0.66:  # single pad (17 bytes)
        return ("".join(rng.choice(B64) for _ in range(23)) + "=").encode()
    if k < 0.72:  # wrong decoded length, canonical
        n = rng.choice([0, 1, 8, 15, 17, 18, 20, 32])
        return base64.b64encode(bytes(rng.randrange(256) for _ in range(n)))
    if k < 0.80:  # one bad character somewhere
        i = rng.randrange(24)
        return (good[:i] + rng.choice("-_ .=\n\r\t*\x00\xff") + good[i + 1:]).encode("latin-1")
    if k < 0.86:  # newlines / padding in odd places, total length 24
        s = list(good)
        for _ in range(rng.randint(1, 3)):
            s[rng.randrange(24)] = rng.choice("\n\r=")
        return "".join(s).encode()
    if k < 0.90:
        return b""
    if k < 0.95:  # length 24 from a nasty alphabet
        return "".join(rng.choice("Aa0+/=\n\r-_") for _ in range(24)).encode()
    return "".join(rng.choice(B64 + "=") for _ in range(rng.choice([22, 23, 25, 26, 28]))).encode()


EXT_POOL = ["permessage-deflate", "permessage-deflate; client_max_window_bits",
            "permessage-deflate; server_no_context_takeover; client_max_window_bits=15",
            "permessage-deflate; server_max_window_bits=\"10\"", "x-webkit-deflate-frame", "foo", "foo; bar=\"b,a;z\"",
            "permessage-deflate; x=\"a\\\"b\"", "Permessage-Deflate", "permessage-deflate2", "permessage-deflat",
            "mux; max-channels=4; flow-control", "foo; x=\"unterminated", "foo; =1", "foo; a=1 junk", "foo junk",
            "permessage-deflate; a = 1 ; b", "permessage-deflate;", "permessage-deflate; x=\"\\", "; permessage-deflate"]


def gen_ext_line(rng):
    n = rng.choice([1, 1, 2, 3])
    parts = [rng.choice(EXT_POOL) for _ in range(n)]
    s = rng.choice([",", ", ", " , "]).join(parts)
    if rng.random() < 0.15:
        i = rng.randrange(len(s) + 1)
        s = s[:i] + rng.choice([" ", "\t", ",", ";", "\"", "=", "\\", "@"]) + s[i:]
    return (rng.choice(["", " "]) + s + rng.choice(["", " ", "\t"])).encode("latin-1")


SUB_POOL = ["centrifuge-json", "centrifuge-protobuf", "Centrifuge-JSON", "centrifuge", "chat", "superchat", "",
            "centrifuge-json2", "mqtt"]
SPACES = ["", " ", "  ", "\t", "\n", "\r\n", "\x0b", "\x0c", "\xc2\xa0", "\xe2\x80\x83", "\xe3\x80\x80", "\xc2\x85",
          "\xe2\x80\xa8", "\xe1\x9a\x80", "\xe2\x81\x9f", "\xe2\x80\xaf", "\xe2\x80\x8b", "\xc2", "\xa0", "\xe2\x80"]


def gen_sub_line(rng):
    n = rng.choice([1, 1, 2, 2, 3])
    s = ""
    for i in range(n):
        if i:
            s += ","
        s += rng.choice(SPACES[:8] if rng.random() < 0.7 else SPACES) + rng.choice(SUB_POOL) + \
            rng.choice(SPACES[:8] if rng.random() < 0.7 else SPACES)
    if rng.random() < 0.1:
        s += ","
    if rng.random() < 0.05:
        s = "," + s
    return s.encode("latin-1")


def hname(rng, canonical):
    k = rng.random()
    if k < 0.5:
        return canonical
    if k < 0.65:
        return canonical.lower()
    if k < 0.8:
        return canonical.upper()
    if k < 0.97:
        return odd_case(rng, canonical)
    return canonical + rng.choice([" ", ":", "\xe9"])  # not a valid field name: stored verbatim


def gen_up(rng):
    pm = 1 if rng.random() < 0.8 else rng.choice([2, 2, 2, 0, 3])
    host = rng.choice(["example.com", "example.com:8000", "EXAMPLE.com", "localhost", "127.0.0.1:8000", "[::1]:80", ""])
    headers = []
    mutate = rng.random() < 0.75
    p = (lambda x: rng.random() < x) if mutate else (lambda x: False)
    method = "GET" if pm != 2 else "CONNECT"
    if p(0.1):
        method = rng.choice(["POST", "get", "CONNECT", "GET", "HEAD", "", "GET "])

    def add(name, value):
        headers.append((hname(rng, name) if mutate else name, value if isinstance(value, bytes) else value.encode("latin-1")))
    # Connection
    if pm != 2 or p(0.3):
        if not p(0.07):
            if p(0.25):
                add("Connection", gen_list_line(rng, ["keep-alive", "close", "TE"], 0.1))
            add("Connection", gen_list_line(rng, ["Upgrade", "upgrade", "keep-alive", "Upgrade", "HTTP2-Settings"]) if p(0.6) else "Upgrade")
        if not p(0.07):
            if p(0.15):
                add("Upgrade", gen_list_line(rng, ["h2c", "HTTP/2.0".replace("/", "")], 0.1))
            add("Upgrade", gen_list_line(rng, ["websocket", "WebSocket", "h2c", "websocket", "websockets"]) if p(0.6) else "websocket")
    if pm == 2 and not p(0.15):
        headers.append((":protocol", (rng.choice(["websocket", "websocket", "websocket", "WebSocket", "webtransport", ""])
                                      if mutate else "websocket").encode()))
    if not p(0.07):
        add("Sec-WebSocket-Version", gen_list_line(rng, ["13", "13", "8", "7", "13.0", "013"]) if p(0.5) else "13")
        if p(0.1):
            add("Sec-WebSocket-Version", rng.choice(["13", "8", "12"]))
    if pm != 2 or p(0.3):
        if not p(0.07):
            add("Sec-WebSocket-Key", gen_key(rng) if p(0.55) else base64.b64encode(bytes(rng.randrange(256) for _ in range(16))))
            if p(0.06):
                add("Sec-WebSocket-Key", gen_key(rng))
    # origin
    o = rng.random()
    if o < 0.45:
        pass
    else:
        scheme = rng.choice(["http://", "https://", "HTTP://", "ws://"])
        if o < 0.65:
            val = scheme + odd_case(rng, host)
        elif o < 0.8:
            val = scheme + rng.choice(["evil.com", "example.com.evil.com", "example.co", host + ":1", "xexample.com", host + "."])
        elif o < 0.9:
            val = rng.choice(["null", "", "http://", "//" + host, host, "http://" + host + "/path?q=1", "http://user@" + host,
                              "http://" + host + "#f"])
        else:
            val = rng.choice(["http://[::1", "%zz", ":foo", "http://a b/", "http://exa mple.com", "http://%41/", "\x7f://x",
                              "http://host:port/"])
        add("Origin", val)
        if rng.random() < 0.1:
            add("Origin", "http://" + host)
    # subprotocols
    if rng.random() < 0.6:
        add("Sec-WebSocket-Protocol", gen_sub_line(rng))
        if rng.random() < 0.15:
            add("Sec-WebSocket-Protocol", gen_sub_line(rng))
    if rng.random() < 0.6:
        add("Sec-WebSocket-Extensions", gen_ext_line(rng))
        if rng.random() < 0.25:
            add("Sec-WebSocket-Extensions", gen_ext_line(rng))
    if rng.random() < 0.3:
        add("User-Agent", "verif")
    if mutate and rng.random() < 0.3:
        rng.shuffle(headers)
    sub = rng.choice(["centrifuge", "centrifuge", "centrifuge", "nil", "empty", "other"])
    subs = {"centrifuge": ",".join(hx(s) for s in SERVER_SUBS), "nil": "nil", "empty": "-",
            "other": ",".join(hx(s) for s in [b"chat", b"centrifuge-json"])}[sub]
    comp = 1 if rng.random() < 0.6 else 0
    noh1 = 1 if rng.random() < 0.06 else 0
    co = rng.choice(["nil", "nil", "nil", "nil", "1", "0"])
    hs = " ".join(f"{hx(n)}:{hx(v)}" for n, v in headers)
    return f"up pm={pm} m={hx(method)} host={hx(host)} sub={subs} comp={comp} noh1={noh1} co={co} oh=? H {hs}".rstrip()


WIRE_METHODS = {b"GET", b"POST", b"get", b"HEAD", b"PUT"}


def header_value_safe(v):
    return all(c == 9 or (32 <= c and c != 127) for c in v)


def gen_wire(rng):
    """an upgrade request as raw HTTP/1.1 bytes for the real server: only what net/http itself accepts
    (token field names, field values without control characters, one non-empty Host)"""
    for _ in range(200):
        kv, hs = parse_up(gen_up(rng))
        method, host = unhx(kv["m"]), unhx(kv["host"])
        if kv["pm"] != "1" or method not in WIRE_METHODS or not host:
            continue
        if any(not TOKEN_RE.fullmatch(n) or not header_value_safe(v) or n.lower() == b"host" for n, v in hs):
            continue
        raw = method + b" /connection/websocket HTTP/1.1\r\nHost: " + host + b"\r\n"
        for n, v in hs:
            raw += n + b":" + rng.choice([b" ", b"", b"  ", b"\t"]) + v + rng.choice([b"", b"", b" ", b"\t "]) + b"\r\n"
        raw += b"\r\n"
        trimmed = [(n, v.strip(b" \t")) for n, v in hs]
        hline = " ".join(f"{hx(n)}:{hx(v)}" for n, v in trimmed)
        subs = ",".join(hx(x) for x in SERVER_SUBS)
        return (f"wire pm=1 m={hx(method)} host={hx(host)} sub={subs} comp={kv['comp']} noh1={kv['noh1']} co=samehost oh=? "
                f"raw={raw.hex()} H {hline}").rstrip()
    return None


VALID_RECV = list(range(1000, 1004)) + list(range(1007, 1012))


def gen_code(rng):
    k = rng.random()
    if k < 0.35:
        return rng.choice(VALID_RECV + [1012, 1013, 3000, 3001, 3500, 4000, 4999])
    if k < 0.6:
        return rng.choice([0, 1, 999, 1004, 1005, 1006, 1014, 1015, 1016, 1100, 2000, 2999, 5000, 5001, 65535])
    if k < 0.8:
        return rng.choice([2999, 3000, 4999, 5000, 1003, 1004, 1006, 1007, 1011, 1012, 1013, 1014])
    return rng.randrange(65536)


UTF8_SAMPLES = [b"", b"bye", "па-па".encode(), "\U0001f600".encode(), b"\xff", b"\xc0\xaf", b"\xed\xa0\x80", b"\xf4\x90\x80\x80",
                b"\xe2\x82", b"ok\x80", b"\xef\xbf\xbd", b"\xf0\x9f\x98", b"\xc2", b"a\xc3\xa9b", b"\xe0\x9f\xbf", b"\xe0\xa0\x80",
                b"\xf0\x8f\xbf\xbf", b"\xf0\x90\x80\x80", b"\xf4\x8f\xbf\xbf", b"\xed\x9f\xbf", b"\xee\x80\x80", b"\xc1\xbf",
                b"\xf5\x80\x80\x80", b"\x00", b"\x7f"]


def gen_text(rng, maxlen=123):
    k = rng.random()
    if k < 0.5:
        t = rng.choice(UTF8_SAMPLES)
    elif k < 0.7:
        t = b"".join(rng.choice(UTF8_SAMPLES) for _ in range(rng.randint(2, 6)))
    elif k < 0.85:
        t = bytes(rng.randrange(256) for _ in range(rng.randint(1, 8)))
    else:
        t = b"x" * rng.choice([120, 121, 122, 123])
    return t[:maxlen]


def gen_reason(rng):
    k = rng.random()
    if k < 0.5:
        n = rng.choice([0, 1, 2, 10, 100, 120, 121, 122, 123, 124, 125, 126, 127, 130, 200])
    else:
        n = rng.randint(0, 130)
    base = rng.choice([b"r", "é".encode(), b"\x00", b"shutdown "])
    return (base * (n // len(base) + 1))[:n]


def gen_conn_scenario(rng):
    ops = ["reset"]
    n1 = rng.choice([0, 0, 1, 2])
    for _ in range(n1):
        ops.append(f"send {gen_code(rng) if rng.random() < 0.8 else rng.choice([0, 65536, 66541, 70000, 1005])} {hx(gen_reason(rng))}")
    if rng.random() < 0.8:
        k = rng.random()
        if k < 0.08:
            payload = b""
        elif k < 0.14:
            payload = bytes([rng.randrange(256)])
        else:
            payload = gen_code(rng).to_bytes(2, "big") + gen_text(rng)
        ops.append("recv " + hx(payload))
    for _ in range(rng.choice([0, 1, 1, 2])):
        ops.append(f"send {gen_code(rng)} {hx(gen_reason(rng))}")
    return ops


def gen_tclose(rng, i=None):
    if i is not None:  # systematic reason-length sweep 0…130
        return f"tclose {rng.choice([3001, 3501, 4999, 1000, 3005])} {hx((b'reason-' * 20)[:i])}"
    code = rng.choice([3000, 3001, 3002, 3003, 3004, 3005, 3008, 3012, 3500, 3501, 3502, 3503, 3504, 4000, 4999, 1000, 1005, 0,
                       65535, 65536, 66541, 70000, 4294967295, rng.randrange(65536)])
    return f"tclose {code} {hx(gen_reason(rng))}"


# ------------------------------------------------------------------ oracle (property statement on impl output)
def lower_ascii(b):
    return bytes(c + 32 if 65 <= c <= 90 else c for c in b)


def list_has(lines, value):
    """RFC 7230 #token membership over well-formed lines; None when some line is not a well-formed
    1#token list (then the RFC does not say what the header contains)."""
    found = False
    for l in lines:
        if not LIST_RE.fullmatch(l):
            return None
        if any(lower_ascii(t) == value for t in TOKEN_RE.findall(l)):
            found = True
    return found


def parse_up(op):
    ws = op.split()
    i = ws.index("H") if "H" in ws else len(ws)
    kv = dict(w.split("=", 1) for w in ws[1:i])
    hs = [(unhx(w.split(":")[0]), unhx(w.split(":")[1])) for w in ws[i + 1:]]
    return kv, hs


def field(hs, name):
    """values of the header field `name` (case-insensitive); None if some field name is not a token
    (not a well-formed HTTP request: no expectation)."""
    out = []
    for n, v in hs:
        if n.startswith(b":"):
            continue
        if not TOKEN_RE.fullmatch(n):
            return None
        if n.lower() == name:
            out.append(v)
    return out


def raw_field(hs, name):
    """values of `name` as net/http sees them (case-insensitive for names that are tokens)"""
    return [v for n, v in hs if TOKEN_RE.fullmatch(n) and n.lower() == name]


def accept_key(key):
    return base64.b64encode(hashlib.sha1(key + GUID).digest())


def oracle_up(op, out):
    """None = property holds (or no expectation); else message."""
    kv, hs = parse_up(op)
    if out == "PANIC":
        return "Upgrade panics instead of answering the handshake"
    if out.startswith(("reject ", "h1 ", "h2 ")) is False:
        return "unexpected result: " + out[:80]
    pm = int(kv["pm"])
    method = unhx(kv["m"])
    host = unhx(kv["host"])
    accepted = out.startswith(("h1 ", "h2 "))
    wellformed = field(hs, b"connection") is not None
    conn, upg, ver, keys = raw_field(hs, b"connection"), raw_field(hs, b"upgrade"), raw_field(hs, b"sec-websocket-version"), \
        raw_field(hs, b"sec-websocket-key")
    origin = raw_field(hs, b"origin")
    protos = raw_field(hs, b"sec-websocket-protocol")
    exts = raw_field(hs, b"sec-websocket-extensions")
    if "+no-version-header" in out:
        return "error response lacks Sec-WebSocket-Version: 13"
    # origin check
    if wellformed:
        if kv["co"] in ("nil", "samehost"):
            # nil: websocket.checkSameOrigin (no Origin header passes); samehost: centrifuge's checkSameHost
            # (an empty first Origin value passes as well)
            if not origin or (kv["co"] == "samehost" and origin[0] == b""):
                origin_ok = True
            elif kv["oh"] == "err":
                origin_ok = False
            else:
                origin_ok = lower_ascii(unhx(kv["oh"])) == lower_ascii(host)
        else:
            origin_ok = kv["co"] == "1"
    expected = None
    if wellformed:
        if pm == 1:
            c, u, v = list_has(conn, b"upgrade"), list_has(upg, b"websocket"), list_has(ver, b"13")
            keyok = bool(keys) and bool(KEY_RE.fullmatch(keys[0]))
            parts = [c, u, v]
            if kv["noh1"] == "1":
                expected = False
            elif method != b"GET" or not keyok or not origin_ok or any(x is False for x in parts):
                expected = False
            elif all(x is True for x in parts):
                expected = True
        elif pm == 2:
            prot = [v for n, v in hs if n == b":protocol"]
            v = list_has(ver, b"13")
            if not prot or prot[0] != b"websocket" or method != b"CONNECT" or v is False or not origin_ok:
                expected = False
            elif v is True:
                expected = True
        else:
            expected = False
    if expected is True and not accepted:
        return "valid WebSocket upgrade rejected: " + out[:60]
    if expected is False and accepted:
        return "invalid WebSocket upgrade (or failed origin check) accepted"
    if not accepted:
        return None
    # what was negotiated
    if out.startswith("h1 "):
        resp = unhx(out.split()[1])
        if not resp.endswith(b"\r\n\r\n") or resp.count(b"\r\n\r\n") != 1:
            return "101 response is not a single header block"
        lines = resp[:-4].split(b"\r\n")
        if lines[0] != b"HTTP/1.1 101 Switching Protocols":
            return "bad status line"
        rh = {}
        for l in lines[1:]:
            n, _, v = l.partition(b": ")
            if n.lower() in rh:
                return "duplicate response header " + n.decode("latin-1")
            rh[n.lower()] = v
        if rh.get(b"upgrade", b"").lower() != b"websocket" or rh.get(b"connection", b"").lower() != b"upgrade":
            return "101 response lacks Upgrade/Connection"
        key = keys[0] if keys else b""
        if rh.get(b"sec-websocket-accept") != accept_key(key):
            return "Sec-WebSocket-Accept is not base64(sha1(key+GUID))"
        sub = rh.get(b"sec-websocket-protocol")
        ext = rh.get(b"sec-websocket-extensions")
        if set(rh) - {b"upgrade", b"connection", b"sec-websocket-accept", b"sec-websocket-protocol", b"sec-websocket-extensions"}:
            return "unexpected response header"
    else:
        okv = dict(w.split("=", 1) for w in out.split()[1:])
        sub = unhx(okv["sub"]) or None
        ext = EXT_RESP if okv["ext"] == "1" else (None if okv["ext"] == "0" else b"?")
    if sub is not None:
        # the element must have been offered by the client (modulo surrounding white space)
        if not any(sub == strip_ws(e) for l in (protos or []) for e in l.split(b",")):
            return "selected subprotocol was not offered by the client"
        server = None if kv["sub"] == "nil" else [unhx(x) for x in kv["sub"].split(",")]
        if server is None or sub not in server:
            return "selected subprotocol is not one of the server's"
        if sub == b"":
            return "empty subprotocol header"
    if ext is not None:
        if ext != EXT_RESP:
            return "unexpected extension response"
        if kv["comp"] != "1":
            return "compression negotiated although disabled"
        if not any(re.search(rb"(^|,)[ \t]*permessage-deflate[ \t]*($|[;,])", l) for l in (exts or [])):
            return "permessage-deflate negotiated although the client did not offer it"
    return None


WS_SEQS = [b" ", b"\t", b"\n", b"\x0b", b"\x0c", b"\r", b"\xc2\x85", b"\xc2\xa0", b"\xe1\x9a\x80", b"\xe2\x80\xa8",
           b"\xe2\x80\xa9", b"\xe2\x80\xaf", b"\xe2\x81\x9f", b"\xe3\x80\x80"] + [bytes([0xe2, 0x80, x]) for x in range(0x80, 0x8b)]


def strip_ws(b):
    """white space (Unicode White_Space in UTF-8) stripped at both ends"""
    changed = True
    while changed:
        changed = False
        for w in WS_SEQS:
            if b.startswith(w):
                b, changed = b[len(w):], True
            if b.endswith(w):
                b, changed = b[:-len(w)], True
    return b


def rfc_close_code_ok(code):
    """RFC 6455 §7.4 codes that may appear in a received close frame (+ IANA 1012–1014)."""
    return 1000 <= code <= 1003 or 1007 <= code <= 1014 or 3000 <= code <= 4999


def rfc_close_code_must(code):
    return 1000 <= code <= 1003 or 1007 <= code <= 1011 or 3000 <= code <= 4999


def is_utf8(b):
    try:
        b.decode("utf-8")
        return True
    except UnicodeDecodeError:
        return False


class ConnOracle:
    """first-close-wins bookkeeping + close frame expectations for the conn ops"""

    def __init__(self):
        self.first = None   # first close frame observed (sent, attempted to be sent, or received)
        self.sent = False

    def note(self, code, incoming):
        if 0 < code <= 0xFFFF and self.first is None:
            self.first = (code, incoming)

    def cc(self):
        return "cc=%d,%d" % (self.first if self.first else (0, 0))

    def check(self, op, out):
        ws = op.split()
        if ws[0] == "reset":
            self.__init__()
            return None
        got_cc = out.split()[-1]
        if ws[0] == "send":
            code, reason = int(ws[1]), unhx(ws[2])
            fits = code <= 0xFFFF and 2 + len(reason) <= 125
            if fits and code != 1005 and not self.sent:
                frame = bytes([0x88, 2 + len(reason)]) + code.to_bytes(2, "big") + reason
                if not out.startswith("wrote " + frame.hex() + " "):
                    return "close frame with code and reason fits in a control frame but was not written as such"
            if out.startswith("wrote "):
                self.sent = True
            if not out.startswith("tooLong"):
                # a close frame the server sends — or tries to send after one went out already — counts as observed
                self.note(1005 if code == 1005 else code % 65536, 0)
            if got_cc != self.cc():
                return f"recorded close code {got_cc} is not the first close frame observed ({self.cc()})"
            return None
        if ws[0] == "recv":
            p = unhx(ws[1])
            if len(p) == 1 and not out.startswith("protoErr"):
                return "received close frame with a one-byte body (no complete status code, RFC 6455 §5.5.1) was not rejected"
            if len(p) == 0 and not out.startswith("close 1005 - "):
                return "received close frame without body was not accepted as 'no status'"
            if len(p) >= 2:
                code = int.from_bytes(p[:2], "big")
                bad = not rfc_close_code_ok(code) or not is_utf8(p[2:])
                if bad and not out.startswith("protoErr"):
                    return "received close frame with a forbidden code or invalid UTF-8 reason was not rejected"
                if rfc_close_code_must(code) and is_utf8(p[2:]) and not out.startswith(f"close {code} {hx(p[2:])} "):
                    return "well-formed received close frame was not accepted with its code and reason"
            w = dict(x.split("=", 1) for x in out.split() if "=" in x).get("w", "none")
            if out.startswith("close "):
                self.note(int(out.split()[1]), 1)
            if out.startswith("protoErr"):
                self.note(1002, 0)
            if w != "none":
                fr = unhx(w)
                if fr[0] != 0x88 or fr[1] != len(fr) - 2 or len(fr) - 2 > 125:
                    return "malformed close frame written in response"
                if out.startswith("protoErr") and fr[2:4] != (1002).to_bytes(2, "big"):
                    return "protocol error not answered with close code 1002"
                self.sent = True
            if got_cc != self.cc():
                return f"recorded close code {got_cc} is not the first close frame observed ({self.cc()})"
            return None
        return None


def oracle_simple(op, out):
    ws = op.split()
    if ws[0] == "key":
        k = unhx(ws[1])
        if out == "PANIC":
            return "isValidChallengeKey panics (Upgrade would panic instead of answering 400)"
        want = bool(KEY_RE.fullmatch(k))
        if (out == "valid") != want:
            return f"Sec-WebSocket-Key validity {out} but RFC says {'valid' if want else 'invalid'}"
    elif ws[0] == "accept":
        if out != hx(accept_key(unhx(ws[1]))):
            return "accept key is not base64(sha1(key + GUID))"
    elif ws[0] == "tok":
        lines = [unhx(x) for x in ws[2:]]
        want = list_has(lines, lower_ascii(unhx(ws[1])))
        if want is not None and out != ("1" if want else "0"):
            return "token list membership differs from RFC 7230 list semantics on a well-formed header"
    elif ws[0] == "utf8":
        if out != ("1" if is_utf8(unhx(ws[1])) else "0"):
            return "UTF-8 validity differs from RFC 3629"
    elif ws[0] == "codes":
        acc = set()
        for r in out.split(","):
            if r:
                a, b = r.split("-")
                acc.update(range(int(a), int(b) + 1))
        for c in range(65536):
            if c in acc and not rfc_close_code_ok(c):
                return f"close code {c} forbidden by RFC 6455 §7.4 is accepted"
            if c not in acc and rfc_close_code_must(c):
                return f"close code {c} defined by RFC 6455 is rejected"
    elif ws[0] == "tclose":
        code, reason = int(ws[1]), unhx(ws[2])
        if out.startswith("HARNESS-ERROR"):
            return None
        if code != 3000 and code != 1005 and code <= 0xFFFF and 2 + len(reason) <= 125:
            frame = bytes([0x88, 2 + len(reason)]) + code.to_bytes(2, "big") + reason
            if out != f"frames={frame.hex()} cc={code},0":
                return "disconnect code and reason fit in a control frame but no such close frame was sent"
        if code == 3000 and not out.startswith("frames=- "):
            return "close frame sent for DisconnectConnectionClosed"
    return None


# ------------------------------------------------------------------ signatures / classification
def key_class(k):
    """`len24-over-16-bytes`: 24 characters of which at least 23 are base64 alphabet characters before
    any padding, i.e. a value that decodes to 17 or 18 bytes"""
    m = re.match(rb"[A-Za-z0-9+/]*", k).end()
    if len(k) == 24 and m >= 23 and k[m:] in (b"", b"="):
        return "len24-over-16-bytes"
    return "other"


def signature(op, msg):
    ws = op.split()
    sig = {"op": ws[0], "oracle": msg[:60]}
    if "panics" in msg:
        sig = {"panic": True}
        if ws[0] == "key":
            sig["key_class"] = key_class(unhx(ws[1]))
        elif ws[0] in ("up", "wire"):
            kv, hs = parse_up(op)
            keys = [v for n, v in hs if n.lower() == b"sec-websocket-key"] or [b""]
            sig["key_class"] = key_class(keys[0])
    return sig


# ------------------------------------------------------------------ run
def route(op):
    return "root" if op.split()[0] in ("tclose", "wire") else "ws"


def run_impl(ctx, bins, ops):
    """run each op on the binary of its package, keep the original order"""
    idx = {"ws": [], "root": []}
    for i, op in enumerate(ops):
        idx[route(op)].append(i)
    impl = ["<missing>"] * len(ops)
    for which, ii in idx.items():
        if not ii:
            continue
        outs = ctx.go_run(bins[which], "TestVerifC31", [ops[i] for i in ii])
        for j, i in enumerate(ii):
            if j < len(outs):
                impl[i] = outs[j]
    return impl


def patch_oh(ops, impl):
    """`url.Parse(Origin)` is the standard library's: its result (reported by the harness) is an
    input of the model; strip the report from the implementation's line."""
    pops, pimpl = [], []
    for op, out in zip(ops, impl):
        if op.startswith(("up ", "wire ")) and " #oh=" in out:
            out, oh = out.rsplit(" #oh=", 1)
            op = re.sub(r" oh=\S+", " oh=" + ("-" if oh == "none" else oh), op, count=1)
        pops.append(op)
        pimpl.append(out)
    return pops, pimpl


def wire_norm_impl(out):
    """`status=101 vh=1 head=…` → comparable form (the version header is judged by the oracle)"""
    if not out.startswith("status="):
        return out
    kv = dict(w.split("=", 1) for w in out.split())
    return f"status=101 head={kv['head']}" if kv["status"] == "101" else f"status={kv['status']}"


def wire_from_model(line):
    if line.startswith("reject "):
        return "status=" + line.split()[1]
    if line.startswith("h1 "):
        return "status=101 head=" + line.split()[1]
    if line == "PANIC":
        return "noresponse"
    return line


def wire_as_up_output(out):
    """the real server's answer in the vocabulary of the `up` oracle"""
    if out == "noresponse":
        return "PANIC"
    kv = dict(w.split("=", 1) for w in out.split())
    if kv["status"] == "101":
        return "h1 " + kv["head"]
    return f"reject {kv['status']} wire" + ("" if kv.get("vh") == "1" else "+no-version-header")


def gen_ops(ctx):
    rng = ctx.rng
    ops = ["codes"]
    n = ctx.scale(1, 12)
    for _ in range(1500 * n):
        ops.append(gen_up(rng))
    for _ in range(400 * n):
        ops.append("key " + hx(gen_key(rng)))
    for _ in range(150 * n):
        ops.append("accept " + hx(gen_key(rng) if rng.random() < 0.7 else bytes(rng.randrange(256) for _ in range(rng.randint(0, 80)))))
    for _ in range(500 * n):
        v = rng.choice(["upgrade", "websocket", "13"])
        pool = {"upgrade": ["Upgrade", "keep-alive", "upgrade", "close"], "websocket": ["websocket", "WebSocket", "h2c"],
                "13": ["13", "8", "7", "130", "1"]}[v]
        lines = [gen_list_line(rng, pool, 0.35) for _ in range(rng.choice([0, 1, 1, 1, 2, 3]))]
        ops.append("tok " + hx(v) + "".join(" " + hx(l) for l in lines))
    for _ in range(300 * n):
        ops.append("ext" + "".join(" " + hx(gen_ext_line(rng)) for _ in range(rng.choice([0, 1, 1, 2]))))
    for _ in range(150 * n):
        s = rng.choice(SPACES) + rng.choice(SPACES) + rng.choice(["x", "a b", "", "\xa0", "é"]) + rng.choice(SPACES) + rng.choice(SPACES)
        ops.append("trim " + hx(s))
    for _ in range(200 * n):
        ops.append("utf8 " + hx(gen_text(rng)))
    for _ in range(300 * n):
        ops.extend(gen_conn_scenario(rng))
    for _ in range(250 * n):
        w = gen_wire(rng)
        if w:
            ops.append(w)
    for i in range(0, 131):
        ops.append(gen_tclose(rng, i))
    for _ in range(60 * n):
        ops.append(gen_tclose(rng))
    return ops


def load_corpus():
    p = os.path.join(HERE, "corpus.ops")
    if not os.path.exists(p):
        return []
    return [l.strip() for l in open(p) if l.strip() and not l.startswith("#")]


def check_ops(ctx, bins, ops, label=""):
    impl0 = run_impl(ctx, bins, ops)
    ops, impl = patch_oh(ops, impl0)
    path = getattr(ctx, "_c31_driver", None)
    if path is None:  # built once per run (lake is serialised between all checks by a lock)
        path = ctx.lean_driver_build()
        ctx._c31_driver = path or False
    model = ctx.run_lines([path], [("up" + o[4:]) if o.startswith("wire ") else o for o in ops]) if path else None
    model_ok = model is not None
    model = model or []
    model = [wire_from_model(m) if o.startswith("wire ") else m for o, m in zip(ops, model)] + model[len(ops):]
    co = ConnOracle()
    nviol = 0
    for i, op in enumerate(ops):
        out = impl[i]
        kind = op.split()[0]
        ctx.count("op:" + kind)
        if kind in ("key", "recv", "send", "tok", "utf8", "up", "wire"):
            ctx.count("impl:" + kind + ":" + out.split()[0][:24] + ((":" + out.split()[2]) if out.startswith("reject ") else ""))
        elif kind == "tclose":
            ctx.count("impl:tclose:" + ("no-frame" if out.startswith("frames=- ") else "frame" if out.startswith("frames=") else "other"))
        ctx.record(op, nontrivial=kind not in ("reset",))
        if out.startswith("HARNESS-ERROR") or out == "<missing>":
            ctx.count("harness-error")
            ctx.notes.append(f"harness error on `{op[:80]}`: {out[:200]}")
            continue
        if kind in ("reset", "send", "recv"):
            msg = co.check(op, out)
        elif kind == "up":
            msg = oracle_up(op, out)
        elif kind == "wire":
            msg = oracle_up(op, wire_as_up_output(out))
        else:
            msg = oracle_simple(op, out)
        if msg:
            nviol += 1
            replay_ops = [op]
            if kind in ("send", "recv"):  # whole scenario since the last reset
                j = i
                while j > 0 and not ops[j].startswith("reset"):
                    j -= 1
                replay_ops = ops[j:i + 1]
            ctx.violation("property", msg, signature=signature(op, msg),
                          replay={"ops": replay_ops, "impl": impl[i - len(replay_ops) + 1:i + 1]})
    # a harness that cannot drive the code at all is a broken tie, not flakiness
    for kind in ("tclose", "wire"):
        idx = [i for i, o in enumerate(ops) if o.split()[0] == kind]
        bad = [i for i in idx if impl[i].startswith("HARNESS-ERROR") or impl[i] == "<missing>"]
        if len(idx) >= 4 and 2 * len(bad) > len(idx):
            ctx.violation("correspondence", f"harness cannot drive `{kind}` any more: {impl[bad[0]][:160]}",
                          signature={"kind": "harness-dead", "op": kind}, replay={"ops": [ops[bad[0]]], "impl": [impl[bad[0]]]},
                          no_input=(nviol == 0))
    ndiff = 0
    if model_ok:
        cmp_impl = [wire_norm_impl(a) if o.startswith("wire ") else a for o, a in zip(ops, impl)]
        for i, op, a, b in diff_lines(ops, cmp_impl, model):
            if a.startswith("HARNESS-ERROR") or a == "<missing>":
                continue
            ndiff += 1
            if ndiff <= 5:
                ctx.violation("correspondence", f"model and implementation differ on `{op[:60]}`: impl `{a[:80]}` model `{b[:80]}`",
                              signature={"kind": "diff", "op": op.split()[0], "impl": a.split()[0], "model": b.split()[0]},
                              replay={"ops": [op] if op.split()[0] not in ("send", "recv") else ops[max(0, i - 6):i + 1],
                                      "impl": [a], "model": [b]},
                              no_input=(nviol == 0))
    ctx.extra["disagreements" + label] = ndiff
    return len(ops), model_ok


def run(ctx):
    ctx.rule = ("generated upgrade requests (HTTP/1.1 and h2 branch; header token lists with odd spacing/case, repeated and "
                "malformed headers, good/bad/odd Sec-WebSocket-Key values, origins same/cross/malformed, offered "
                "subprotocol and extension lists, Upgrader configs), direct calls of the util.go parsers, close-frame "
                "scenarios on a server Conn (send*/recv/send*), reason-length sweep 0…130 through "
                "websocketTransport.Close; non-trivial = every op except `reset`; distinct = distinct op line")
    ctx.assumptions = [
        "url.Parse (standard library) is trusted; its result for the Origin value is fed to the model",
        "Upgrade is called with responseHeader=nil (as handler_websocket.go does), ResponseWriter is a Hijacker, no early client data",
        "hosts are valid UTF-8 (Go's equalASCIIFold is rune-wise, the model bytewise)",
        "base64.StdEncoding.Decode fast paths behave like successive quanta (sampled differentially)",
        "network write errors / write-lock time-outs of WriteControl are outside the model",
    ]
    t0 = time.time()
    proofs_ok = ctx.lean_obligations()
    ctx.log(f"lean obligations done ({time.time() - t0:.1f}s incl. waiting for the shared lake lock)")
    bins = {
        "ws": ctx.go_test_binary("internal/websocket", ["props/C31/harness/internal__websocket/zz_verif_c31_test.go"]),
        "root": ctx.go_test_binary(".", ["props/C31/harness/root/zz_verif_c31_test.go"]),
    }
    for k, b in bins.items():
        if b is None:
            ctx.violation("correspondence", f"harness no longer builds ({k})", signature={"kind": "harness-build", "pkg": k},
                          replay={"log": getattr(ctx, "build_error", "")}, no_input=True)
            return
    if ctx.replay:
        ops = json.load(open(ctx.replay)).get("ops", [])
        n, model_ok = check_ops(ctx, bins, ops)
    else:
        # known findings are re-derived from their stored replay on every run
        fj = os.path.join(HERE, "findings.json")
        if os.path.exists(fj):
            for f in json.load(open(fj)).get("findings", []):
                check_ops(ctx, bins, f["replay"]["ops"], label="_finding_" + f["id"])
        ops = load_corpus() + gen_ops(ctx)
        n, model_ok = check_ops(ctx, bins, ops)
    ctx.traces_validated = n
    if not model_ok:
        proofs_ok = False
    if not proofs_ok:
        ctx.proof_broken()
