//go:build verif

package centrifuge

// Verification harness for C31, package centrifuge part: `websocketTransport.Close`.
// `tclose <code> <reasonhex>`: a real HTTP server upgrades a raw TCP client, builds the
// websocketTransport exactly like WebsocketHandler does, calls Close(Disconnect{code, reason})
// and the client reports every byte it received after the handshake until the server closed
// the TCP connection.  Output: `frames=<hex|-> cc=<code>,<incoming>`.
// (One close frame at most is expected, so `frames` is the raw byte string.)

import (
	"bufio"
	"bytes"
	"encoding/hex"
	"fmt"
	"io"
	"net"
	"net/http"
	"net/http/httptest"
	"os"
	"strconv"
	"strings"
	"testing"
	"time"

	"github.com/centrifugal/centrifuge/internal/websocket"
)

type verifC31Result struct {
	code     int
	incoming bool
	err      string
}

func TestVerifC31(t *testing.T) {
	in, err := os.Open(os.Getenv("VERIF_OPS"))
	if err != nil {
		t.Skip("no VERIF_OPS")
	}
	defer in.Close()
	out, err := os.Create(os.Getenv("VERIF_OUT"))
	if err != nil {
		t.Fatal(err)
	}
	defer out.Close()
	w := bufio.NewWriter(out)
	defer w.Flush()

	var cur Disconnect
	results := make(chan verifC31Result, 1)
	upgrader := &websocket.Upgrader{Subprotocols: []string{"centrifuge-json", "centrifuge-protobuf"}}
	srv := httptest.NewServer(http.HandlerFunc(func(rw http.ResponseWriter, r *http.Request) {
		conn, _, err := upgrader.Upgrade(rw, r, nil)
		if err != nil {
			results <- verifC31Result{err: "upgrade: " + err.Error()}
			return
		}
		graceCh := make(chan struct{})
		close(graceCh) // closing handshake already "completed": Close must not wait
		tr := newWebsocketTransport(conn, websocketTransportOptions{
			protoType: ProtocolTypeJSON, writeTimeout: time.Second, protoMajor: 1,
		}, graceCh, false)
		_ = tr.Close(cur)
		code, inc := conn.CloseCode()
		results <- verifC31Result{code: code, incoming: inc}
	}))
	defer srv.Close()
	addr := strings.TrimPrefix(srv.URL, "http://")

	step := func(line string) string {
		ws := strings.Fields(line)
		if len(ws) != 3 || ws[0] != "tclose" {
			return "bad-op"
		}
		code, err := strconv.ParseUint(ws[1], 10, 32)
		if err != nil {
			return "bad-op"
		}
		var reason []byte
		if ws[2] != "-" {
			reason, err = hex.DecodeString(ws[2])
			if err != nil {
				return "bad-op"
			}
		}
		cur = Disconnect{Code: uint32(code), Reason: string(reason)}
		c, err := net.DialTimeout("tcp", addr, 10*time.Second)
		if err != nil {
			return "HARNESS-ERROR dial " + err.Error()
		}
		defer c.Close()
		_ = c.SetDeadline(time.Now().Add(30 * time.Second))
		req := "GET / HTTP/1.1\r\nHost: " + addr + "\r\nConnection: Upgrade\r\nUpgrade: websocket\r\n" +
			"Sec-WebSocket-Version: 13\r\nSec-WebSocket-Key: dGhlIHNhbXBsZSBub25jZQ==\r\n\r\n"
		if _, err := c.Write([]byte(req)); err != nil {
			return "HARNESS-ERROR write " + err.Error()
		}
		all, err := io.ReadAll(c)
		if err != nil {
			return "HARNESS-ERROR read " + err.Error()
		}
		i := bytes.Index(all, []byte("\r\n\r\n"))
		if i < 0 || !bytes.HasPrefix(all, []byte("HTTP/1.1 101 ")) {
			return "HARNESS-ERROR handshake " + strconv.Quote(string(all))
		}
		rest := all[i+4:]
		var res verifC31Result
		select {
		case res = <-results:
		case <-time.After(30 * time.Second):
			return "HARNESS-ERROR no result"
		}
		if res.err != "" {
			return "HARNESS-ERROR " + res.err
		}
		fr := "-"
		if len(rest) > 0 {
			fr = hex.EncodeToString(rest)
		}
		inc := 0
		if res.incoming {
			inc = 1
		}
		return fmt.Sprintf("frames=%s cc=%d,%d", fr, res.code, inc)
	}

	sc := bufio.NewScanner(in)
	sc.Buffer(make([]byte, 1<<20), 1<<26)
	for sc.Scan() {
		line := sc.Text()
		if line == "" || strings.HasPrefix(line, "#") {
			fmt.Fprintln(w, "#")
			continue
		}
		fmt.Fprintln(w, step(line))
	}
}
