//go:build verif

package centrifuge

// Verification harness for C31, package centrifuge part: `websocketTransport.Close` and the opening
// handshake through the real WebsocketHandler on a real HTTP server.
// `wire comp=0|1 noh1=0|1 raw=<hex> …`: the raw request bytes are written to a TCP connection of an
// httptest server running NewWebsocketHandler(node, WebsocketConfig{Compression, DisableHTTP1Upgrade})
// (default origin check); output `status=<code> vh=<0|1> [head=<hex of the 101 response head>]` or
// `noresponse` (connection closed without a response: net/http recovered a panic), followed by
// ` #oh=<none|err|hex>` = url.Parse of the first Origin value as the standard library sees it.
// `tclose <code> <reasonhex>`: a real HTTP server upgrades a raw TCP client, builds the
// websocketTransport exactly like WebsocketHandler does, calls Close(Disconnect{code, reason})
// and the client reports every byte it received after the handshake until the server closed
// the TCP connection.  Output: `frames=<hex|-> cc=<code>,<incoming>`.
// (One close frame at most is expected, so `frames` is the raw byte string.)

import (
	"bufio"
	"bytes"
	"context"
	"encoding/hex"
	"fmt"
	"io"
	"log"
	"net"
	"net/http"
	"net/http/httptest"
	"net/url"
	"os"
	"strconv"
	"strings"
	"testing"
	"time"

	"github.com/centrifugal/centrifuge/internal/websocket"
)

type verifC31Result struct {
	code     int
	incoming bool
	err      string
}

func TestVerifC31(t *testing.T) {
	in, err := os.Open(os.Getenv("VERIF_OPS"))
	if err != nil {
		t.Skip("no VERIF_OPS")
	}
	defer in.Close()
	out, err := os.Create(os.Getenv("VERIF_OUT"))
	if err != nil {
		t.Fatal(err)
	}
	defer out.Close()
	w := bufio.NewWriter(out)
	defer w.Flush()

	var cur Disconnect
	results := make(chan verifC31Result, 1)
	upgrader := &websocket.Upgrader{Subprotocols: []string{"centrifuge-json", "centrifuge-protobuf"}}
	srv := httptest.NewServer(http.HandlerFunc(func(rw http.ResponseWriter, r *http.Request) {
		conn, _, err := upgrader.Upgrade(rw, r, nil)
		if err != nil {
			results <- verifC31Result{err: "upgrade: " + err.Error()}
			return
		}
		graceCh := make(chan struct{})
		close(graceCh) // closing handshake already "completed": Close must not wait
		tr := newWebsocketTransport(conn, websocketTransportOptions{
			protoType: ProtocolTypeJSON, writeTimeout: time.Second, protoMajor: 1,
		}, graceCh, false)
		_ = tr.Close(cur)
		code, inc := conn.CloseCode()
		results <- verifC31Result{code: code, incoming: inc}
	}))
	defer srv.Close()
	addr := strings.TrimPrefix(srv.URL, "http://")

	node, err := New(Config{LogLevel: LogLevelNone})
	if err != nil {
		t.Fatal(err)
	}
	if err := node.Run(); err != nil {
		t.Fatal(err)
	}
	defer func() { _ = node.Shutdown(context.Background()) }()
	wireServers := map[string]*httptest.Server{}
	defer func() {
		for _, s := range wireServers {
			s.Close()
		}
	}()
	wire := func(ws []string) string {
		kv := map[string]string{}
		for _, w := range ws {
			if i := strings.IndexByte(w, '='); i > 0 {
				kv[w[:i]] = w[i+1:]
			}
		}
		raw, err := hex.DecodeString(kv["raw"])
		if err != nil || len(raw) == 0 {
			return "bad-op"
		}
		key := kv["comp"] + "/" + kv["noh1"]
		srv := wireServers[key]
		if srv == nil {
			srv = httptest.NewUnstartedServer(NewWebsocketHandler(node, WebsocketConfig{
				Compression: kv["comp"] == "1", DisableHTTP1Upgrade: kv["noh1"] == "1"}))
			srv.Config.ErrorLog = log.New(io.Discard, "", 0)
			srv.Start()
			wireServers[key] = srv
		}
		ohs := "none"
		if pr, err := http.ReadRequest(bufio.NewReader(bytes.NewReader(raw))); err != nil {
			return "HARNESS-ERROR generated request does not parse: " + err.Error()
		} else if o := pr.Header["Origin"]; len(o) > 0 {
			if pu, err := url.Parse(o[0]); err != nil {
				ohs = "err"
			} else if pu.Host == "" {
				ohs = "-"
			} else {
				ohs = hex.EncodeToString([]byte(pu.Host))
			}
		}
		tail := " #oh=" + ohs
		c, err := net.DialTimeout("tcp", strings.TrimPrefix(srv.URL, "http://"), 10*time.Second)
		if err != nil {
			return "HARNESS-ERROR dial " + err.Error()
		}
		defer c.Close()
		_ = c.SetDeadline(time.Now().Add(30 * time.Second))
		if _, err := c.Write(raw); err != nil {
			return "HARNESS-ERROR write " + err.Error()
		}
		var got []byte
		buf := make([]byte, 4096)
		for !bytes.Contains(got, []byte("\r\n\r\n")) {
			n, err := c.Read(buf)
			got = append(got, buf[:n]...)
			if err != nil {
				break
			}
		}
		i := bytes.Index(got, []byte("\r\n\r\n"))
		if i < 0 {
			if len(got) == 0 {
				return "noresponse" + tail
			}
			return "HARNESS-ERROR partial response " + strconv.Quote(string(got)) + tail
		}
		head := got[:i+4]
		lines := strings.Split(string(head), "\r\n")
		parts := strings.SplitN(lines[0], " ", 3)
		if len(parts) < 2 {
			return "HARNESS-ERROR status line " + strconv.Quote(lines[0]) + tail
		}
		vh := 0
		for _, l := range lines[1:] {
			if strings.EqualFold(l, "Sec-Websocket-Version: 13") {
				vh = 1
			}
		}
		if parts[1] == "101" {
			return fmt.Sprintf("status=101 vh=%d head=%s%s", vh, hex.EncodeToString(head), tail)
		}
		return fmt.Sprintf("status=%s vh=%d%s", parts[1], vh, tail)
	}

	step := func(line string) string {
		ws := strings.Fields(line)
		if len(ws) > 1 && ws[0] == "wire" {
			return wire(ws[1:])
		}
		if len(ws) != 3 || ws[0] != "tclose" {
			return "bad-op"
		}
		code, err := strconv.ParseUint(ws[1], 10, 32)
		if err != nil {
			return "bad-op"
		}
		var reason []byte
		if ws[2] != "-" {
			reason, err = hex.DecodeString(ws[2])
			if err != nil {
				return "bad-op"
			}
		}
		cur = Disconnect{Code: uint32(code), Reason: string(reason)}
		c, err := net.DialTimeout("tcp", addr, 10*time.Second)
		if err != nil {
			return "HARNESS-ERROR dial " + err.Error()
		}
		defer c.Close()
		_ = c.SetDeadline(time.Now().Add(30 * time.Second))
		req := "GET / HTTP/1.1\r\nHost: " + addr + "\r\nConnection: Upgrade\r\nUpgrade: websocket\r\n" +
			"Sec-WebSocket-Version: 13\r\nSec-WebSocket-Key: dGhlIHNhbXBsZSBub25jZQ==\r\n\r\n"
		if _, err := c.Write([]byte(req)); err != nil {
			return "HARNESS-ERROR write " + err.Error()
		}
		// response head first: a failed upgrade keeps the connection open, do not wait for EOF then
		var all []byte
		buf := make([]byte, 4096)
		for !bytes.Contains(all, []byte("\r\n\r\n")) {
			n, err := c.Read(buf)
			all = append(all, buf[:n]...)
			if err != nil {
				break
			}
		}
		i := bytes.Index(all, []byte("\r\n\r\n"))
		if i < 0 || !bytes.HasPrefix(all, []byte("HTTP/1.1 101 ")) {
			select {
			case <-results:
			case <-time.After(5 * time.Second):
			}
			return "HARNESS-ERROR handshake " + strconv.Quote(string(all))
		}
		more, err := io.ReadAll(c)
		if err != nil {
			return "HARNESS-ERROR read " + err.Error()
		}
		all = append(all, more...)
		rest := all[i+4:]
		var res verifC31Result
		select {
		case res = <-results:
		case <-time.After(30 * time.Second):
			return "HARNESS-ERROR no result"
		}
		if res.err != "" {
			return "HARNESS-ERROR " + res.err
		}
		fr := "-"
		if len(rest) > 0 {
			fr = hex.EncodeToString(rest)
		}
		inc := 0
		if res.incoming {
			inc = 1
		}
		return fmt.Sprintf("frames=%s cc=%d,%d", fr, res.code, inc)
	}

	sc := bufio.NewScanner(in)
	sc.Buffer(make([]byte, 1<<20), 1<<26)
	for sc.Scan() {
		line := sc.Text()
		if line == "" || strings.HasPrefix(line, "#") {
			fmt.Fprintln(w, "#")
			continue
		}
		fmt.Fprintln(w, step(line))
	}
}
