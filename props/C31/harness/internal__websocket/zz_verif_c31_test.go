//go:build verif

package websocket

// Verification harness for C31 (injected with `go test -overlay`, never part of the repo).
// One op per line from $VERIF_OPS, one canonical line per op to $VERIF_OUT; see
// /verif/lean/Drivers/C31.lean for the line protocol.  All strings are hex ("-" = empty).

import (
	"bufio"
	"bytes"
	"encoding/hex"
	"errors"
	"fmt"
	"io"
	"net"
	"net/http"
	"net/url"
	"os"
	"sort"
	"strconv"
	"strings"
	"testing"
	"time"
	"unicode/utf8"
)

func verifC31Unhex(s string) ([]byte, bool) {
	if s == "-" {
		return []byte{}, true
	}
	b, err := hex.DecodeString(s)
	return b, err == nil
}

func verifC31Hex(b []byte) string {
	if len(b) == 0 {
		return "-"
	}
	return hex.EncodeToString(b)
}

type verifC31Addr struct{}

func (verifC31Addr) Network() string { return "verif" }
func (verifC31Addr) String() string  { return "verif" }

// verifC31Conn is an in-memory net.Conn: reads come from rd, writes are collected in wr.
type verifC31Conn struct {
	rd *bytes.Buffer
	wr *bytes.Buffer
}

func (c *verifC31Conn) Read(p []byte) (int, error) {
	if c.rd.Len() == 0 {
		return 0, io.EOF
	}
	return c.rd.Read(p)
}
func (c *verifC31Conn) Write(p []byte) (int, error)      { return c.wr.Write(p) }
func (c *verifC31Conn) Close() error                     { return nil }
func (c *verifC31Conn) LocalAddr() net.Addr              { return verifC31Addr{} }
func (c *verifC31Conn) RemoteAddr() net.Addr             { return verifC31Addr{} }
func (c *verifC31Conn) SetDeadline(time.Time) error      { return nil }
func (c *verifC31Conn) SetReadDeadline(time.Time) error  { return nil }
func (c *verifC31Conn) SetWriteDeadline(time.Time) error { return nil }

// verifC31RW is a ResponseWriter that can be hijacked (HTTP/1.1) and flushed (HTTP/2 branch).
type verifC31RW struct {
	hdr    http.Header
	status int
	body   bytes.Buffer
	conn   *verifC31Conn
}

func (w *verifC31RW) Header() http.Header { return w.hdr }
func (w *verifC31RW) Write(p []byte) (int, error) {
	if w.status == 0 {
		w.status = 200
	}
	return w.body.Write(p)
}
func (w *verifC31RW) WriteHeader(s int) {
	if w.status == 0 {
		w.status = s
	}
}
func (w *verifC31RW) Flush()                              {}
func (w *verifC31RW) SetReadDeadline(time.Time) error     { return nil }
func (w *verifC31RW) SetWriteDeadline(time.Time) error    { return nil }
func (w *verifC31RW) Hijack() (net.Conn, *bufio.ReadWriter, error) {
	return w.conn, bufio.NewReadWriter(bufio.NewReader(w.conn), bufio.NewWriter(w.conn)), nil
}

var verifC31Reasons = []struct{ sub, name string }{
	{"HTTP/1.1 Upgrade not enabled", "h1Disabled"},
	{"'upgrade' token not found", "noUpgradeToken"},
	{"'websocket' token not found", "noWebsocketToken"},
	{"request method is not GET", "methodNotGet"},
	{"unsupported version", "badVersion"},
	{"'Sec-WebSocket-Key' header must be", "badKey"},
	{"requires :protocol header", "h2NoProtocol"},
	{"method must be CONNECT", "h2NotConnect"},
	{"unsupported HTTP protocol version", "badProto"},
	{"origin not allowed", "originDenied"},
}

func verifC31KV(ws []string, k string) (string, bool) {
	for _, w := range ws {
		if strings.HasPrefix(w, k+"=") {
			return w[len(k)+1:], true
		}
	}
	return "", false
}

func verifC31Up(ws []string) string {
	sep := len(ws)
	for i, w := range ws {
		if w == "H" {
			sep = i
			break
		}
	}
	kvs := ws[:sep]
	var hs []string
	if sep < len(ws) {
		hs = ws[sep+1:]
	}
	get := func(k string) string { v, _ := verifC31KV(kvs, k); return v }
	pm, err := strconv.Atoi(get("pm"))
	if err != nil {
		return "bad-op"
	}
	m, ok1 := verifC31Unhex(get("m"))
	host, ok2 := verifC31Unhex(get("host"))
	if !ok1 || !ok2 {
		return "bad-op"
	}
	u := &Upgrader{}
	if s := get("sub"); s != "nil" {
		u.Subprotocols = []string{}
		for _, p := range strings.Split(s, ",") {
			b, ok := verifC31Unhex(p)
			if !ok {
				return "bad-op"
			}
			u.Subprotocols = append(u.Subprotocols, string(b))
		}
	}
	u.EnableCompression = get("comp") == "1"
	u.DisableHTTP1Upgrade = get("noh1") == "1"
	switch get("co") {
	case "0":
		u.CheckOrigin = func(*http.Request) bool { return false }
	case "1":
		u.CheckOrigin = func(*http.Request) bool { return true }
	case "nil":
	default:
		return "bad-op"
	}
	r := &http.Request{Method: string(m), ProtoMajor: pm, ProtoMinor: 1, Host: string(host), Header: http.Header{},
		URL: &url.URL{Path: "/"}, Body: io.NopCloser(bytes.NewReader(nil))}
	for _, h := range hs {
		parts := strings.Split(h, ":")
		if len(parts) != 2 {
			return "bad-op"
		}
		n, ok1 := verifC31Unhex(parts[0])
		v, ok2 := verifC31Unhex(parts[1])
		if !ok1 || !ok2 {
			return "bad-op"
		}
		r.Header.Add(string(n), string(v))
	}
	// generator sanity: how the standard library classifies the first Origin value
	ohs := "none"
	if o := r.Header["Origin"]; len(o) > 0 {
		if pu, err := url.Parse(o[0]); err != nil {
			ohs = "err"
		} else {
			ohs = verifC31Hex([]byte(pu.Host))
		}
	}
	conn := &verifC31Conn{rd: &bytes.Buffer{}, wr: &bytes.Buffer{}}
	w := &verifC31RW{hdr: http.Header{}, conn: conn}
	tail := " #oh=" + ohs
	var c *Conn
	var sub string
	var uerr error
	panicked := func() (p bool) {
		defer func() {
			if rec := recover(); rec != nil {
				p = true
			}
		}()
		c, sub, uerr = u.Upgrade(w, r, nil)
		return false
	}()
	if panicked {
		return "PANIC" + tail
	}
	if uerr != nil {
		var he HandshakeError
		if !errors.As(uerr, &he) {
			return "error " + strconv.Quote(uerr.Error()) + tail
		}
		name := "unknown:" + strconv.Quote(uerr.Error())
		for _, rs := range verifC31Reasons {
			if strings.Contains(uerr.Error(), rs.sub) {
				name = rs.name
				break
			}
		}
		if conn.wr.Len() != 0 {
			return "reject-but-wrote-to-conn" + tail
		}
		if w.hdr.Get("Sec-Websocket-Version") != "13" {
			name += "+no-version-header"
		}
		return fmt.Sprintf("reject %d %s%s", w.status, name, tail)
	}
	if c == nil {
		return "nil-conn" + tail
	}
	compressed := c.newCompressionWriter != nil && c.newDecompressionReader != nil
	if pm == 2 {
		if w.status != 200 {
			return fmt.Sprintf("h2-status-%d%s", w.status, tail)
		}
		if sub != w.hdr.Get("Sec-Websocket-Protocol") {
			return "h2-subprotocol-header-mismatch" + tail
		}
		ext := "0"
		if e, ok := w.hdr["Sec-Websocket-Extensions"]; ok {
			if len(e) == 1 && e[0] == "permessage-deflate; server_no_context_takeover; client_no_context_takeover" {
				ext = "1"
			} else {
				ext = "?" + verifC31Hex([]byte(strings.Join(e, "|")))
			}
		}
		if (ext == "1") != compressed {
			return "h2-compression-state-mismatch" + tail
		}
		return fmt.Sprintf("h2 sub=%s ext=%s%s", verifC31Hex([]byte(sub)), ext, tail)
	}
	resp := conn.wr.Bytes()
	// the returned subprotocol and the compression state of the connection must agree with the wire
	if sub != "" && !bytes.Contains(resp, []byte("\r\nSec-WebSocket-Protocol: "+sub+"\r\n")) {
		return "h1-subprotocol-return-mismatch" + tail
	}
	if sub == "" && bytes.Contains(resp, []byte("Sec-WebSocket-Protocol")) {
		return "h1-subprotocol-return-mismatch" + tail
	}
	if compressed != bytes.Contains(resp, []byte("Sec-WebSocket-Extensions")) {
		return "h1-compression-state-mismatch" + tail
	}
	return "h1 " + verifC31Hex(resp) + tail
}

type verifC31State struct {
	c    *Conn
	nc   *verifC31Conn
	seen int // bytes of nc.wr already reported
}

func (s *verifC31State) reset() {
	s.nc = &verifC31Conn{rd: &bytes.Buffer{}, wr: &bytes.Buffer{}}
	s.c = newConn(s.nc, true, 1024, 1024, nil, nil, nil)
	s.seen = 0
}

func (s *verifC31State) newBytes() []byte {
	b := s.nc.wr.Bytes()[s.seen:]
	s.seen = s.nc.wr.Len()
	return b
}

func (s *verifC31State) cc() string {
	code, inc := s.c.CloseCode()
	i := 0
	if inc {
		i = 1
	}
	return fmt.Sprintf("cc=%d,%d", code, i)
}

func (s *verifC31State) step(line string) (res string) {
	defer func() {
		if r := recover(); r != nil {
			res = "PANIC"
		}
	}()
	ws := strings.Fields(line)
	if len(ws) == 0 {
		return "bad-op"
	}
	switch ws[0] {
	case "key":
		if len(ws) != 2 {
			return "bad-op"
		}
		k, ok := verifC31Unhex(ws[1])
		if !ok {
			return "bad-op"
		}
		if isValidChallengeKey(string(k)) {
			return "valid"
		}
		return "invalid"
	case "accept":
		if len(ws) != 2 {
			return "bad-op"
		}
		k, ok := verifC31Unhex(ws[1])
		if !ok {
			return "bad-op"
		}
		a := computeAcceptKey(string(k))
		b := encodeAcceptKey(string(k), nil)
		if a != string(b) {
			return "accept-key-functions-disagree"
		}
		return verifC31Hex([]byte(a))
	case "tok":
		if len(ws) < 2 {
			return "bad-op"
		}
		v, ok := verifC31Unhex(ws[1])
		if !ok {
			return "bad-op"
		}
		h := http.Header{}
		for _, l := range ws[2:] {
			b, ok := verifC31Unhex(l)
			if !ok {
				return "bad-op"
			}
			h["X"] = append(h["X"], string(b))
		}
		if tokenListContainsValue(h, "X", string(v)) {
			return "1"
		}
		return "0"
	case "ext":
		h := http.Header{}
		for _, l := range ws[1:] {
			b, ok := verifC31Unhex(l)
			if !ok {
				return "bad-op"
			}
			h["Sec-Websocket-Extensions"] = append(h["Sec-Websocket-Extensions"], string(b))
		}
		es := parseExtensions(h)
		if len(es) == 0 {
			return "-"
		}
		var out []string
		for _, e := range es {
			keys := make([]string, 0, len(e))
			for k := range e {
				if k != "" {
					keys = append(keys, k)
				}
			}
			sort.Strings(keys)
			s := verifC31Hex([]byte(e[""]))
			for _, k := range keys {
				s += ";" + verifC31Hex([]byte(k)) + "=" + verifC31Hex([]byte(e[k]))
			}
			out = append(out, s)
		}
		return strings.Join(out, ",")
	case "trim":
		if len(ws) != 2 {
			return "bad-op"
		}
		b, ok := verifC31Unhex(ws[1])
		if !ok {
			return "bad-op"
		}
		return verifC31Hex([]byte(strings.TrimSpace(string(b))))
	case "utf8":
		if len(ws) != 2 {
			return "bad-op"
		}
		b, ok := verifC31Unhex(ws[1])
		if !ok {
			return "bad-op"
		}
		if utf8.ValidString(string(b)) {
			return "1"
		}
		return "0"
	case "codes":
		var out []string
		start := -1
		for i := 0; i <= 65536; i++ {
			v := i < 65536 && isValidReceivedCloseCode(i)
			if v && start < 0 {
				start = i
			}
			if !v && start >= 0 {
				out = append(out, fmt.Sprintf("%d-%d", start, i-1))
				start = -1
			}
		}
		return strings.Join(out, ",")
	case "up":
		return verifC31Up(ws[1:])
	case "reset":
		s.reset()
		return "ok"
	case "send":
		if len(ws) != 3 {
			return "bad-op"
		}
		code, err := strconv.Atoi(ws[1])
		reason, ok := verifC31Unhex(ws[2])
		if err != nil || !ok {
			return "bad-op"
		}
		werr := s.c.WriteControl(CloseMessage, FormatCloseMessage(code, string(reason)), time.Now().Add(time.Hour))
		nb := s.newBytes()
		switch {
		case werr == nil:
			return "wrote " + verifC31Hex(nb) + " " + s.cc()
		case errors.Is(werr, errInvalidControlFrame):
			if len(nb) != 0 {
				return "tooLong-but-wrote " + s.cc()
			}
			return "tooLong " + s.cc()
		case errors.Is(werr, ErrCloseSent):
			if len(nb) != 0 {
				return "already-but-wrote " + s.cc()
			}
			return "already " + s.cc()
		}
		return "error " + strconv.Quote(werr.Error())
	case "recv":
		if len(ws) != 2 {
			return "bad-op"
		}
		p, ok := verifC31Unhex(ws[1])
		if !ok || len(p) > 125 {
			return "bad-op"
		}
		key := [4]byte{0x11, 0x22, 0x33, 0x44}
		frame := []byte{0x88, 0x80 | byte(len(p))}
		frame = append(frame, key[:]...)
		for i, b := range p {
			frame = append(frame, b^key[i%4])
		}
		s.nc.rd.Write(frame)
		_, _, rerr := s.c.NextReader()
		nb := s.newBytes()
		w := "none"
		if len(nb) > 0 {
			w = verifC31Hex(nb)
		}
		var ce *CloseError
		switch {
		case errors.As(rerr, &ce):
			return fmt.Sprintf("close %d %s w=%s %s", ce.Code, verifC31Hex([]byte(ce.Text)), w, s.cc())
		case rerr != nil && strings.Contains(rerr.Error(), "bad close code"):
			return fmt.Sprintf("protoErr bad w=%s %s", w, s.cc())
		case rerr != nil && strings.Contains(rerr.Error(), "invalid close payload length"):
			return fmt.Sprintf("protoErr len w=%s %s", w, s.cc())
		case rerr != nil && strings.Contains(rerr.Error(), "invalid utf8 payload in close frame"):
			return fmt.Sprintf("protoErr utf8 w=%s %s", w, s.cc())
		case rerr == nil:
			return "accepted-without-error"
		}
		return "error " + strconv.Quote(rerr.Error())
	}
	return "bad-op"
}

func TestVerifC31(t *testing.T) {
	in, err := os.Open(os.Getenv("VERIF_OPS"))
	if err != nil {
		t.Skip("no VERIF_OPS")
	}
	defer in.Close()
	out, err := os.Create(os.Getenv("VERIF_OUT"))
	if err != nil {
		t.Fatal(err)
	}
	defer out.Close()
	w := bufio.NewWriter(out)
	defer w.Flush()
	sc := bufio.NewScanner(in)
	sc.Buffer(make([]byte, 1<<20), 1<<26)
	st := &verifC31State{}
	st.reset()
	for sc.Scan() {
		line := sc.Text()
		if line == "" || strings.HasPrefix(line, "#") {
			fmt.Fprintln(w, "#")
			continue
		}
		fmt.Fprintln(w, st.step(line))
	}
}
