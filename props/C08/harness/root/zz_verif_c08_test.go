//go:build verif

package centrifuge

// Verification harness for C08 (injected with `go test -overlay`, never part of the repo).
//
// Scenario = `reset …` line + one `sched …` line (or an `http …` line for the handler part).
// Every application callback (OnConnecting, OnConnect, OnAlive, OnDisconnect, OnUnsubscribe) logs
// `name+`, parks on a channel gate, and logs `name-` when released.  Actors are goroutines started
// by the schedule:
//   C  the connection's reader: connect command, subscribe c1 [, unsubscribe c1]
//   X  Client.close(DisconnectForceNoReconnect)            (server-initiated disconnect)
//   E  the transport handler's close function                (transport close)
//   T/T2  the presence timer expires (hand-fired ClientTimerScheduler)
//   D  two presence ticks started directly (Client.updatePresence: a tick goroutine past its timer)
//   U  Node.Unsubscribe of the server-side subscription s1 (or of c1); V: six of them at once
//   S  Node.Shutdown
//   N  a second connection on the same node sending its connect command
// A schedule is a list of labels executed strictly in order: `s:<actor>` starts an actor,
// `r:<gate>` waits until some goroutine is parked on the gate and releases exactly one, `a:<gate>`
// only waits for the arrival, `w:<actor>` waits until a started actor has finished.  A label
// that cannot be executed within the (real-time) budget is skipped (counted in `infeasible`); when
// the schedule is exhausted all gates are opened and the scenario runs to completion; the
// recorded log is a real trace either way.  A join that does not finish is reported as HARNESS-TIMEOUT (never a verdict).
// No sleeps are used for synchronisation.
//
// Output of `sched`: `log=<events> infeasible=<index|-> after=<status after shutdown|-> final=<status>`
// Output of `http`:  `kind=… order=… connected_after_shutdown=<0|1> connecting=<n> connect=<n> status=<http status|ws close code>`

import (
	"bufio"
	"bytes"
	"context"
	"fmt"
	"io"
	"net/http"
	"net/http/httptest"
	"os"
	"runtime"
	"strings"
	"sync"
	"sync/atomic"
	"testing"
	"time"

	"github.com/centrifugal/protocol"
	"github.com/centrifugal/centrifuge/internal/websocket"
)

type verifC08Transport struct {
	mu     sync.Mutex
	frames [][]byte
	closed bool
}

func (t *verifC08Transport) Name() string                     { return "verif" }
func (t *verifC08Transport) AcceptProtocol() string           { return "" }
func (t *verifC08Transport) Protocol() ProtocolType           { return ProtocolTypeJSON }
func (t *verifC08Transport) ProtocolVersion() ProtocolVersion { return ProtocolVersion2 }
func (t *verifC08Transport) Unidirectional() bool             { return false }
func (t *verifC08Transport) Emulation() bool                  { return false }
func (t *verifC08Transport) DisabledPushFlags() uint64        { return 0 }
func (t *verifC08Transport) PingPongConfig() PingPongConfig {
	// no application-level pings: the client's single timer is then armed for the presence tick
	return PingPongConfig{PingInterval: -1, PongTimeout: -1}
}
func (t *verifC08Transport) Write(m []byte) error { return t.WriteMany(m) }
func (t *verifC08Transport) WriteMany(ms ...[]byte) error {
	t.mu.Lock()
	defer t.mu.Unlock()
	for _, m := range ms {
		t.frames = append(t.frames, append([]byte(nil), m...))
	}
	return nil
}
func (t *verifC08Transport) Close(Disconnect) error {
	t.mu.Lock()
	t.closed = true
	t.mu.Unlock()
	return nil
}

// verifC08Sched is a hand-fired ClientTimerScheduler: the harness decides when a scheduled client
// timer "expires".
type verifC08Timer struct {
	cb       func()
	canceled bool
	fired    bool
}

func (t *verifC08Timer) Cancel() { t.canceled = true }

type verifC08Sched struct {
	mu     sync.Mutex
	timers []*verifC08Timer
}

func (ts *verifC08Sched) ScheduleTimer(d time.Duration, cb func()) TimerCanceler {
	ts.mu.Lock()
	defer ts.mu.Unlock()
	t := &verifC08Timer{cb: cb}
	ts.timers = append(ts.timers, t)
	return t
}

// verifC08Broker gates PublishJoin: connectCmd publishes the join of a connect-time server-side
// subscription after its last `status == closed` check and before triggerConnect, so a goroutine
// parked here is "between connectCmd and triggerConnect".
type verifC08Broker struct {
	*MemoryBroker
	s *verifC08Scn
}

func (b *verifC08Broker) PublishJoin(ch string, info *ClientInfo) error {
	if ch == "s1" {
		b.s.gate("join", "join")
	}
	return b.MemoryBroker.PublishJoin(ch, info)
}

type verifC08Scn struct {
	mu       sync.Mutex
	log      []string
	gates    map[string]chan struct{}
	arrivals chan string
	free     chan struct{}
	freeOnce sync.Once
	node     *Node
	client   *Client
	closeFn  ClientCloseFunc
	tr       *verifC08Transport
	c2       *Client
	close2   ClientCloseFunc
	ss       bool
	pres     bool
	cprog    string
	jl       bool
	mapsub   bool
	tsched   *verifC08Sched
	wg       sync.WaitGroup
	ended    map[string]chan struct{}
}

func (s *verifC08Scn) ev(x string) {
	s.mu.Lock()
	s.log = append(s.log, x)
	s.mu.Unlock()
}

// gate: log entry, park until released (or until the scenario is in free-run), log exit.
func (s *verifC08Scn) gate(name, label string) {
	s.ev(label + "+")
	select {
	case <-s.free:
	default:
		select {
		case s.arrivals <- name:
		case <-s.free:
		}
		select {
		case <-s.gates[name]:
		case <-s.free:
		}
	}
	s.ev(label + "-")
}

func (s *verifC08Scn) setup(kv map[string]string) {
	s.gates = map[string]chan struct{}{}
	for _, g := range []string{"cing", "conn", "alive", "disc", "unsub", "join", "page"} {
		s.gates[g] = make(chan struct{})
	}
	s.arrivals = make(chan string, 64)
	s.ended = map[string]chan struct{}{}
	for _, a := range []string{"C", "X", "E", "T", "T2", "D", "U", "S", "N", "V"} {
		s.ended[a] = make(chan struct{})
	}
	s.free = make(chan struct{})
	s.ss = kv["ss"] == "1"
	s.pres = kv["pres"] == "1"
	s.cprog = kv["cprog"]
	s.jl = kv["jl"] == "1"
	s.mapsub = kv["map"] == "1"
	s.tsched = &verifC08Sched{}
	node, err := New(Config{LogLevel: LogLevelNone, ClientStaleCloseDelay: 240 * time.Hour,
		ClientPresenceUpdateInterval: 240 * time.Hour, ClientTimerScheduler: s.tsched,
		Map: MapConfig{GetMapChannelOptions: func(channel string) MapChannelOptions {
			return MapChannelOptions{Mode: MapModeEphemeral, KeyTTL: 60 * time.Second, MinPageSize: 1}
		}}})
	if err != nil {
		panic(err)
	}
	s.node = node
	first := true
	var firstMu sync.Mutex
	node.OnConnecting(func(ctx context.Context, e ConnectEvent) (ConnectReply, error) {
		firstMu.Lock()
		isFirst := first
		first = false
		firstMu.Unlock()
		// ReplyWithoutQueue: replies are on the transport when the command returns, so "the
		// subscription was established" can be read off the transport without waiting for the writer
		rep := ConnectReply{Credentials: &Credentials{UserID: "u"}, ReplyWithoutQueue: true}
		if !isFirst {
			s.ev("connecting2+")
			s.ev("connecting2-")
			return rep, nil
		}
		if s.ss {
			rep.Subscriptions = map[string]SubscribeOptions{"s1": {EmitPresence: s.pres, EmitJoinLeave: s.jl}}
		}
		s.gate("cing", "connecting")
		return rep, nil
	})
	node.OnConnect(func(c *Client) {
		if c != s.client {
			s.ev("connect2+")
			s.ev("connect2-")
			return
		}
		// handlers are registered first, as applications do, then the callback keeps running
		c.OnAlive(func() { s.gate("alive", "alive") })
		c.OnDisconnect(func(e DisconnectEvent) { s.gate("disc", "disconnect") })
		c.OnSubscribe(func(e SubscribeEvent, cb SubscribeCallback) {
			s.ev("sub:" + e.Channel + "+")
			if e.Channel == "m1" {
				cb(SubscribeReply{Options: SubscribeOptions{Type: SubscriptionTypeMap}}, nil)
			} else {
				cb(SubscribeReply{Options: SubscribeOptions{EmitPresence: s.pres}}, nil)
			}
			s.ev("sub:" + e.Channel + "-")
		})
		c.OnUnsubscribe(func(e UnsubscribeEvent) { s.gate("unsub", "unsub:"+e.Channel) })
		s.gate("conn", "connect")
	})
	if s.jl {
		mb, err := NewMemoryBroker(node, MemoryBrokerConfig{})
		if err != nil {
			panic(err)
		}
		node.SetBroker(&verifC08Broker{MemoryBroker: mb, s: s})
	}
	if s.mapsub {
		mbk, err := NewMemoryMapBroker(node, MemoryMapBrokerConfig{})
		if err != nil {
			panic(err)
		}
		if err := mbk.RegisterEventHandler(nil); err != nil {
			panic(err)
		}
		node.SetMapBroker(mbk)
		for _, key := range []string{"a", "b", "c", "d"} {
			if _, err := mbk.Publish(context.Background(), "m1", key, MapPublishOptions{Data: []byte(`{"v":1}`)}); err != nil {
				panic(err)
			}
		}
	}
	if err := node.Run(); err != nil {
		panic(err)
	}
	s.tr = &verifC08Transport{}
	c, closeFn, err := NewClient(context.Background(), node, s.tr)
	if err != nil {
		panic(err)
	}
	s.client, s.closeFn = c, closeFn
}

func verifC08Cmd(cmd *protocol.Command) []byte {
	data, err := protocol.NewJSONCommandEncoder().Encode(cmd)
	if err != nil {
		panic(err)
	}
	return data
}

func (s *verifC08Scn) status(c *Client) string {
	c.mu.RLock()
	defer c.mu.RUnlock()
	switch c.status {
	case statusConnecting:
		return "connecting"
	case statusConnected:
		return "connected"
	case statusClosed:
		return "closed"
	}
	return "?"
}

func (s *verifC08Scn) hasReply(id uint32) bool {
	s.tr.mu.Lock()
	defer s.tr.mu.Unlock()
	for _, f := range s.tr.frames {
		rep, _ := protocol.NewJSONReplyDecoder(f).Decode()
		if rep != nil && rep.Id == id && rep.Error == nil {
			return true
		}
	}
	return false
}

func (s *verifC08Scn) subReply(id uint32) *protocol.SubscribeResult {
	s.tr.mu.Lock()
	defer s.tr.mu.Unlock()
	for _, f := range s.tr.frames {
		rep, _ := protocol.NewJSONReplyDecoder(f).Decode()
		if rep != nil && rep.Id == id && rep.Error == nil && rep.Subscribe != nil {
			return rep.Subscribe
		}
	}
	return nil
}

// blockedIn reports whether some goroutine is parked in a select inside fn (an observation of the
// scheduler state, used like a gate arrival for code that has no callback at that point).
func verifC08BlockedIn(fn string) bool {
	buf := make([]byte, 1<<20)
	n := runtime.Stack(buf, true)
	for _, g := range strings.Split(string(buf[:n]), "\n\n") {
		header, _, _ := strings.Cut(g, "\n")
		if strings.Contains(header, "[select") && strings.Contains(g, fn+"(") {
			return true
		}
	}
	return false
}

func (s *verifC08Scn) actor(name string, after *atomic.Value) {
	defer s.wg.Done()
	defer close(s.ended[name])
	s.ev("start:" + name)
	switch name {
	case "C":
		ok := HandleReadFrame(s.client, bytes.NewReader(verifC08Cmd(&protocol.Command{Id: 1, Connect: &protocol.ConnectRequest{}})), 65536)
		if ok && s.hasReply(1) {
			s.ev("est:connect")
		}
		// established = committed in the client's channel table (or already torn down with a callback)
		if s.ss && s.client.IsSubscribed("s1") {
			s.ev("est:s1")
		}
		if ok && strings.Contains(s.cprog, "s") {
			ok = HandleReadFrame(s.client, bytes.NewReader(verifC08Cmd(&protocol.Command{Id: 2, Subscribe: &protocol.SubscribeRequest{Channel: "c1"}})), 65536)
			if s.client.IsSubscribed("c1") {
				s.ev("est:c1")
			}
		}
		if ok && strings.Contains(s.cprog, "m") && s.mapsub {
			// a map subscription is loaded with several commands: first state page (2 of 4 keys) …
			ok = HandleReadFrame(s.client, bytes.NewReader(verifC08Cmd(&protocol.Command{Id: 4, Subscribe: &protocol.SubscribeRequest{
				Channel: "m1", Type: int32(SubscriptionTypeMap), Phase: MapPhaseState, Limit: 2}})), 65536)
			p1 := s.subReply(4)
			if ok && p1 != nil && p1.Cursor != "" {
				s.gate("page", "page") // … the client is between two pages …
				ok = HandleReadFrame(s.client, bytes.NewReader(verifC08Cmd(&protocol.Command{Id: 5, Subscribe: &protocol.SubscribeRequest{
					Channel: "m1", Type: int32(SubscriptionTypeMap), Phase: MapPhaseState, Limit: 2, Cursor: p1.Cursor}})), 65536)
				// … last page: the server answers LIVE, the subscription is established
				if p2 := s.subReply(5); p2 != nil && p2.Phase == MapPhaseLive {
					s.ev("est:m1")
				}
			}
		}
		if ok && strings.Contains(s.cprog, "u") {
			HandleReadFrame(s.client, bytes.NewReader(verifC08Cmd(&protocol.Command{Id: 3, Unsubscribe: &protocol.UnsubscribeRequest{Channel: "c1"}})), 65536)
		}
	case "X":
		_ = s.client.close(DisconnectForceNoReconnect)
	case "E":
		_ = s.closeFn()
	case "T", "T2":
		// the presence timer expires: fire the client's pending timer if it is armed for a
		// presence tick (with a TimerScheduler the tick itself runs on its own goroutine)
		s.client.mu.Lock()
		isPresence := s.client.timerOp == timerOpPresence && s.client.status != statusClosed
		tc := s.client.timerCanceler
		s.client.mu.Unlock()
		if t, ok := tc.(*verifC08Timer); ok && t != nil && isPresence {
			s.tsched.mu.Lock()
			fire := !t.canceled && !t.fired
			t.fired = true
			s.tsched.mu.Unlock()
			if fire {
				s.ev("timer-fired")
				t.cb()
			}
		}
	case "D":
		// a tick goroutine that is already past the timer (Client.updatePresence called directly)
		s.client.updatePresence()
		s.client.updatePresence()
	case "U":
		ch := "c1"
		if s.ss {
			ch = "s1"
		}
		if s.mapsub {
			ch = "m1"
		}
		// through the node API: only clients registered in the hub are reachable by an application
		_ = s.node.Unsubscribe("u", ch)
	case "V":
		// several server-side unsubscribes of one channel released together (stress on the
		// removedNow ownership: only one of them may run the callback)
		ch := "c1"
		if s.ss {
			ch = "s1"
		}
		var vg sync.WaitGroup
		barrier := make(chan struct{})
		for i := 0; i < 6; i++ {
			vg.Add(1)
			go func() {
				defer vg.Done()
				<-barrier
				_ = s.node.Unsubscribe("u", ch)
			}()
		}
		close(barrier)
		vg.Wait()
	case "S":
		_ = s.node.Shutdown(context.Background())
		s.mu.Lock()
		c2 := s.c2
		s.mu.Unlock()
		st := s.status(s.client)
		if c2 != nil {
			st += "/" + s.status(c2)
		}
		after.Store(st)
		s.ev("shutdown-done")
	case "N":
		tr := &verifC08Transport{}
		c2, closeFn2, err := NewClient(context.Background(), s.node, tr)
		if err != nil {
			s.ev("newclient2-error")
			return
		}
		s.mu.Lock()
		s.c2, s.close2 = c2, closeFn2
		s.mu.Unlock()
		HandleReadFrame(c2, bytes.NewReader(verifC08Cmd(&protocol.Command{Id: 1, Connect: &protocol.ConnectRequest{}})), 65536)
		s.ev("status2:" + s.status(c2))
	}
	s.ev("end:" + name)
}

func (s *verifC08Scn) sched(labels []string, budget time.Duration) string {
	var after atomic.Value
	after.Store("-")
	parked := map[string]int{}
	started := map[string]bool{}
	skipped := 0
	for _, l := range labels {
		if strings.HasPrefix(l, "s:") {
			if ch, ok := s.ended[l[2:]]; ok && !started[l[2:]] {
				_ = ch
				started[l[2:]] = true
				s.wg.Add(1)
				go s.actor(l[2:], &after)
			}
			continue
		}
		if strings.HasPrefix(l, "w:") { // wait until a started actor has finished
			if !started[l[2:]] {
				continue
			}
			tm := time.NewTimer(budget)
			okw := false
			select {
			case <-s.ended[l[2:]]:
				okw = true
			case <-tm.C:
			}
			tm.Stop()
			if !okw {
				skipped++
			}
			continue
		}
		if l == "b:unsubwait" { // wait until an unsubscribe sits in its wait gate
			deadline := time.Now().Add(budget * 10)
			seen := false
			for time.Now().Before(deadline) {
				if verifC08BlockedIn("centrifuge.(*Client).unsubscribe") {
					seen = true
					break
				}
				runtime.Gosched()
				time.Sleep(200 * time.Microsecond)
			}
			if !seen {
				skipped++
			}
			continue
		}
		arriveOnly := strings.HasPrefix(l, "a:") // wait until a goroutine is parked, do not release
		g := strings.TrimPrefix(strings.TrimPrefix(l, "r:"), "a:")
		if _, ok := s.gates[g]; !ok {
			continue
		}
		tm := time.NewTimer(budget)
		for parked[g] == 0 {
			select {
			case a := <-s.arrivals:
				parked[a]++
				continue
			case <-tm.C:
			}
			break
		}
		tm.Stop()
		if parked[g] == 0 {
			// not executable now (the callback is not reached in this state): skip the label
			skipped++
			continue
		}
		if arriveOnly {
			continue
		}
		parked[g]--
		s.gates[g] <- struct{}{}
	}
	s.freeOnce.Do(func() { close(s.free) })
	done := make(chan struct{})
	go func() { s.wg.Wait(); close(done) }()
	select {
	case <-done:
	case <-time.After(30 * time.Second):
		return "HARNESS-TIMEOUT"
	}
	est := []string{}
	s.mu.Lock()
	for _, sub := range []string{"s1", "c1", "m1"} {
		for _, e := range s.log {
			if e == "est:"+sub || e == "unsub:"+sub+"+" {
				est = append(est, sub)
				break
			}
		}
	}
	s.mu.Unlock()
	st2 := "-"
	if s.c2 != nil {
		st2 = s.status(s.c2)
	}
	s.ev("cleanup")
	_ = s.closeFn()
	if s.close2 != nil {
		_ = s.close2()
	}
	final := s.status(s.client)
	_ = s.node.Shutdown(context.Background())
	s.mu.Lock()
	log := strings.Join(s.log, ",")
	s.mu.Unlock()
	if len(est) == 0 {
		est = []string{"-"}
	}
	infeasible := "-"
	if skipped > 0 {
		infeasible = fmt.Sprint(skipped)
	}
	return fmt.Sprintf("log=%s infeasible=%s after=%s est=%s end2=%s final=%s", log, infeasible, after.Load().(string),
		strings.Join(est, ","), st2, final)
}

// ---------------------------------------------------------------------------- handlers over httptest

// verifC08HTTP drives one real transport handler.  order=after: the request is made after
// Node.Shutdown has returned.  order=racing (websocket): the WebSocket is established first, then
// Node.Shutdown runs to completion, then the client sends its connect command.
func verifC08HTTP(kind, order string) string {
	node, err := New(Config{LogLevel: LogLevelNone})
	if err != nil {
		panic(err)
	}
	var nConnecting, nConnect, afterShutdown atomic.Int32
	var shutdownDone atomic.Bool
	connected := make(chan struct{}, 4)
	node.OnConnecting(func(ctx context.Context, e ConnectEvent) (ConnectReply, error) {
		nConnecting.Add(1)
		return ConnectReply{Credentials: &Credentials{UserID: "u"}}, nil
	})
	node.OnConnect(func(c *Client) {
		nConnect.Add(1)
		if shutdownDone.Load() {
			afterShutdown.Store(1)
		}
		connected <- struct{}{}
	})
	if err := node.Run(); err != nil {
		panic(err)
	}
	mux := http.NewServeMux()
	mux.Handle("/ws", NewWebsocketHandler(node, WebsocketConfig{}))
	mux.Handle("/sse", NewSSEHandler(node, SSEConfig{}))
	mux.Handle("/stream", NewHTTPStreamHandler(node, HTTPStreamConfig{}))
	srv := httptest.NewServer(mux)
	defer srv.Close()
	shutdown := func() {
		_ = node.Shutdown(context.Background())
		shutdownDone.Store(true)
	}
	connectCmd := verifC08Cmd(&protocol.Command{Id: 1, Connect: &protocol.ConnectRequest{}})
	status := "-"
	waitConnected := func() {
		select {
		case <-connected:
		case <-time.After(3 * time.Second): // budget for "nothing happens"; not a verdict by itself
		}
	}
	switch kind {
	case "websocket":
		url := "ws" + strings.TrimPrefix(srv.URL, "http") + "/ws"
		if order == "after" {
			shutdown()
		}
		dialer := &websocket.Dialer{}
		conn, resp, _, err := dialer.Dial(url, nil)
		if err != nil {
			status = "dial-error"
			if resp != nil {
				status = fmt.Sprint(resp.StatusCode)
			}
			break
		}
		defer conn.Close()
		pong := make(chan struct{}, 1)
		conn.SetPongHandler(func([]byte) error {
			select {
			case pong <- struct{}{}:
			default:
			}
			return nil
		})
		type rd struct {
			msg []byte
			err error
		}
		msgs := make(chan rd, 4)
		go func() {
			for {
				_, m, err := conn.ReadMessage()
				msgs <- rd{m, err}
				if err != nil {
					return
				}
			}
		}()
		if order == "racing" {
			// A WebSocket-level ping is answered by the server only from inside its read loop,
			// i.e. after the handler passed its NotifyShutdown check and created the Client: the
			// pong is the gate that orders "handler past the check" before Node.Shutdown.
			_ = conn.WriteControl(websocket.PingMessage, nil, time.Now().Add(3*time.Second))
			select {
			case <-pong:
			case r := <-msgs:
				status = "closed-before-pong"
				_ = r
			case <-time.After(3 * time.Second):
				status = "no-pong"
			}
			if status != "-" {
				break
			}
			shutdown()
		}
		_ = conn.WriteMessage(websocket.TextMessage, connectCmd)
		select {
		case r := <-msgs:
			if r.err != nil {
				if ce, ok := r.err.(*websocket.CloseError); ok {
					status = fmt.Sprint(ce.Code)
				} else {
					status = "read-error"
				}
			} else if bytes.Contains(r.msg, []byte(`"connect"`)) {
				status = "connect-reply"
				waitConnected()
			}
		case <-time.After(3 * time.Second):
			status = "no-answer"
		}
	case "sse", "http_stream":
		if order == "after" {
			shutdown()
		}
		path, ctype := "/sse", "application/json"
		if kind == "http_stream" {
			path = "/stream"
		}
		ctx, cancel := context.WithCancel(context.Background())
		defer cancel()
		req, _ := http.NewRequestWithContext(ctx, http.MethodPost, srv.URL+path, bytes.NewReader(connectCmd))
		req.Header.Set("Content-Type", ctype)
		resp, err := http.DefaultClient.Do(req)
		if err != nil {
			status = "request-error"
			break
		}
		status = fmt.Sprint(resp.StatusCode)
		got := make(chan []byte, 1)
		go func() {
			buf := make([]byte, 4096)
			n, _ := io.ReadAtLeast(resp.Body, buf, 8)
			got <- buf[:n]
		}()
		select {
		case b := <-got:
			if bytes.Contains(b, []byte(`"connect"`)) {
				status += ":connect-reply"
				waitConnected()
			}
		case <-time.After(3 * time.Second):
		}
		cancel()
		_ = resp.Body.Close()
	}
	if !shutdownDone.Load() {
		shutdown()
	}
	return fmt.Sprintf("kind=%s order=%s connected_after_shutdown=%d connecting=%d connect=%d status=%s",
		kind, order, afterShutdown.Load(), nConnecting.Load(), nConnect.Load(), status)
}

func verifC08KV(ws []string) map[string]string {
	m := map[string]string{}
	for _, w := range ws {
		if i := strings.IndexByte(w, '='); i > 0 {
			m[w[:i]] = w[i+1:]
		}
	}
	return m
}

func TestVerifC08(t *testing.T) {
	in, err := os.Open(os.Getenv("VERIF_OPS"))
	if err != nil {
		t.Skip("no VERIF_OPS")
	}
	defer in.Close()
	out, err := os.Create(os.Getenv("VERIF_OUT"))
	if err != nil {
		t.Fatal(err)
	}
	defer out.Close()
	w := bufio.NewWriter(out)
	defer w.Flush()
	sc := bufio.NewScanner(in)
	sc.Buffer(make([]byte, 1<<20), 1<<26)
	var cur *verifC08Scn
	for sc.Scan() {
		line := sc.Text()
		ws := strings.Fields(line)
		switch {
		case line == "" || strings.HasPrefix(line, "#"):
			fmt.Fprintln(w, "#")
		case ws[0] == "reset":
			cur = &verifC08Scn{}
			cur.setup(verifC08KV(ws[1:]))
			fmt.Fprintln(w, "ok")
		case ws[0] == "sched" && cur != nil:
			budget := 40 * time.Millisecond
			if os.Getenv("VERIF_C08_STRICT") != "" {
				budget = 3 * time.Second
			}
			fmt.Fprintln(w, cur.sched(ws[1:], budget))
			cur = nil
		case ws[0] == "http":
			kv := verifC08KV(ws[1:])
			fmt.Fprintln(w, verifC08HTTP(kv["kind"], kv["order"]))
		default:
			fmt.Fprintln(w, "bad-op")
		}
		w.Flush()
	}
}
