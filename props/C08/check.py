"""C08 — connection lifecycle callbacks fire once and in order; node shutdown is final.

Proof: lean/CentrifugeVerif/Props/C08.lean over Model/ConnProtoLifecycle.lean (LTS of the connect
thread, close threads, presence ticks, unsubscribes and Node.Shutdown).
Tie: gate-scheduled runs of a real Node + Client (gates inside OnConnecting, OnConnect, OnAlive,
OnDisconnect, OnUnsubscribe; actors: reader, server disconnect, transport close, presence ticks,
server-side unsubscribe, Node.Shutdown, a second connection) with schedules from ctx.rng, and the
three real transport handlers driven over httptest for the shutdown part.
Oracle: the statement evaluated on the recorded callback log.
"""
import json
import os

HARNESS = ["props/C08/harness/root/zz_verif_c08_test.go"]


# ----------------------------------------------------------------------------------------- generator
def gen_scenario(rng):
    ss = rng.choice([0, 1, 1])
    pres = rng.choice([0, 1])
    cprog = rng.choice(["c", "cs", "cs", "csu"])
    jl = 1 if ss and rng.random() < 0.4 else 0
    if rng.random() < 0.15:
        # map subscription loaded with two commands; an unsubscribe (or a close) arrives between the pages
        other = rng.choice(["U", "U", "U", "X", "V"])
        pre = ["s:C", "r:cing", "r:conn", "a:page", f"s:{other}"]
        if other in ("U", "V") and rng.random() < 0.85:
            pre.append("b:unsubwait")
        tail = ["r:page", "r:unsub", "r:unsub", "r:disc"]
        if rng.random() < 0.3:
            tail = ["s:T", "r:alive"] + tail
        return [f"reset ss=0 pres={pres} cprog=cm jl=0 map=1", "sched " + " ".join(pre + tail)]
    chains = [["s:C", "r:cing"] + (["r:join"] if jl else []) + ["r:conn"] + (["r:unsub"] if cprog == "csu" else [])]
    others = []
    if rng.random() < 0.6:
        others.append(["s:X"] + ["r:unsub"] * rng.randint(0, 2) + ["r:disc"])
    if rng.random() < 0.3:
        others.append(["s:E"] + ["r:unsub"] * rng.randint(0, 2) + ["r:disc"])
    if rng.random() < 0.5:
        others.append(["s:T", "r:alive"])
        if rng.random() < 0.4:
            others.append(["s:T2", "r:alive"])
    if rng.random() < 0.35:
        others.append(["s:D", "r:alive", "r:alive"][: rng.randint(2, 3)])
    if rng.random() < 0.35:
        others.append(["s:U", "r:unsub"])
    if rng.random() < 0.25:
        others.append(["s:V", "r:unsub", "r:unsub"])
    if rng.random() < 0.35:
        tail = ["w:S"] if rng.random() < 0.5 else []
        if rng.random() < 0.6:
            tail.append("s:N")
        others.append(["s:S"] + ["r:unsub"] * rng.randint(0, 2) + ["r:disc"] + tail)
    rng.shuffle(others)
    chains += others
    # random interleaving that keeps every chain's own order; actors other than C mostly start
    # after the connect command has reached OnConnecting
    seq = []
    idx = [0] * len(chains)
    bias_first = rng.random() < 0.7
    hold = rng.choice([0, 1, 2, 3, 3, 3])    # how far the reader gets before the others may start
    while any(i < len(c) for i, c in zip(idx, chains)):
        cand = [k for k, c in enumerate(chains) if idx[k] < len(c)]
        if bias_first and idx[0] < min(hold, len(chains[0])):
            k = 0
        else:
            k = rng.choice(cand)
        seq.append(chains[k][idx[k]])
        idx[k] += 1
    if jl and rng.random() < 0.5:
        # a close that runs to completion while the connect thread sits between connectCmd and triggerConnect
        closer = rng.choice(["X", "E", "S"])
        seq = ["s:C", "r:cing", "a:join", f"s:{closer}", f"w:{closer}", "r:join"] + \
            [l for l in seq if l not in ("s:C", "r:cing", "r:join", f"s:{closer}")]
    return [f"reset ss={ss} pres={pres} cprog={cprog} jl={jl}", "sched " + " ".join(seq)]


HTTP_OPS = ["http kind=websocket order=after", "http kind=websocket order=racing", "http kind=sse order=after",
            "http kind=http_stream order=after"]


# ----------------------------------------------------------------------------------------- oracle
def kvs(line):
    return dict(w.split("=", 1) for w in line.split() if "=" in w)


def oracle_sched(reset, sched, out):
    """The statement on the callback log.  None, or (message, signature)."""
    if out in ("HARNESS-TIMEOUT", "<missing>"):
        return None
    kv = kvs(out)
    ev = [e for e in kv.get("log", "").split(",") if e]
    pos = {}
    for i, e in enumerate(ev):
        pos.setdefault(e, []).append(i)
    first = lambda n: pos[n][0] if n in pos else None
    if len(pos.get("connect+", [])) > 1:
        return "connect callback ran more than once", {"kind": "connect-twice"}
    cplus = first("connect+")
    for i, e in enumerate(ev):
        if e.endswith("+") and (e.startswith(("alive", "disconnect", "unsub:", "sub:"))):
            if cplus is None or i < cplus:
                return f"callback {e[:-1]} ran before/without the connect callback", \
                    {"kind": "callback-before-connect", "callback": e.split(":")[0].rstrip("+")}
    if cplus is not None:
        # close() and triggerConnect are serialised by connectMu and closed is absorbing (model: `Inv.incb`,
        # `shutdown_final_partial`): once a close() call has returned the connect callback must not start
        for closer in ("end:X", "end:E", "shutdown-done"):
            p = first(closer)
            if closer == "shutdown-done" and kv.get("after", "-").split("/")[0] != "closed":
                continue       # Shutdown did not reach this client (not in the hub): that is finding C08-4's territory
            if p is not None and p < cplus and first("start:C") is not None and first("start:C") < p:
                return f"connect callback started after {closer.split(':')[-1]} had closed the connection", \
                    {"kind": "connect-after-close"}
    if "s:D" not in sched.split():
        # presence timers are armed only after the connect callback returned (scheduleOnConnectTimers runs
        # after triggerConnect); the directly started ticks of actor D bypass the timer, hence the exclusion
        cminus0 = first("connect-")
        for i, e in enumerate(ev):
            if e == "alive+" and (cminus0 is None or i < cminus0):
                return "alive callback ran while the connect callback had not returned", {"kind": "alive-during-connect"}
    if len(pos.get("disconnect+", [])) > 1:
        return "disconnect callback ran more than once", {"kind": "disconnect-twice"}
    dplus = first("disconnect+")
    if dplus is not None:
        cminus = first("connect-")
        if cminus is None or dplus < cminus:
            return "disconnect callback ran although the connect callback had not completed", \
                {"kind": "disconnect-before-connect"}
        for i, e in enumerate(ev):
            if e in ("alive+", "alive-") and i > dplus:
                return "alive callback running after the disconnect callback started", {"kind": "alive-after-disconnect"}
    est = [x for x in kv.get("est", "-").split(",") if x and x != "-"]
    cleanup = first("cleanup")
    enders_all = ["start:X", "start:E", "start:S"]
    for sub in ("c1", "s1", "m1"):
        n = len(pos.get(f"unsub:{sub}+", []))
        if n > 1:
            return f"unsubscribe callback ran {n} times for {sub}", {"kind": "unsub-twice", "sub": sub}
        if sub not in est:
            if n != 0:
                return f"unsubscribe callback for {sub} which was never established", {"kind": "unsub-unestablished", "sub": sub}
            continue
        enders = enders_all + (["start:U", "start:V"] if (sub == "s1" or "ss=0" in reset) else [])
        if "map=1" in reset:
            enders = enders_all + (["start:U", "start:V"] if sub == "m1" else [])
        starts = [first(x) for x in enders if first(x) is not None]
        if cplus is not None and all(cplus < s for s in starts) and n != 1:
            return f"established subscription {sub} ended but its unsubscribe callback ran {n} times", \
                {"kind": "unsub-missing", "sub": sub}
    sd = first("shutdown-done")
    if sd is not None:
        after = kv.get("after", "-").split("/")
        if "connected" in after:
            return "a connection is still connected when Node.Shutdown returns", \
                {"kind": "connected-after-shutdown", "transport": "custom", "how": "stays"}
        for name in ("connect-", "connect2-"):
            p = first(name)
            if p is not None and p > sd:
                return "a connection became connected after Node.Shutdown completed", \
                    {"kind": "connected-after-shutdown", "transport": "custom", "how": "becomes"}
    if kv.get("final") != "closed":
        return "connection not closed after its close function ran", {"kind": "not-closed"}
    return None


def oracle_http(op, out):
    if out in ("<missing>",):
        return None
    kv = kvs(out)
    if kv.get("connected_after_shutdown") == "1":
        tr = kv["kind"] + ("-racing" if kv.get("order") == "racing" else "")
        return f"{tr}: a connection became connected after Node.Shutdown completed", \
            {"kind": "connected-after-shutdown", "transport": tr, "how": "becomes"}
    return None


def run(ctx):
    ctx.rule = ("random gate schedules: actors (reader with connect/subscribe/unsubscribe, server disconnect, transport "
                "close, two presence ticks, server-side unsubscribe, Node.Shutdown, second connection) x release order of "
                "the gates inside OnConnecting/OnConnect/OnAlive/OnDisconnect/OnUnsubscribe, with/without server-side "
                "subscription and presence; plus the three real handlers over httptest after / racing Node.Shutdown; "
                "non-trivial = at least two actors and the connect callback ran; distinct = distinct callback log")
    ctx.assumptions = [
        "presence ticks are driven by calling Client.updatePresence (what the presence timer runs); timers themselves are C36",
        "a schedule label that cannot be executed in its real-time budget switches the scenario to free-run; the log is a "
        "real trace either way, so this affects only which interleavings are explored",
        "'runs before' is read as 'starts before' for the connect callback versus the callbacks it registers"]
    proofs_ok = ctx.lean_obligations()
    binary = ctx.go_test_binary(".", HARNESS)
    if binary is None:
        ctx.violation("correspondence", "harness no longer builds against package centrifuge",
                      signature={"kind": "harness-build"}, replay={"log": getattr(ctx, "build_error", "")}, no_input=True)
        return
    here = os.path.dirname(__file__)
    known = []
    fpath = os.path.join(here, "findings.json")
    if os.path.exists(fpath) and not ctx.replay:
        known = json.load(open(fpath)).get("findings", [])
    if ctx.replay:
        ops = json.load(open(ctx.replay)).get("ops", [])
    else:
        ops = []
        for f in known:                      # replays of known *and fixed* findings always run: a known one must
            ops += f["replay"]["ops"]        # still reproduce, a fixed one must not (a regression is a VIOLATION)
        ops += [l.rstrip("\n") for l in open(os.path.join(here, "corpus.ops")) if l.strip() and not l.startswith("#")]
        ops += HTTP_OPS
        for _ in range(ctx.scale(200, 4000)):
            ops += gen_scenario(ctx.rng)
    env = {"VERIF_C08_STRICT": "1"} if ctx.replay else None
    impl = ctx.go_run(binary, "TestVerifC08", ops, env=env)
    if ctx.last_go_crash:
        ctx.notes.append("go harness: " + str(ctx.last_go_crash)[-800:])
    impl += ["<missing>"] * (len(ops) - len(impl))
    seen_logs = set()
    nviol = 0
    reset = None
    for op, out in zip(ops, impl):
        if op.startswith("reset"):
            reset = op
            continue
        if op.startswith("http"):
            ctx.record(op + " -> " + out, nontrivial=True)
            ctx.count("http:" + kvs(op).get("kind", "?") + "/" + kvs(op).get("order", "?"))
            bad = oracle_http(op, out)
            if bad:
                ctx.violation("property", bad[0], signature=bad[1], replay={"ops": [op], "impl": [out]})
            continue
        if not op.startswith("sched"):
            continue
        if out == "HARNESS-TIMEOUT" or out == "<missing>":
            ctx.count("dropped(harness timeout)")
            continue
        kv = kvs(out)
        log = kv.get("log", "")
        nactors = sum(1 for l in op.split() if l.startswith("s:"))
        nontrivial = nactors >= 2 and "connect+" in log
        if log not in seen_logs:
            seen_logs.add(log)
            ctx.record(log, nontrivial=nontrivial)
        else:
            ctx.evaluations += 1
        ctx.count("feasible" if kv.get("infeasible") == "-" else "infeasible-suffix")
        for l in op.split()[1:]:
            if l.startswith("s:"):
                ctx.count("actor:" + l[2:])
        for e in set(log.split(",")):
            if e.endswith("+"):
                ctx.count("callback:" + e.split(":")[0].rstrip("+"))
        bad = oracle_sched(reset or "", op, out)
        if bad:
            nviol += 1
            ctx.violation("property", bad[0], signature=bad[1], replay={"ops": [reset, op], "impl": [out]})
    # the proven predicate (Lifecycle.scan … .ok, theorem `callbacks`) evaluated by the Lean driver on the
    # implementation's callback logs: must hold on every real trace and agree with the Python oracle
    smap = {"connect+": "connect+", "connect-": "connect-", "alive+": "alive+", "alive-": "alive-",
            "disconnect+": "disconnect+", "disconnect-": "disconnect-", "unsub:s1+": "unsub:0", "unsub:c1+": "unsub:1", "unsub:m1+": "unsub:2"}
    sops, sctx = [], []
    for op, out in zip(ops, impl):
        if op.startswith("sched") and out not in ("HARNESS-TIMEOUT", "<missing>"):
            evs = [smap[e] for e in kvs(out).get("log", "").split(",") if e in smap]
            sops.append("scan " + " ".join(evs))
            sctx.append((op, out))
    if sops:
        mout = ctx.lean_run(sops)
        if mout is None:
            proofs_ok = False
        else:
            for (op, out), line, got in zip(sctx, sops, mout):
                if got != "ok=1":
                    ctx.violation("property", f"callback log violates the ordering predicate proved for the model ({got}): {line}",
                                  signature={"kind": "scan-not-ok"}, replay={"ops": [op], "impl": [out], "scan": line})
            ctx.count("logs-checked-by-lean-predicate", len(mout))
    ctx.traces_validated = len(sops)
    ctx.extra["distinct_callback_logs"] = len(seen_logs)
    for f in known:
        if f.get("status") == "known" and f["id"] not in [k.get("id") for k in ctx.known_hits]:
            ctx.notes.append(f"finding {f['id']} did not reproduce on this tree")
    if not proofs_ok:
        ctx.proof_broken()
