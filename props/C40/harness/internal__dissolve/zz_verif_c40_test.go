//go:build verif

package dissolve

// Verification harness for C40 (injected with `go test -overlay`, never part of the repo).
//
// Concurrent scenarios run on the real Dissolver inside a testing/synctest bubble.  Jobs are
// closures that record their start and then block on a gate; after every operation the harness
// calls synctest.Wait(), i.e. it observes the system only when every worker is durably blocked
// (parked in cond.Wait or inside a gated job).  No sleeps, no timeouts.
//
//   reset W | submit | finish j ok|fail | close
//   -> acc=… started=… running=… cnt=… len=… head=… tail=… closed=… runs=… panic=0
//
// Sequential white-box ops on queueImpl:  q.new C | q.add j | q.rem | q.close
//   -> r=… cnt=… len=… head=… tail=… closed=…   or PANIC
//
// Free-running (ungated) stress:  stress W f0,f1,…   (job k fails f_k times, then succeeds)
//   -> stress runs=c0,c1,… bad=…

import (
	"bufio"
	"errors"
	"fmt"
	"os"
	"sort"
	"strconv"
	"strings"
	"sync"
	"testing"
	"testing/synctest"
)

type verifC40Scn struct {
	d       *Dissolver
	mu      sync.Mutex
	started []int
	gates   map[int]chan bool
	nsub    int
	runs    int
}

func verifC40Ints(xs []int) string {
	if len(xs) == 0 {
		return "-"
	}
	sort.Ints(xs)
	ss := make([]string, len(xs))
	for i, x := range xs {
		ss[i] = strconv.Itoa(x)
	}
	return strings.Join(ss, ",")
}

func verifC40QLine(q *queueImpl) string {
	q.mu.RLock()
	defer q.mu.RUnlock()
	c := 0
	if q.closed {
		c = 1
	}
	return fmt.Sprintf("cnt=%d len=%d head=%d tail=%d closed=%d", q.cnt, len(q.nodes), q.head, q.tail, c)
}

func (s *verifC40Scn) obs(acc string) string {
	synctest.Wait()
	s.mu.Lock()
	defer s.mu.Unlock()
	st := s.started
	s.started = nil
	run := make([]int, 0, len(s.gates))
	for j := range s.gates {
		run = append(run, j)
	}
	return fmt.Sprintf("acc=%s started=%s running=%s %s runs=%d panic=0", acc, verifC40Ints(st), verifC40Ints(run),
		verifC40QLine(s.d.queue.(*queueImpl)), s.runs)
}

func (s *verifC40Scn) job(j int) Job {
	return func() error {
		g := make(chan bool)
		s.mu.Lock()
		s.started = append(s.started, j)
		if _, dup := s.gates[j]; dup {
			// the same job is being executed twice at once: make it visible as a second start
			s.started = append(s.started, j)
		}
		s.gates[j] = g
		s.mu.Unlock()
		ok := <-g
		if ok {
			return nil
		}
		return errors.New("scripted failure")
	}
}

func (s *verifC40Scn) op(ws []string) string {
	switch ws[0] {
	case "submit":
		j := s.nsub
		s.nsub++
		err := s.d.Submit(s.job(j))
		if err != nil {
			return s.obs("0")
		}
		return s.obs("1")
	case "finish":
		if len(ws) != 3 {
			return "bad-op"
		}
		j, err := strconv.Atoi(ws[1])
		if err != nil {
			return "bad-op"
		}
		s.mu.Lock()
		g, ok := s.gates[j]
		if ok {
			delete(s.gates, j)
			s.runs++
		}
		s.mu.Unlock()
		if !ok {
			return "disabled"
		}
		g <- ws[2] == "ok"
		return s.obs("-")
	case "close":
		_ = s.d.Close()
		return s.obs("-")
	}
	return "bad-op"
}

// one scenario = lines[0] ("reset W") and the following ops; runs in its own bubble.
func verifC40Scenario(t *testing.T, lines []string) (out []string) {
	defer func() {
		if r := recover(); r != nil {
			for len(out) < len(lines) {
				out = append(out, fmt.Sprintf("PANIC %v", r))
			}
		}
	}()
	synctest.Test(t, func(t *testing.T) {
		ws := strings.Fields(lines[0])
		w, _ := strconv.Atoi(ws[1])
		s := &verifC40Scn{d: New(w), gates: map[int]chan bool{}}
		_ = s.d.Run()
		out = append(out, s.obs("-"))
		for _, l := range lines[1:] {
			out = append(out, s.op(strings.Fields(l)))
		}
		// tear down: close, let every gated job return success so that all workers exit
		_ = s.d.Close()
		for i := 0; i < 1000; i++ {
			synctest.Wait()
			s.mu.Lock()
			gs := s.gates
			s.gates = map[int]chan bool{}
			s.mu.Unlock()
			if len(gs) == 0 {
				break
			}
			for _, g := range gs {
				g <- true
			}
		}
	})
	return out
}

func verifC40Stress(t *testing.T, ws []string) (res string) {
	defer func() {
		if r := recover(); r != nil {
			res = fmt.Sprintf("stress DEADLOCK-OR-PANIC %v", r)
		}
	}()
	w, _ := strconv.Atoi(ws[1])
	var fails []int
	for _, f := range strings.Split(ws[2], ",") {
		x, _ := strconv.Atoi(f)
		fails = append(fails, x)
	}
	n := len(fails)
	counts := make([]int, n)
	bad := 0
	synctest.Test(t, func(t *testing.T) {
		d := New(w)
		_ = d.Run()
		var mu sync.Mutex
		done := make([]bool, n)
		active := make([]bool, n)
		var wg sync.WaitGroup
		wg.Add(n)
		var sub sync.WaitGroup
		for p := 0; p < 4; p++ {
			sub.Add(1)
			go func(p int) {
				defer sub.Done()
				for j := p; j < n; j += 4 {
					j := j
					err := d.Submit(func() error {
						mu.Lock()
						if done[j] || active[j] {
							bad++ // executed after success, or twice at the same time
						}
						active[j] = true
						counts[j]++
						c := counts[j]
						mu.Unlock()
						defer func() { mu.Lock(); active[j] = false; mu.Unlock() }()
						if c <= fails[j] {
							return errors.New("scripted failure")
						}
						mu.Lock()
						done[j] = true
						mu.Unlock()
						wg.Done()
						return nil
					})
					if err != nil {
						mu.Lock()
						bad++
						mu.Unlock()
					}
				}
			}(p)
		}
		sub.Wait()
		wg.Wait() // a lost job leaves every goroutine durably blocked: synctest reports the deadlock
		_ = d.Close()
		synctest.Wait()
	})
	cs := make([]string, n)
	for i, c := range counts {
		cs[i] = strconv.Itoa(c)
	}
	return fmt.Sprintf("stress runs=%s bad=%d", strings.Join(cs, ","), bad)
}

type verifC40Seq struct {
	q    *queueImpl
	dead bool
}

func (s *verifC40Seq) op(ws []string) (res string) {
	defer func() {
		if r := recover(); r != nil {
			s.dead = true
			res = "PANIC"
		}
	}()
	if ws[0] == "q.new" {
		c, _ := strconv.Atoi(ws[1])
		q := &queueImpl{initCap: c, nodes: make([]Job, c)}
		q.cond = sync.NewCond(&q.mu)
		s.q, s.dead = q, false
		return "r=- " + verifC40QLine(q)
	}
	if s.dead || s.q == nil {
		return "PANIC"
	}
	switch ws[0] {
	case "q.add":
		j, _ := strconv.Atoi(ws[1])
		ok := s.q.Add(func() error { return fmt.Errorf("%d", j) })
		r := "0"
		if ok {
			r = "1"
		}
		return "r=" + r + " " + verifC40QLine(s.q)
	case "q.rem":
		var job Job
		var ok bool
		func() {
			// Remove does not unlock on panic: do not leave the mutex held for the state dump
			defer func() {
				if r := recover(); r != nil {
					s.dead = true
				}
			}()
			job, ok = s.q.Remove()
		}()
		if s.dead {
			return "PANIC"
		}
		if !ok {
			return "r=none " + verifC40QLine(s.q)
		}
		if job == nil {
			s.dead = true
			return "PANIC"
		}
		return "r=" + job().Error() + " " + verifC40QLine(s.q)
	case "q.close":
		s.q.Close()
		return "r=- " + verifC40QLine(s.q)
	}
	return "bad-op"
}

func TestVerifC40(t *testing.T) {
	in, err := os.Open(os.Getenv("VERIF_OPS"))
	if err != nil {
		t.Skip("no VERIF_OPS")
	}
	defer in.Close()
	outf, err := os.Create(os.Getenv("VERIF_OUT"))
	if err != nil {
		t.Fatal(err)
	}
	defer outf.Close()
	w := bufio.NewWriter(outf)
	defer w.Flush()
	var lines []string
	sc := bufio.NewScanner(in)
	sc.Buffer(make([]byte, 1<<20), 1<<26)
	for sc.Scan() {
		lines = append(lines, sc.Text())
	}
	seq := &verifC40Seq{}
	for i := 0; i < len(lines); {
		l := lines[i]
		ws := strings.Fields(l)
		switch {
		case l == "" || strings.HasPrefix(l, "#"):
			fmt.Fprintln(w, "#")
			i++
		case ws[0] == "reset" && len(ws) == 2:
			j := i + 1
			for j < len(lines) {
				x := strings.Fields(lines[j])
				if len(x) == 0 || !(x[0] == "submit" || x[0] == "finish" || x[0] == "close") {
					break
				}
				j++
			}
			for _, o := range verifC40Scenario(t, lines[i:j]) {
				fmt.Fprintln(w, o)
			}
			w.Flush()
			i = j
		case ws[0] == "stress" && len(ws) == 3:
			fmt.Fprintln(w, verifC40Stress(t, ws))
			w.Flush()
			i++
		case strings.HasPrefix(ws[0], "q."):
			fmt.Fprintln(w, seq.op(ws))
			i++
		default:
			fmt.Fprintln(w, "bad-op")
			i++
		}
	}
}
