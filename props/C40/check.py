"""C40 — deferred jobs run until they succeed.

Proof: lean/CentrifugeVerif/Props/C40.lean over Model/Dissolve.lean (ring queue + worker LTS).
Tie:
 (1) sequential white-box differential of `queueImpl` (Add/Remove/Close with cnt/len/head/tail compared
     after every op, several initial capacities);
 (2) schedule-controlled trace validation of the real `Dissolver`: jobs are gated closures, the harness
     runs inside a testing/synctest bubble and observes only when every goroutine is durably blocked;
     the Lean driver applies the same visible label and the closure of the workers' internal steps;
 (3) free-running (ungated) runs with scripted failure counts.
Oracle: the property statement evaluated on the implementation's own trace (independent of the model).
"""
import itertools
import json
from vlib.core import diff_lines, ddmin

HARNESS = ["props/C40/harness/internal__dissolve/zz_verif_c40_test.go"]


# ------------------------------------------------------------------ spec-level simulation (generator aid)
class Spec:
    """Abstract behaviour at quiescent points: FIFO queue, W workers, used by the generator to know
    which `finish` ops are enabled.  Not used by the oracle."""

    def __init__(self, w):
        self.w, self.q, self.running, self.closed, self.n = w, [], [], False, 0

    def fill(self):
        while not self.closed and self.q and len(self.running) < self.w:
            self.running.append(self.q.pop(0))

    def submit(self):
        j = self.n
        self.n += 1
        if not self.closed:
            self.q.append(j)
            self.fill()

    def finish(self, j, ok):
        self.running.remove(j)
        if not ok and not self.closed:
            self.q.append(j)
        self.fill()

    def close(self):
        self.closed = True
        self.q = []


def gen_scenario(rng):
    w = rng.choice([1, 1, 2, 2, 3, 4, 8])
    sp = Spec(w)
    ops = [f"reset {w}"]
    n = rng.choice([3, 6, 10, 16, 30, 60])
    pfail = rng.choice([0.0, 0.3, 0.5, 0.8])
    psub = rng.choice([0.3, 0.5, 0.7, 0.9])
    pclose = rng.choice([0.0, 0.0, 0.03, 0.1])
    for _ in range(n):
        r = rng.random()
        if r < pclose:
            ops.append("close")
            sp.close()
        elif r < pclose + psub or not sp.running:
            if rng.random() < 0.03:
                ops.append(f"finish {rng.randint(0, sp.n + 2)} ok")  # usually not running: disabled
                if ops[-1].split()[1].isdigit() and int(ops[-1].split()[1]) in sp.running:
                    sp.finish(int(ops[-1].split()[1]), True)
                continue
            ops.append("submit")
            sp.submit()
        else:
            j = rng.choice(sp.running)
            ok = rng.random() >= pfail
            ops.append(f"finish {j} {'ok' if ok else 'fail'}")
            sp.finish(j, ok)
    # drain phase: finish everything still running (shrinks the ring again)
    if rng.random() < 0.6:
        guard = 0
        while sp.running and guard < 200:
            guard += 1
            j = rng.choice(sp.running)
            ok = rng.random() >= pfail / 2
            ops.append(f"finish {j} {'ok' if ok else 'fail'}")
            sp.finish(j, ok)
    return ops


def enum_scenarios(maxlen, ws=(1, 2)):
    """Every schedule of visible labels up to `maxlen` ops (submit / close / finish of each running
    job with each outcome), for W in `ws`."""
    out = []

    def rec(w, ops, sp, depth):
        if depth == 0:
            out.append([f"reset {w}"] + ops)
            return
        choices = [("submit",)]
        if not sp.closed:
            choices.append(("close",))
        for j in sp.running:
            choices.append(("finish", j, True))
            choices.append(("finish", j, False))
        for c in choices:
            sp2 = Spec(w)
            sp2.q, sp2.running, sp2.closed, sp2.n = list(sp.q), list(sp.running), sp.closed, sp.n
            if c[0] == "submit":
                sp2.submit()
                rec(w, ops + ["submit"], sp2, depth - 1)
            elif c[0] == "close":
                sp2.close()
                rec(w, ops + ["close"], sp2, depth - 1)
            else:
                sp2.finish(c[1], c[2])
                rec(w, ops + [f"finish {c[1]} {'ok' if c[2] else 'fail'}"], sp2, depth - 1)
    for w in ws:
        rec(w, [], Spec(w), maxlen)
    return out


def gen_seq(rng):
    c = rng.choice([2, 2, 2, 2, 1, 3, 4, 5, 8, 0])
    ops = [f"q.new {c}"]
    n = rng.choice([5, 20, 60, 200])
    nxt = 0
    bias = rng.choice([0.5, 0.7, 0.3])
    for i in range(n):
        if rng.random() < 0.1:
            bias = rng.choice([0.2, 0.5, 0.8, 0.95, 0.05])
        r = rng.random()
        if r < 0.004:
            ops.append("q.close")
        elif r < bias:
            ops.append(f"q.add {nxt}")
            nxt += 1
        else:
            ops.append("q.rem")
    return ops


def gen_stress(rng):
    w = rng.choice([1, 2, 4, 8, 64])
    n = rng.choice([1, 5, 40, 300])
    pf = rng.choice([0.0, 0.3, 0.7])
    fails = [(rng.randint(1, 4) if rng.random() < pf else 0) for _ in range(n)]
    return [f"stress {w} " + ",".join(map(str, fails))]


# ------------------------------------------------------------------ oracle on the implementation's trace
def parse_kv(line):
    return dict(w.split("=", 1) for w in line.split() if "=" in w)


def ints(s):
    return [] if s in ("-", "") else [int(x) for x in s.split(",")]


def oracle_scenario(ops, out):
    """Property statement on the real trace of one concurrent scenario.  None = holds."""
    w = int(ops[0].split()[1])
    accepted, succeeded, running, closed, nsub = set(), set(), set(), False, 0
    for i, (op, line) in enumerate(zip(ops, out)):
        if line.startswith("PANIC") or line == "<missing>":
            return "panic or crash of the implementation"
        if line in ("disabled", "bad-op"):
            continue
        kv = parse_kv(line)
        ws = op.split()
        if ws[0] == "submit":
            j = nsub
            nsub += 1
            if closed and kv["acc"] != "0":
                return "Submit accepted a job after Close"
            if not closed and kv["acc"] != "1":
                return "Submit refused a job although the queue is open"
            if kv["acc"] == "1":
                accepted.add(j)
        elif ws[0] == "finish":
            j = int(ws[1])
            running.discard(j)
            if ws[2] == "ok":
                succeeded.add(j)
        elif ws[0] == "close":
            closed = True
        started = ints(kv["started"])
        for j in started:
            if j not in accepted:
                return "a job that was never accepted was executed"
            if j in succeeded:
                return "a job was executed again after it had succeeded"
            if j in running or started.count(j) > 1:
                return "a job is executed by two workers at the same time"
            if closed:
                return "a job was dequeued and started after Close returned"
            running.add(j)
        if set(ints(kv["running"])) != running:
            return "harness bookkeeping: running set differs from start/finish events"
        pending = accepted - succeeded
        if not closed:
            # no loss + retry: everything accepted and not yet succeeded is running or still queued,
            # and no worker idles while jobs are queued
            if len(running) != min(w, len(pending)):
                return "open queue at quiescence: some worker idles although unfinished jobs exist (job lost or not retried)"
            if int(kv["cnt"]) != len(pending) - len(running):
                return "open queue at quiescence: queued count differs from accepted-unfinished-not-running jobs"
        else:
            if int(kv["cnt"]) != 0:
                return "closed queue still holds entries"
    return None


def oracle_stress(op, line):
    fails = [int(x) for x in op.split()[2].split(",")]
    if not line.startswith("stress runs="):
        return "stress run deadlocked or panicked (a job was lost)"
    kv = parse_kv(line)
    if kv["bad"] != "0":
        return "a job ran after it succeeded / twice at once / Submit failed on an open queue"
    runs = [int(x) for x in kv["runs"].split(",")]
    if runs != [f + 1 for f in fails]:
        return "a job was not executed exactly until its first success"
    return None


def oracle_seq(ops, out):
    """FIFO queue semantics on the real queueImpl (needed by the worker system, not the property
    itself; a failure here is reported as a property violation only for panics / lost entries)."""
    q, closed = [], False
    cap0 = int(ops[0].split()[1])
    for op, line in zip(ops[1:], out[1:]):
        if line == "PANIC":
            return None if cap0 == 0 else "queue operation panicked"
        kv = parse_kv(line)
        ws = op.split()
        if ws[0] == "q.add":
            if closed != (kv["r"] == "0"):
                return "Add result does not match closed state"
            if not closed:
                q.append(int(ws[1]))
        elif ws[0] == "q.rem":
            exp = "none" if not q else str(q.pop(0))
            if kv["r"] != exp:
                return "Remove did not return the oldest queued job"
        elif ws[0] == "q.close":
            closed, q = True, []
        if int(kv["cnt"]) != len(q):
            return "cnt differs from number of queued jobs"
    return None


def split_groups(ops):
    """Group op lines into scenarios: (kind, start, end)."""
    groups, i = [], 0
    while i < len(ops):
        w = ops[i].split()
        if w and w[0] == "reset":
            j = i + 1
            while j < len(ops) and ops[j].split()[:1] and ops[j].split()[0] in ("submit", "finish", "close"):
                j += 1
            groups.append(("scn", i, j))
        elif w and w[0] == "q.new":
            j = i + 1
            while j < len(ops) and ops[j].startswith("q.") and not ops[j].startswith("q.new"):
                j += 1
            groups.append(("seq", i, j))
        elif w and w[0] == "stress":
            j = i + 1
            groups.append(("stress", i, j))
        else:
            j = i + 1
            groups.append(("other", i, j))
        i = j
    return groups


def judge(kind, ops, out):
    if kind == "scn":
        return oracle_scenario(ops, out)
    if kind == "seq":
        return oracle_seq(ops, out)
    if kind == "stress":
        return oracle_stress(ops[0], out[0] if out else "<missing>")
    return None


def run(ctx):
    ctx.rule = ("(a) random schedules of visible labels (submit / finish j ok|fail / close) for W in {1,2,3,4,8} "
                "workers, generated against a FIFO spec so that finish ops are enabled, plus disabled ops; thorough "
                "tier: every schedule of 9 visible labels (and all their prefixes) for W in {1,2} and of 7 for W = 3, quick tier: of 5; (b) random Add/Remove/Close sequences on "
                "queueImpl with initial capacities 0..8 biased to oscillate around resize boundaries; (c) ungated "
                "stress runs with scripted failure counts; non-trivial = scenario with a failure, a close or a ring "
                "resize; distinct = distinct op list")
    ctx.assumptions = [
        "each mutex-protected region of queue.go is atomic (sync.Mutex), sync.Cond per its contract",
        "observation is at durably-blocked points (testing/synctest); finer interleavings are covered by the Lean "
        "transition system, not sampled",
        "reading of the statement: 'executed after the queue is closed' = dequeued after Close returned; a job a "
        "worker already holds when Close returns may still run once (DESIGN.md §4 C40)",
        "liveness ('until it succeeds') is proved as no-loss + no-lost-wakeup + FIFO position bound; scheduler fairness "
        "is assumed"]
    proofs_ok = ctx.lean_obligations()
    binary = ctx.go_test_binary("internal/dissolve", HARNESS)
    if binary is None:
        ctx.violation("correspondence", "harness no longer builds against internal/dissolve",
                      signature={"kind": "harness-build"}, replay={"log": getattr(ctx, "build_error", "")},
                      no_input=True)
        return
    if ctx.replay:
        ops = json.load(open(ctx.replay)).get("ops", [])
    else:
        ops = [l.rstrip("\n") for l in open("props/C40/corpus.ops") if l.strip() and not l.startswith("#")]
        for _ in range(ctx.scale(1500, 30000)):
            ops += gen_scenario(ctx.rng)
        for _ in range(ctx.scale(400, 8000)):
            ops += gen_seq(ctx.rng)
        for _ in range(ctx.scale(40, 1000)):
            ops += gen_stress(ctx.rng)
        for sc in enum_scenarios(ctx.scale(5, 9)):
            ops += sc
        if ctx.thorough:
            for sc in enum_scenarios(7, ws=(3,)):
                ops += sc
    impl = ctx.go_run(binary, "TestVerifC40", ops)
    crash = ctx.last_go_crash
    model = ctx.lean_run(ops)
    if model is None:
        proofs_ok = False
        model = []
    groups = split_groups(ops)

    def rerun_fails(kind):
        def f(cand):
            out = ctx.go_run(binary, "TestVerifC40", cand)
            out += ["<missing>"] * (len(cand) - len(out))
            return judge(kind, cand, out) is not None
        return f

    nviol = 0
    ndiff = 0
    for kind, a, b in groups:
        g_ops = ops[a:b]
        g_impl = impl[a:b] + ["<missing>"] * (b - a - len(impl[a:b]))
        g_model = model[a:b]
        nontriv = any(("fail" in o) or o == "close" for o in g_ops) or any(
            ("len=" in l and parse_kv(l).get("len") not in ("2", "0")) for l in g_impl if "=" in l)
        ctx.record(" ; ".join(g_ops)[:400], nontrivial=nontriv)
        ctx.count("group:" + kind)
        for o in g_ops:
            ctx.count("op:" + " ".join(o.split()[:1] + o.split()[2:3]) if kind == "scn" else "op:" + o.split()[0])
        for l in g_impl:
            if "len=" in l:
                ctx.count("ring-len:" + parse_kv(l)["len"])
        msg = judge(kind, g_ops, g_impl)
        if msg:
            nviol += 1
            if nviol <= 3:
                small = g_ops
                try:
                    if kind in ("scn", "seq") and len(g_ops) > 2:
                        head = g_ops[0]
                        fails = rerun_fails(kind)
                        if fails(g_ops):
                            rest = ddmin(g_ops[1:], lambda c: fails([head] + c))
                            small = [head] + rest
                except Exception as e:  # shrinking is best effort
                    ctx.notes.append(f"shrink failed: {e}")
                sout = ctx.go_run(binary, "TestVerifC40", small)
                smsg = judge(kind, small, sout + ["<missing>"] * (len(small) - len(sout))) or msg
                ctx.violation("property", smsg, signature={"oracle": smsg[:70], "kind": kind},
                              replay={"ops": small, "impl": sout, "original_ops": g_ops,
                                      "crash": (crash or "")[-1500:]})
        gd = [x for x in diff_lines(g_ops, g_impl, g_model)]
        if gd and g_model:
            ndiff += 1
            if ndiff <= 3:
                i, op, x, y = gd[0]
                ctx.violation("correspondence",
                              f"model and implementation differ at op {i} `{op}`: impl `{x}` model `{y}`",
                              signature={"kind": "diff", "group": kind, "op": op.split()[0]},
                              replay={"ops": g_ops, "impl": g_impl, "model": g_model,
                                      "correspondence": "Drivers/C40.lean vs internal/dissolve"},
                              no_input=(nviol == 0))
    ctx.traces_validated = len(groups)
    ctx.extra["disagreements"] = ndiff
    ctx.extra["ops"] = len(ops)
    if crash and nviol == 0 and len(impl) < len(ops):
        ctx.violation("property", "implementation process crashed (panic in a worker goroutine?)",
                      signature={"oracle": "crash"}, replay={"ops": ops[max(0, len(impl) - 50):len(impl) + 50],
                                                             "crash": crash[-3000:]})
    if not proofs_ok:
        ctx.proof_broken()
