"""C41 — survey collects one answer per node and terminates.

Proof: lean/CentrifugeVerif/Props/C41.lean over Model/Survey.lean (transition system of concurrent
Survey calls, collectors, response deliveries, deadlines).
Tie: schedule-controlled trace validation: a real running Node with a scripted Controller and survey
handler inside a testing/synctest bubble (deadlines virtual); responses in scripted orders, duplicated,
late, from unexpected nodes, from the node itself, for foreign / finished / never-issued ids, to several
concurrent surveys; the Lean driver replays the same ops through `Survey.next` and both observation
lines (id, state, channel length, registry membership, returned results) must agree after every op.
Oracle: the property statement evaluated on the implementation's own trace.
"""
import json
from vlib.core import diff_lines, ddmin

HARNESS = ["props/C41/harness/root/zz_verif_c41_test.go"]


def gen_scenario(rng):
    k = rng.choice([1, 2, 2, 3, 3, 4, 6])
    ops = [f"reset {k}"]
    n = rng.choice([4, 8, 14, 24, 40])
    surveys = []  # dict(id, num, deadline, to)
    clock = 0
    pdup = rng.choice([0.0, 0.2, 0.5])
    pforeign = rng.choice([0.05, 0.15, 0.4])
    last = None
    for _ in range(n):
        r = rng.random()
        if not surveys or (r < 0.18 and len(surveys) < 5):
            to = rng.choice(["all", "all", "all", "self", str(rng.randint(1, max(1, k)))])
            num = k if to == "all" else 1
            has_local = to in ("all", "self")
            ms = rng.choice([0, 50, 1000, 1000, 3000, 20000])
            sync = rng.choice([0, 0, 0, 1]) if has_local else 0
            if sync > num:
                sync = num
            pub = rng.choice(["ok", "ok", "ok", "fail", "hold"])
            ops.append(f"survey to={to} timeout={ms} sync={sync} pub={pub}")
            surveys.append({"id": len(surveys) + 1, "num": num, "local": has_local})
        elif r < 0.30:
            ms = rng.choice([1, 10, 49, 50, 500, 999, 1000, 1001, 2000, 9999, 10000])
            ops.append(f"tick {ms}")
            clock += ms
        elif r < 0.40:
            t = rng.randrange(len(surveys))
            ops.append(f"local {t} {rng.randint(1, 9)}")
        elif r < 0.46:
            t = rng.randrange(len(surveys))
            ops.append(f"pubrelease {t} {rng.choice(['ok', 'ok', 'fail'])}")
        else:
            if last and rng.random() < pdup:
                ops.append(last)
                continue
            if rng.random() < pforeign:
                sid = rng.choice([0, len(surveys) + 1, len(surveys) + 7, 2 ** 40, rng.randint(0, len(surveys) + 1)])
            else:
                sid = rng.choice(surveys)["id"] if rng.random() < 0.3 else surveys[-1]["id"]
            u = rng.choice(list(range(1, k)) or [1]) if rng.random() < 0.8 else rng.choice([0, k, k + 1, 9])
            last = f"resp {u} {sid} {rng.randint(1, 9)}"
            ops.append(last)
    return ops


def parse_line(line):
    """-> (r, [ {id,state,chan,reg,res} ... ])"""
    ws = line.split()
    r = ws[0][2:]
    svs = []
    for w in ws[1:]:
        _, v = w.split("=", 1)
        sid, state, chan, reg, res = v.split("/")
        svs.append({"id": int(sid), "state": state, "chan": chan, "reg": reg == "1", "res": res})
    return r, svs


def kvs(op):
    return dict(w.split("=", 1) for w in op.split()[1:] if "=" in w)


def oracle(ops, out):
    """Property statement on the real trace of one scenario.  None = holds."""
    k = int(ops[0].split()[1])
    meta = []     # per survey: num, deadline, cand set of (uid, code), answered uids, held, has_local
    clock = 0
    prev = []
    for i, (op, line) in enumerate(zip(ops, out)):
        if line.startswith("PANIC") or line == "<missing>" or line == "deadlock":
            return "panic, crash or deadlock of the implementation"
        if line == "bad-op":
            continue
        r, svs = parse_line(line)
        ws = op.split()
        if r == "BLOCKED":
            return ("a survey response delivery blocked" if ws[0] == "resp"
                    else "a local survey reply blocked while the collector could not be gone")
        if ws[0] == "survey":
            kv = kvs(op)
            num = k if kv["to"] == "all" else 1
            has_local = kv["to"] in ("all", "self")
            need_pub = (kv["to"] == "all" and k != 1) or kv["to"] not in ("all", "self")
            ms = int(kv["timeout"])
            m = {"num": num, "deadline": clock + (ms if ms else 10000), "cand": set(), "answered": set(),
                 "held": need_pub and kv["pub"] == "hold", "local": has_local,
                 "pubfail": need_pub and kv["pub"] == "fail"}
            if has_local:
                for j in range(int(kv["sync"])):
                    m["cand"].add((0, 100 + j))
                    m["answered"].add(0)
            meta.append(m)
            if len(svs) != len(meta):
                return "harness bookkeeping: survey count"
            if svs[-1]["id"] in [s["id"] for s in svs[:-1]]:
                return "two surveys got the same id"
        elif ws[0] == "tick":
            clock += int(ws[1])
        elif ws[0] == "local":
            t = int(ws[1])
            if r == "-" and t < len(meta):
                meta[t]["cand"].add((0, int(ws[2])))
                if prev[t]["state"] == "run":
                    meta[t]["answered"].add(0)
        elif ws[0] == "pubrelease":
            t = int(ws[1])
            if r == "-" and t < len(meta):
                meta[t]["held"] = False
                if ws[2] != "ok":
                    meta[t]["pubfail"] = True
        elif ws[0] == "resp":
            u, sid, code = int(ws[1]), int(ws[2]), int(ws[3])
            for t, sv in enumerate(prev):
                if sv["id"] == sid and u != 0:
                    meta[t]["cand"].add((u, code))
                    if sv["reg"] and sv["state"] == "run":
                        meta[t]["answered"].add(u)
                else:
                    # late / foreign isolation: a response for another id changes nothing here
                    if t < len(svs) and svs[t] != sv:
                        return "a response addressed to another survey id changed this survey"
            if not any(sv["id"] == sid and sv["reg"] for sv in prev) or u == 0:
                if svs != prev:
                    return "a late or foreign response changed some survey"
        # per-survey checks at this quiescent point
        for t, sv in enumerate(svs):
            m = meta[t]
            if t < len(prev) and prev[t]["state"] != "run":
                if sv["state"] != prev[t]["state"] or sv["res"] != prev[t]["res"]:
                    return "the result of a survey changed after it returned"
            if sv["state"] == "run":
                if sv["reg"] is False:
                    return "a running survey is not registered"
                if not m["held"]:
                    if len(m["answered"]) >= m["num"]:
                        return "survey did not return although every expected answer count was reached"
                    if clock >= m["deadline"]:
                        return "survey did not return although its deadline passed"
            else:
                if sv["reg"]:
                    return "a returned survey is still registered"
                if sv["state"] == "puberr":
                    if sv["res"] != "nil" or not m["pubfail"]:
                        return "publish-error return inconsistent"
                    continue
                res = [] if sv["res"] == "-" else [tuple(map(int, x.split(":"))) for x in sv["res"].split(",")]
                uids = [u for u, _ in res]
                if len(set(uids)) != len(uids):
                    return "more than one result for one node"
                if len(res) > m["num"]:
                    return "more results than expected nodes"
                for rc in res:
                    if rc not in m["cand"]:
                        return "survey returned a result that was never sent for its id"
                if sv["state"] == "ok" and len(res) != m["num"]:
                    return "survey returned without error before every expected node answered"
                if sv["state"] == "deadline" and clock < m["deadline"]:
                    return "survey reported a deadline error before its deadline"
        prev = svs
    return None


def split_scenarios(ops):
    idx = [i for i, o in enumerate(ops) if o.startswith("reset")] + [len(ops)]
    if idx[0] != 0:
        idx = [0] + idx
    return [(a, b) for a, b in zip(idx, idx[1:]) if b > a]


def run(ctx):
    ctx.rule = ("random scenarios on a node with K in {1,2,3,4,6} known nodes: up to 5 concurrent surveys (to all / self / "
                "one node, timeouts 50 ms..20 s or default, synchronous or deferred local reply, publish ok / failing / "
                "held), responses from expected, unexpected and own uid, duplicated, for active / finished / never-issued "
                "ids, virtual-time ticks around the deadlines; non-trivial = scenario containing a duplicate, foreign-id or "
                "late response or a deadline; distinct = distinct op list")
    ctx.assumptions = [
        "Controller delivers a targeted control message only to the addressed node (Controller contract); a response "
        "whose id equals an active local survey id is indistinguishable from a genuine one",
        "user survey handlers call the callback at most once per survey (a callback invoked after the collector has "
        "exited with a full channel blocks forever: modelled as a disabled label, not part of the statement)",
        "observation at durably-blocked points (testing/synctest); finer interleavings are covered by the Lean model",
        "Survey is called on a running node (numNodes ≥ 1)"]
    proofs_ok = ctx.lean_obligations()
    binary = ctx.go_test_binary(".", HARNESS)
    if binary is None:
        ctx.violation("correspondence", "harness no longer builds against package centrifuge",
                      signature={"kind": "harness-build"}, replay={"log": getattr(ctx, "build_error", "")},
                      no_input=True)
        return
    if ctx.replay:
        ops = json.load(open(ctx.replay)).get("ops", [])
    else:
        ops = [l.rstrip("\n") for l in open("props/C41/corpus.ops") if l.strip() and not l.startswith("#")]
        for _ in range(ctx.scale(500, 8000)):
            ops += gen_scenario(ctx.rng)
    impl = ctx.go_run(binary, "TestVerifC41", ops)
    crash = ctx.last_go_crash
    timed_out = "HARNESS-TIMEOUT" in impl
    if timed_out:
        impl = impl[:impl.index("HARNESS-TIMEOUT")]
        ctx.notes.append("harness watchdog fired: remaining scenarios not executed (harness error, not a violation)")
    model = ctx.lean_run(ops)
    if model is None:
        proofs_ok = False
        model = []

    def fails(cand):
        out = ctx.go_run(binary, "TestVerifC41", cand)
        if "HARNESS-TIMEOUT" in out:
            out = out[:out.index("HARNESS-TIMEOUT")]
            return oracle(cand[:len(out)], out) is not None
        out += ["<missing>"] * (len(cand) - len(out))
        return oracle(cand, out) is not None

    nviol = ndiff = dropped = 0
    scs = split_scenarios(ops)
    for a, b in scs:
        g_ops = ops[a:b]
        if timed_out and len(impl) < b:
            # cut short by the watchdog: judge what was observed, compare nothing
            dropped += 1
            part = impl[a:b]
            msg = oracle(g_ops[:len(part)], part) if part else None
            if msg:
                nviol += 1
                ctx.violation("property", msg, signature={"oracle": msg[:70]},
                              replay={"ops": g_ops, "impl": part, "note": "scenario did not finish (watchdog)"})
            continue
        g_impl = impl[a:b] + ["<missing>"] * (b - a - len(impl[a:b]))
        g_model = model[a:b]
        text = " ".join(g_impl)
        nontriv = ("deadline" in text) or any(o.startswith("resp") and g_ops.count(o) > 1 for o in g_ops) or \
            "would-block" in text
        ctx.record(" ; ".join(g_ops)[:400], nontrivial=nontriv)
        for o in g_ops:
            ctx.count("op:" + o.split()[0])
        for l in g_impl:
            if l.startswith("r="):
                ctx.count("r:" + l.split()[0][2:])
        if g_impl and g_impl[-1].startswith("r="):
            for sv in parse_line(g_impl[-1])[1]:
                ctx.count("final:" + sv["state"])
        msg = oracle(g_ops, g_impl)
        if msg:
            nviol += 1
            if nviol <= 3:
                small = g_ops
                try:
                    if len(g_ops) > 2 and fails(g_ops):
                        small = [g_ops[0]] + ddmin(g_ops[1:], lambda c: fails([g_ops[0]] + c))
                except Exception as e:
                    ctx.notes.append(f"shrink failed: {e}")
                sout = ctx.go_run(binary, "TestVerifC41", small)
                smsg = oracle(small, sout + ["<missing>"] * (len(small) - len(sout))) or msg
                ctx.violation("property", smsg, signature={"oracle": smsg[:70]},
                              replay={"ops": small, "impl": sout, "original_ops": g_ops, "crash": (crash or "")[-1500:]})
        gd = list(diff_lines(g_ops, g_impl, g_model))
        if gd and g_model:
            ndiff += 1
            if ndiff <= 3:
                i, op, x, y = gd[0]
                ctx.violation("correspondence",
                              f"model and implementation differ at op {i} `{op}`: impl `{x}` model `{y}`",
                              signature={"kind": "diff", "op": op.split()[0]},
                              replay={"ops": g_ops, "impl": g_impl, "model": g_model,
                                      "correspondence": "Drivers/C41.lean vs node.go Survey/handleSurveyResponse"},
                              no_input=(nviol == 0))
    ctx.traces_validated = len(scs) - dropped
    ctx.extra["scenarios_dropped_by_harness_timeout"] = dropped
    if scs and dropped > 0.2 * len(scs) and nviol == 0:
        ctx.violation("correspondence", "the harness could not drive more than 20% of the scenarios (watchdog)",
                      signature={"kind": "harness-timeout"}, replay={"dropped": dropped, "total": len(scs)},
                      no_input=True)
    ctx.extra["disagreements"] = ndiff
    ctx.extra["ops"] = len(ops)
    if not proofs_ok:
        ctx.proof_broken()
