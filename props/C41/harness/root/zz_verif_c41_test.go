//go:build verif

package centrifuge

// Verification harness for C41 (injected with `go test -overlay`, never part of the repo).
//
// A real, running Node with a scripted Controller and a scripted survey handler, inside a
// testing/synctest bubble (survey deadlines and the node's background tickers run on the virtual
// clock).  After every op the harness calls synctest.Wait() and prints the state of every survey
// started so far.  No sleeps, no wall-clock timeouts.
//
//   reset K                              node plus K-1 other nodes "1".."K-1" in the node registry
//   survey to=all|self|<uid> timeout=MS sync=k pub=ok|fail|hold
//   local t code                         the stored local callback of survey t is invoked
//   resp uid id code                     HandleControl(SurveyResponse{Id:id,Code:code} from node uid); uid 0 = own uid
//   tick MS                              virtual time passes
//   pubrelease t ok|fail                 a held PublishControl of survey t returns
//
// Output: `r=<op result> t0=<id>/<state>/<chanlen>/<registered>/<results> t1=…`

import (
	"bufio"
	"context"
	"errors"
	"fmt"
	"os"
	"sort"
	"strconv"
	"strings"
	"sync"
	"testing"
	"testing/synctest"
	"time"

	"github.com/centrifugal/centrifuge/internal/controlpb"
)

type verifC41Survey struct {
	id       uint64
	ch       chan survey
	cb       SurveyCallback
	done     bool
	res      map[string]SurveyResult
	err      error
	pubGate  chan error
	pubMode  string
	syncK    int
	syncCode uint32
}

type verifC41Scn struct {
	n   *Node
	mu  sync.Mutex
	svs []*verifC41Survey
	k   int
}

type verifC41Controller struct{ s *verifC41Scn }

func (c *verifC41Controller) RegisterControlEventHandler(ControlEventHandler) error { return nil }

func (c *verifC41Controller) PublishControl(data []byte, nodeID, shardKey string) error {
	cmd, err := c.s.n.controlDecoder.DecodeCommand(data)
	if err != nil || cmd.SurveyRequest == nil {
		return nil
	}
	c.s.mu.Lock()
	var sv *verifC41Survey
	for _, x := range c.s.svs {
		if x.id == cmd.SurveyRequest.Id {
			sv = x
		}
	}
	c.s.mu.Unlock()
	if sv == nil {
		return nil
	}
	switch sv.pubMode {
	case "fail":
		return errors.New("scripted publish failure")
	case "hold":
		return <-sv.pubGate
	}
	return nil
}

func (s *verifC41Scn) uidName(u int) string {
	if u == 0 {
		return s.n.ID()
	}
	return strconv.Itoa(u)
}

func (s *verifC41Scn) uidNum(u string) string {
	if u == s.n.ID() {
		return "0"
	}
	return u
}

func (s *verifC41Scn) obs(r string) string {
	synctest.Wait()
	s.mu.Lock()
	defer s.mu.Unlock()
	parts := []string{"r=" + r}
	for t, sv := range s.svs {
		state := "run"
		res := "-"
		if sv.done {
			switch {
			case sv.err == nil:
				state = "ok"
			case errors.Is(sv.err, context.DeadlineExceeded):
				state = "deadline"
			case errors.Is(sv.err, context.Canceled):
				state = "canceled"
			default:
				state = "puberr"
			}
			if sv.res == nil {
				res = "nil"
			} else {
				var xs []string
				for u, r := range sv.res {
					xs = append(xs, s.uidNum(u)+":"+strconv.Itoa(int(r.Code)))
				}
				sort.Strings(xs)
				if len(xs) > 0 {
					res = strings.Join(xs, ",")
				}
			}
		}
		s.n.surveyMu.RLock()
		_, reg := s.n.surveyRegistry[sv.id]
		s.n.surveyMu.RUnlock()
		r := 0
		if reg {
			r = 1
		}
		chanLen := strconv.Itoa(len(sv.ch))
		if state == "puberr" {
			// Survey returned without waiting for the collector and the context got cancelled: whether
			// the collector's select takes a buffered reply or ctx.Done first is Go's random choice
			chanLen = "*"
		}
		parts = append(parts, fmt.Sprintf("t%d=%d/%s/%s/%d/%s", t, sv.id, state, chanLen, r, res))
	}
	return strings.Join(parts, " ")
}

func verifC41KV(ws []string, k string) string {
	for _, w := range ws {
		if strings.HasPrefix(w, k+"=") {
			return w[len(k)+1:]
		}
	}
	return ""
}

func (s *verifC41Scn) op(ws []string) string {
	switch ws[0] {
	case "survey":
		to := verifC41KV(ws, "to")
		ms, _ := strconv.Atoi(verifC41KV(ws, "timeout"))
		syncK, _ := strconv.Atoi(verifC41KV(ws, "sync"))
		sv := &verifC41Survey{pubMode: verifC41KV(ws, "pub"), pubGate: make(chan error), syncK: syncK, syncCode: 100}
		toID := ""
		switch to {
		case "all":
		case "self":
			toID = s.n.ID()
		default:
			toID = to
		}
		// keep the other nodes fresh in the registry (the node's cleaner runs on the virtual clock)
		for i := 1; i < s.k; i++ {
			s.n.nodes.add(&controlpb.Node{Uid: strconv.Itoa(i)})
		}
		s.mu.Lock()
		t := len(s.svs)
		s.svs = append(s.svs, sv)
		// the id this call will get: surveys are started one at a time
		s.n.surveyMu.RLock()
		sv.id = s.n.surveyID + 1
		s.n.surveyMu.RUnlock()
		s.mu.Unlock()
		go func() {
			ctx := context.Background()
			if ms > 0 {
				var cancel context.CancelFunc
				ctx, cancel = context.WithTimeout(ctx, time.Duration(ms)*time.Millisecond)
				defer cancel()
			}
			res, err := s.n.Survey(ctx, "verif", []byte(strconv.Itoa(t)), toID)
			s.mu.Lock()
			sv.res, sv.err, sv.done = res, err, true
			s.mu.Unlock()
		}()
		synctest.Wait()
		s.mu.Lock()
		s.n.surveyMu.RLock()
		if sv.ch == nil {
			sv.ch = s.n.surveyRegistry[sv.id]
		}
		s.n.surveyMu.RUnlock()
		s.mu.Unlock()
		return s.obs("-")
	case "local":
		t, _ := strconv.Atoi(ws[1])
		code, _ := strconv.Atoi(ws[2])
		s.mu.Lock()
		var sv *verifC41Survey
		if t < len(s.svs) {
			sv = s.svs[t]
		}
		s.mu.Unlock()
		if sv == nil || sv.cb == nil {
			return s.obs("nocb")
		}
		s.mu.Lock()
		pubErr := sv.done && sv.err != nil && !errors.Is(sv.err, context.DeadlineExceeded) && !errors.Is(sv.err, context.Canceled)
		s.mu.Unlock()
		if pubErr {
			// after a publish error the collector races with the cancelled context (see obs): the
			// channel content is not determined, so a late local reply is not exercised here
			return s.obs("skipped")
		}
		if sv.ch != nil && len(sv.ch) == cap(sv.ch) {
			// every goroutine is durably blocked and the channel is full: nobody will ever read
			return s.obs("would-block")
		}
		done := make(chan struct{})
		go func() { sv.cb(SurveyReply{Code: uint32(code)}); close(done) }()
		synctest.Wait()
		select {
		case <-done:
			return s.obs("-")
		default:
			return s.obs("BLOCKED")
		}
	case "resp":
		u, _ := strconv.Atoi(ws[1])
		id, _ := strconv.ParseUint(ws[2], 10, 64)
		code, _ := strconv.Atoi(ws[3])
		data, err := s.n.controlEncoder.EncodeCommand(&controlpb.Command{
			Uid:            s.uidName(u),
			SurveyResponse: &controlpb.SurveyResponse{Id: id, Code: uint32(code)},
		})
		if err != nil {
			return "bad-op"
		}
		done := make(chan struct{})
		go func() { _ = s.n.HandleControl(data); close(done) }()
		synctest.Wait()
		select {
		case <-done:
			return s.obs("-")
		default:
			return s.obs("BLOCKED")
		}
	case "tick":
		ms, _ := strconv.Atoi(ws[1])
		time.Sleep(time.Duration(ms) * time.Millisecond)
		return s.obs("-")
	case "pubrelease":
		t, _ := strconv.Atoi(ws[1])
		s.mu.Lock()
		var sv *verifC41Survey
		if t < len(s.svs) {
			sv = s.svs[t]
		}
		s.mu.Unlock()
		if sv == nil {
			return s.obs("disabled")
		}
		var e error
		if ws[2] != "ok" {
			e = errors.New("scripted publish failure")
		}
		select {
		case sv.pubGate <- e:
			return s.obs("-")
		default:
			return s.obs("disabled")
		}
	}
	return "bad-op"
}

func verifC41Scenario(t *testing.T, lines []string, emit func(string)) {
	cnt := 0
	out := verifC41Out{emit: emit, n: &cnt}
	defer func() {
		if r := recover(); r != nil {
			for cnt < len(lines) {
				out.add(fmt.Sprintf("PANIC %v", r))
			}
		}
	}()
	synctest.Test(t, func(t *testing.T) {
		ws := strings.Fields(lines[0])
		k, _ := strconv.Atoi(ws[1])
		n, err := New(Config{LogLevel: LogLevelNone})
		if err != nil {
			panic(err)
		}
		s := &verifC41Scn{n: n, k: k}
		n.SetController(&verifC41Controller{s: s})
		n.OnSurvey(func(ev SurveyEvent, cb SurveyCallback) {
			t, _ := strconv.Atoi(string(ev.Data))
			s.mu.Lock()
			sv := s.svs[t]
			sv.cb = cb
			s.mu.Unlock()
			// capture the channel now: a survey that fails to publish unregisters before we look
			s.n.surveyMu.RLock()
			sv.ch = s.n.surveyRegistry[sv.id]
			s.n.surveyMu.RUnlock()
			for i := 0; i < sv.syncK; i++ {
				cb(SurveyReply{Code: sv.syncCode + uint32(i)})
			}
		})
		if err := n.Run(); err != nil {
			panic(err)
		}
		out.add(s.obs("-"))
		for _, l := range lines[1:] {
			out.add(s.op(strings.Fields(l)))
		}
		// tear down: release held publishes, let deadlines pass, stop the node
		for _, sv := range s.svs {
			select {
			case sv.pubGate <- nil:
			default:
			}
		}
		time.Sleep(30 * time.Second)
		synctest.Wait()
		_ = n.Shutdown(context.Background())
		synctest.Wait()
	})
}

type verifC41Out struct {
	emit func(string)
	n    *int
}

func (o verifC41Out) add(l string) {
	*o.n++
	o.emit(l)
}


// ---------------------------------------------------------------------------------------------
// Multi-node part: K real running Nodes on an in-process control bus.  PublishControl(data, nodeID, _)
// delivers to nodeID only, or to every node when nodeID is empty (the Controller contract).  Nodes
// learn about each other through their own node-info commands.  Survey handlers on every node keep
// the callback; `breply r t code` makes node r answer survey t (through the real handleSurveyRequest
// callback, i.e. the real addressing of the response).
//
//   bus K | bsurvey n timeoutMS | breply r t code | btick MS
//   -> r=… b0=<issuer>/<id>/<state>/<results as responder:code> …

type verifC41BusSurvey struct {
	issuer int
	id     uint64
	done   bool
	res    map[string]SurveyResult
	err    error
	cbs    map[int]SurveyCallback
}

type verifC41Bus struct {
	mu    sync.Mutex
	nodes []*Node
	svs   []*verifC41BusSurvey
}

type verifC41BusController struct {
	b *verifC41Bus
}

func (c *verifC41BusController) RegisterControlEventHandler(ControlEventHandler) error { return nil }

func (c *verifC41BusController) PublishControl(data []byte, nodeID, _ string) error {
	c.b.mu.Lock()
	nodes := append([]*Node(nil), c.b.nodes...)
	c.b.mu.Unlock()
	for _, n := range nodes {
		if nodeID == "" || nodeID == n.ID() {
			_ = n.HandleControl(data)
		}
	}
	return nil
}

func (b *verifC41Bus) idx(uid string) string {
	for i, n := range b.nodes {
		if n.ID() == uid {
			return strconv.Itoa(i)
		}
	}
	return "?"
}

func (b *verifC41Bus) obs(r string) string {
	synctest.Wait()
	b.mu.Lock()
	defer b.mu.Unlock()
	parts := []string{"r=" + r}
	for t, sv := range b.svs {
		state, res := "run", "-"
		if sv.done {
			switch {
			case sv.err == nil:
				state = "ok"
			case errors.Is(sv.err, context.DeadlineExceeded):
				state = "deadline"
			default:
				state = "err"
			}
			var xs []string
			for u, r := range sv.res {
				xs = append(xs, b.idx(u)+":"+strconv.Itoa(int(r.Code)))
			}
			sort.Strings(xs)
			if len(xs) > 0 {
				res = strings.Join(xs, ",")
			}
		}
		parts = append(parts, fmt.Sprintf("b%d=%d/%d/%s/%s", t, sv.issuer, sv.id, state, res))
	}
	return strings.Join(parts, " ")
}

func (b *verifC41Bus) op(ws []string) string {
	switch ws[0] {
	case "bsurvey":
		if len(ws) != 3 {
			return "bad-op"
		}
		ni, _ := strconv.Atoi(ws[1])
		ms, _ := strconv.Atoi(ws[2])
		if ni < 0 || ni >= len(b.nodes) {
			return "bad-op"
		}
		n := b.nodes[ni]
		sv := &verifC41BusSurvey{issuer: ni, cbs: map[int]SurveyCallback{}}
		b.mu.Lock()
		t := len(b.svs)
		b.svs = append(b.svs, sv)
		n.surveyMu.RLock()
		sv.id = n.surveyID + 1
		n.surveyMu.RUnlock()
		b.mu.Unlock()
		go func() {
			ctx, cancel := context.WithTimeout(context.Background(), time.Duration(ms)*time.Millisecond)
			defer cancel()
			res, err := n.Survey(ctx, "verif", []byte(strconv.Itoa(t)), "")
			b.mu.Lock()
			sv.res, sv.err, sv.done = res, err, true
			b.mu.Unlock()
		}()
		return b.obs("-")
	case "breply":
		if len(ws) != 4 {
			return "bad-op"
		}
		r, _ := strconv.Atoi(ws[1])
		t, _ := strconv.Atoi(ws[2])
		code, _ := strconv.Atoi(ws[3])
		b.mu.Lock()
		var cb SurveyCallback
		if t >= 0 && t < len(b.svs) {
			cb = b.svs[t].cbs[r]
			delete(b.svs[t].cbs, r)
		}
		b.mu.Unlock()
		if cb == nil {
			return b.obs("nocb")
		}
		done := make(chan struct{})
		go func() { cb(SurveyReply{Code: uint32(code)}); close(done) }()
		synctest.Wait()
		select {
		case <-done:
			return b.obs("-")
		default:
			return b.obs("BLOCKED")
		}
	case "btick":
		ms, _ := strconv.Atoi(ws[1])
		time.Sleep(time.Duration(ms) * time.Millisecond)
		return b.obs("-")
	}
	return "bad-op"
}

func verifC41BusScenario(t *testing.T, lines []string, emit func(string)) {
	cnt := 0
	out := verifC41Out{emit: emit, n: &cnt}
	defer func() {
		if r := recover(); r != nil {
			for cnt < len(lines) {
				out.add(fmt.Sprintf("PANIC %v", r))
			}
		}
	}()
	synctest.Test(t, func(t *testing.T) {
		ws := strings.Fields(lines[0])
		k, _ := strconv.Atoi(ws[1])
		b := &verifC41Bus{}
		for i := 0; i < k; i++ {
			n, err := New(Config{LogLevel: LogLevelNone})
			if err != nil {
				panic(err)
			}
			n.SetController(&verifC41BusController{b: b})
			ni := i
			n.OnSurvey(func(ev SurveyEvent, cb SurveyCallback) {
				t, _ := strconv.Atoi(string(ev.Data))
				b.mu.Lock()
				if t < len(b.svs) {
					b.svs[t].cbs[ni] = cb
				}
				b.mu.Unlock()
			})
			b.mu.Lock()
			b.nodes = append(b.nodes, n)
			b.mu.Unlock()
		}
		for _, n := range b.nodes {
			if err := n.Run(); err != nil {
				panic(err)
			}
		}
		synctest.Wait()
		sizes := ""
		for _, n := range b.nodes {
			sizes += strconv.Itoa(n.nodes.size())
		}
		out.add(b.obs("nodes" + sizes))
		for _, l := range lines[1:] {
			out.add(b.op(strings.Fields(l)))
		}
		time.Sleep(30 * time.Second)
		synctest.Wait()
		for _, n := range b.nodes {
			_ = n.Shutdown(context.Background())
		}
		synctest.Wait()
	})
}

func TestVerifC41(t *testing.T) {
	in, err := os.Open(os.Getenv("VERIF_OPS"))
	if err != nil {
		t.Skip("no VERIF_OPS")
	}
	defer in.Close()
	outf, err := os.Create(os.Getenv("VERIF_OUT"))
	if err != nil {
		t.Fatal(err)
	}
	defer outf.Close()
	w := bufio.NewWriter(outf)
	defer w.Flush()
	var lines []string
	sc := bufio.NewScanner(in)
	sc.Buffer(make([]byte, 1<<20), 1<<26)
	for sc.Scan() {
		lines = append(lines, sc.Text())
	}
	// watchdog outside the bubble (real time): a scenario that cannot finish must not hang the check;
	// the run is cut short and the check treats the rest as not executed.
	var wmu sync.Mutex
	progress := make(chan struct{}, 1)
	go func() {
		for {
			select {
			case <-progress:
			case <-time.After(90 * time.Second):
				wmu.Lock()
				fmt.Fprintln(w, "HARNESS-TIMEOUT")
				w.Flush()
				os.Exit(0)
			}
		}
	}()
	emit := func(l string) {
		wmu.Lock()
		fmt.Fprintln(w, l)
		w.Flush()
		wmu.Unlock()
		select {
		case progress <- struct{}{}:
		default:
		}
	}
	for i := 0; i < len(lines); {
		ws := strings.Fields(lines[i])
		if len(ws) == 2 && (ws[0] == "reset" || ws[0] == "bus") {
			j := i + 1
			for j < len(lines) && !strings.HasPrefix(lines[j], "reset") && !strings.HasPrefix(lines[j], "bus ") {
				j++
			}
			if ws[0] == "bus" {
				verifC41BusScenario(t, lines[i:j], emit)
			} else {
				verifC41Scenario(t, lines[i:j], emit)
			}
			i = j
		} else {
			fmt.Fprintln(w, "bad-op")
			i++
		}
	}
}
