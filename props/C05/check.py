"""C05 — see props/C04/subproto.py (pipeline shared by C04 / C05 / C07: schedule-controlled trace validation of the
subscription protocol against the Lean LTS, plus this property's statement evaluated on the settled observation)."""
import os
import sys

sys.path.insert(0, os.path.join(os.path.dirname(os.path.abspath(__file__)), "..", "C04"))
import subproto  # noqa: E402


def run(ctx):
    subproto.run(ctx, "C05")
