"""C14 — delta-encoded publications reconstruct the published data.

Proof: lean/CentrifugeVerif/Props/C14.lean over Model/Delta.lean (getDeltaPub, makeRecoveredPubsDeltaFossil,
makeRecoveredMapPubsDeltaFossil, the flagDeltaAllowed first-full rule, keyedWritePublication), parametric in
the codec with the hypothesis apply(b, create(b, t)) = t.
Tie: a real Node + real JSON/Protobuf clients that negotiated fossil delta; the harness plays the client
with the REAL fdelta.Apply and compares every reconstruction with the published payload (oracle on real
code); the per-delivery kinds (full/delta, reconstructed or not) are compared with the Lean driver, which
runs the model over a symbolic codec whose size/UTF-8 table is measured on the real fdelta.Create in the
same run (the codec hypothesis is sampled on every generated pair).
"""
import binascii
import json
import os
import re
import subprocess
from concurrent.futures import ThreadPoolExecutor

HARNESS = ["props/C14/harness/root/zz_verif_c14_test.go", "props/C14/harness/root/zz_verif_c14map_test.go"]
HERE = os.path.dirname(os.path.abspath(__file__))


# ----------------------------------------------------------------------------- payloads
def hx(b):
    return binascii.hexlify(b).decode() or "-"


WORDS = ["alpha", "bravo", "charlie", "delta", "echo", "foxtrot", "golf", "hotel", "india", "juliet", "kilo", "lima",
         "mike", "november", "oscar", "papa", "quebec", "romeo", "sierra", "tango", "uniform", "victor"]
UWORDS = ["привет", "мир", "строка", "данные", "пример", "значение", "größe", "naïve", "日本語", "テスト", "😀😃", "ключ"]


def json_family(rng, words, nfields):
    """a JSON object family: variants share structure and differ in a few fields"""
    keys = [rng.choice(WORDS) + str(i) for i in range(nfields)]
    base = {}
    for k in keys:
        r = rng.random()
        if r < 0.4:
            base[k] = rng.randint(0, 10 ** rng.randint(1, 9))
        elif r < 0.8:
            base[k] = " ".join(rng.choice(words) for _ in range(rng.randint(1, 8)))
        else:
            base[k] = [rng.randint(0, 99) for _ in range(rng.randint(0, 6))]
    return keys, base


def json_variant(rng, keys, base, words):
    d = dict(base)
    for k in rng.sample(keys, min(len(keys), rng.randint(1, 3))):
        v = d[k]
        if isinstance(v, int):
            d[k] = rng.randint(0, 10 ** rng.randint(1, 9))
        elif isinstance(v, str):
            ws = v.split(" ")
            i = rng.randrange(len(ws))
            r = rng.random()
            if r < 0.4:
                ws[i] = rng.choice(words)
            elif r < 0.7:
                ws.insert(i, rng.choice(words))
            elif len(ws) > 1:
                del ws[i]
            else:
                w = ws[i]
                j = rng.randrange(len(w)) if w else 0
                ws[i] = w[:j] + rng.choice(words)[:1] + w[j + 1:]
            d[k] = " ".join(ws)
        else:
            d[k] = [rng.randint(0, 99) for _ in range(rng.randint(0, 6))]
    return d


def gen_payloads(rng, proto, keep, n, kind):
    """n distinct payloads of one scenario"""
    out = []
    seen = set()

    def add(b):
        if b not in seen:
            seen.add(b)
            out.append(b)
    words = WORDS
    if kind == "unicode":
        words = WORDS + UWORDS * 2
    nf = rng.choice([3, 6, 12]) if kind != "huge" else rng.choice([300, 800])
    keys, base = json_family(rng, words, nf)
    cur = base
    tries = 0
    while len(out) < n and tries < 20 * n:
        tries += 1
        r = rng.random()
        if kind == "binary" and proto == "pb":
            if r < 0.5 and out:
                b = bytearray(rng.choice(out))
                for _ in range(rng.randint(1, 4)):
                    if b:
                        b[rng.randrange(len(b))] = rng.randrange(256)
                if rng.random() < 0.3:
                    b += bytes(rng.randrange(256) for _ in range(rng.randint(1, 20)))
                add(bytes(b))
            else:
                add(bytes(rng.randrange(256) for _ in range(rng.choice([1, 5, 40, 200, 1000]))))
            if rng.random() < 0.1:
                add(b"")
            continue
        if r < 0.08:
            add(rng.choice([b"1", b'"a"', b"{}", b"[]", b"null", b"true", b'{"a":1}']))
        elif r < 0.16:
            # unrelated payload: the patch is not smaller than the target
            add(json.dumps({"x": "".join(rng.choice("abcdefghijklmnopqrstuvwxyz0123456789") for _ in range(rng.randint(4, 30)))},
                           separators=(",", ":")).encode())
        elif r < 0.20 and proto == "pb":
            add(b"")
        else:
            cur = json_variant(rng, keys, cur if rng.random() < 0.7 else base, words)
            add(json.dumps(cur, ensure_ascii=False, separators=(",", ":")).encode())
    return out


# ----------------------------------------------------------------------------- generator
def gen_stream(rng, thorough=False):
    proto = rng.choice(["json", "pb"])
    pos = 1 if rng.random() < 0.6 else 0
    hist = 1 if pos else rng.choice([0, 1])
    hsize = rng.choice([1, 2, 5, 100, 100]) if hist else 0
    med = 1 if rng.random() < 0.4 else 0
    keep = 1 if rng.random() < 0.4 else 0
    r = rng.random()
    cf, sf = (1, 0) if r < 0.08 else (0, 1) if r < 0.14 else (1, 1) if r < 0.18 else (0, 0)
    r = rng.random()
    kind = "binary" if (proto == "pb" and r < 0.3) else "unicode" if r < 0.42 else "huge" if r < 0.46 else "json"
    npay = rng.choice([3, 6, 10, 16]) if kind != "huge" else 3
    P = gen_payloads(rng, proto, keep, npay, kind)
    nops = rng.choice([6, 12, 25, 40]) if kind != "huge" else 8
    if thorough and kind != "huge" and rng.random() < 0.2:
        nops = 80
    ops = []
    subscribed = False
    last = None
    for _ in range(rng.choice([0, 0, 1, 3])):
        last = rng.randrange(len(P))
        ops.append(f"p{last}.3.1")
    for _ in range(nops):
        r = rng.random()
        if not subscribed:
            if r < 0.55:
                ops.append("R" if (pos and rng.random() < 0.7) else "S")
                subscribed = True
            else:
                last = rng.randrange(len(P))
                ops.append(f"p{last}.{gen_tag(rng, cf, sf)}.{1 if rng.random() < 0.9 else 0}")
        else:
            if r < 0.74:
                if last is not None and rng.random() < 0.12:
                    i = last                                    # equal consecutive payloads
                else:
                    i = rng.randrange(len(P))
                last = i
                ops.append(f"p{i}.{gen_tag(rng, cf, sf)}.{1 if rng.random() < 0.9 else 0}")
            elif r < 0.86:
                ops.append("U")
                subscribed = False
            elif r < 0.93:
                ops.append("D")
            elif r < 0.96 and hist:
                ops.append(f"G{rng.randrange(len(P))}")
                if pos:
                    subscribed = False
            else:
                ops.append("S")                                 # already subscribed
    return {"type": "st", "proto": proto, "pos": pos, "hist": hist, "hsize": hsize, "med": med, "keep": keep,
            "cf": cf, "sf": sf, "P": P, "ops": ops, "kind": kind}


def gen_tag(rng, cf, sf):
    if not (cf or sf):
        return 3
    return rng.choice([3, 3, 3, 2, 1, 0])


def fmt(sc, with_payloads=True, matrix=None):
    head = (f"st proto={sc['proto']} pos={sc['pos']} hist={sc['hist']} hsize={sc['hsize']} med={sc['med']} "
            f"keep={sc['keep']} cf={sc['cf']} sf={sc['sf']}") if sc["type"] == "st" else \
           (f"mp proto={sc['proto']} cf={sc['cf']} sf={sc['sf']} psize={sc['psize']}")
    if with_payloads:
        head += " P=" + ",".join(hx(p) for p in sc["P"])
    if matrix is not None:
        head += " M=" + matrix
    return head + " ops=" + ",".join(sc["ops"])


def parse(op):
    kv = dict(w.split("=", 1) for w in op.split()[1:])
    sc = {"type": op.split()[0], "proto": kv["proto"], "cf": int(kv["cf"]), "sf": int(kv["sf"]),
          "P": [b"" if h == "-" else binascii.unhexlify(h) for h in kv.get("P", "").split(",") if h],
          "ops": [o for o in kv.get("ops", "").split(",") if o], "kind": "replay"}
    if sc["type"] == "st":
        for k in ("pos", "hist", "hsize", "med", "keep"):
            sc[k] = int(kv[k])
    else:
        sc["psize"] = int(kv.get("psize", 100))
    return sc


def to_model_line(op, matrix):
    """the Lean driver gets the codec table instead of the payloads"""
    words = [w for w in op.split() if not w.startswith("P=")]
    return " ".join(words[:-1] + ["M=" + matrix] + words[-1:])


# ----------------------------------------------------------------------------- oracle
def split_out(out):
    parts = out.split(" ## ")
    body = parts[0]
    extra = {}
    for p in parts[1:]:
        if "=" in p:
            k, v = p.split("=", 1)
            extra[k] = v
    return body, extra


def passes(sc, t):
    return (not sc["cf"] or t & 1) and (not sc["sf"] or t & 2)


def oracle_stream(sc, body, extra):
    """C14's statement on what the real client received: every delivery reconstructs the published
    payload.  Returns list of (message, signature) — classification uses only the scenario and the
    harness output."""
    res = []
    if body.startswith("PANIC"):
        return [("panic in the implementation: " + body, {"kind": "panic"})]
    if "codec-hypothesis-violated" in extra:
        return [("fdelta.Apply(b, fdelta.Create(b, t)) != t for payload pair " + extra["codec-hypothesis-violated"],
                 {"kind": "codec-hypothesis"})]
    toks = body.split(" | ")
    why = [w for w in extra.get("why", "").split(",") if w]
    widx = 0
    # reference bookkeeping (no model of the delta decision: only what was published / delivered)
    hist = []          # (off, t)
    held_off = None    # offset of the payload the client holds
    saved = 0          # client's saved position
    since_sub = None   # deliveries since the last subscribe: None = not subscribed
    last_sub = None    # info about the last subscribe
    for op, tok in zip(sc["ops"], toks):
        kind, _, rest = tok.partition(":")
        if op[0] == "p" and sc.get("hist"):
            t = int(op[1:].split(".")[1])
            hist.append((len(hist) + 1, t))
        deliveries = []
        if kind == "s":
            if rest.startswith("rec="):
                f = rest.split(":")
                rec = f[0] == "rec=1"
                lst = f[2].strip("[]")
                deliveries = [("reply", d) for d in lst.split("+") if d]
                deliveries += [("live", d) for d in (f[3].split("+") if len(f) > 3 else []) if d and d != "-"]
                top = hist[-1][0] if hist else 0
                a = saved
                filtered_top = bool(rec and hist and a < top and not passes(sc, hist[-1][1]))
                last_sub = {"rec": rec, "a": a, "top": top, "held_off": held_off, "n_reply": len([1 for k, _ in deliveries if k == "reply"]),
                            "filtered_top": filtered_top, "op": op}
                since_sub = 0
                if not rec:
                    saved = top
            else:
                continue
        elif kind in ("p", "d", "g"):
            d = rest.split(";")[0]
            deliveries = [("live", x) for x in d.split("+") if x and x not in ("-", "none")]
            if ";x" in rest:
                since_sub = None
        elif kind == "u":
            since_sub = None
            continue
        for where, d in deliveries:
            bad = d.endswith("!")
            off = int(d.strip("!")[1:])
            is_delta = d[0] == "D"
            if bad:
                reason = why[widx].split(":", 2)[2] if widx < len(why) else "?"
                widx += 1
                sig = {"proto": sc["proto"]}
                if sc["proto"] == "json" and "replacement-char-in-patch" in reason:
                    sig = {"kind": "json-escape-corrupts-patch", "proto": "json"}
                    msg = ("JSON protocol: the fossil patch is not valid UTF-8 (it splits a multi-byte character of the "
                           "payload); json.Escape replaced the bytes by U+FFFD and the client cannot apply the delta")
                elif where == "reply":
                    sig["kind"] = "recovered-list"
                    msg = "a publication of the recovered list could not be reconstructed"
                elif where == "live" and since_sub == 0 and last_sub and last_sub["rec"] and is_delta:
                    holds_top = (held_off == last_sub["top"]) if last_sub["n_reply"] == 0 else False
                    if last_sub["filtered_top"]:
                        sig = {"kind": "first-live-delta-after-recovery", "cause": "top-publication-filtered-from-recovery"}
                        msg = ("after a successful recovery whose newest publication was withheld by the tags filter the "
                               "first live publication is a delta against that withheld publication")
                    elif last_sub["n_reply"] == 0 and not holds_top:
                        sig = {"kind": "first-live-delta-after-recovery", "cause": "nothing-recovered-client-has-no-base"}
                        msg = ("recovery succeeded with nothing to recover for a client that never received the publication "
                               "at its position; flagDeltaAllowed is set and the first live publication is a delta "
                               "without a base")
                    else:
                        sig["kind"] = "first-live-delta-after-recovery"
                        sig["cause"] = "other"
                        msg = "first live delta after a recovery is against a payload the client does not hold"
                else:
                    sig["kind"] = "live-chain" if is_delta else "full-corrupt"
                    sig["pos"] = sc.get("pos")
                    msg = "live delivery could not be reconstructed by the client"
                res.append((f"{msg} (delivery {d} of op {op}: {reason})", sig))
            if off > 0:
                held_off = off
                saved = off
            else:
                held_off = -1
            if since_sub is not None and where == "live":
                since_sub += 1
        if kind == "s" and last_sub and last_sub["rec"] and not [1 for k, _ in deliveries if k == "reply"]:
            saved = last_sub["a"]
    return res


TOK = re.compile(r"(D\d+)!")


def same_outcome(impl, model):
    """equal lines; the only tolerated difference: the model's symbolic codec says a delta against a wrong base
    cannot be applied (`Dn!`) while the real fdelta.Apply happened to reproduce the payload (`Dn`) because
    the wrong base agrees with the right one on every copied range.  The oracle judges the implementation's
    token either way."""
    if impl == model:
        return True
    if TOK.sub(r"\1", impl) != TOK.sub(r"\1", model):
        return False
    ia = [m.group(0) for m in re.finditer(r"D\d+!?", impl)]
    ma = [m.group(0) for m in re.finditer(r"D\d+!?", model)]
    return len(ia) == len(ma) and all(a == b or (b == a + "!") for a, b in zip(ia, ma))


# ----------------------------------------------------------------------------- run
def run_parallel(ctx, binary, test, ops, workers=4):
    n = len(ops)
    if n == 0:
        return []
    chunk = (n + workers - 1) // workers
    chunks = [ops[i:i + chunk] for i in range(0, n, chunk)]
    with ThreadPoolExecutor(max_workers=workers) as ex:
        res = list(ex.map(lambda ic: _run_chunk(ctx, binary, test, ic), enumerate(chunks)))
    out = []
    for c, r in zip(chunks, res):
        r = r + ["<missing>"] * (len(c) - len(r))
        out += r[:len(c)]
    return out


def _run_chunk(ctx, binary, test, ic):
    from vlib.core import go_env
    i, lines = ic
    ops = os.path.join(ctx.tmp, f"{test}ops{i}_{id(lines)}.txt")
    outp = ops + ".out"
    open(ops, "w").write("\n".join(lines) + "\n")
    e = go_env()
    e.update({"VERIF_OPS": ops, "VERIF_OUT": outp})
    try:
        subprocess.run([binary, "-test.run", f"^{test}$", "-test.count=1", "-test.timeout=3000s"],
                       stdout=subprocess.PIPE, stderr=subprocess.STDOUT, env=e, timeout=3100, cwd=ctx.tmp)
    except subprocess.TimeoutExpired:
        pass
    return open(outp).read().splitlines() if os.path.exists(outp) else []


def shrink(ctx, binary, sc, sig):
    """drop ops while the same signature still shows"""
    from vlib.core import ddmin

    def fails(ops):
        c = dict(sc)
        c["ops"] = ops
        out = ctx.go_run(binary, "TestVerifC14", [fmt(c)])
        if not out:
            return False
        body, extra = split_out(out[0])
        orc = oracle_stream if sc["type"] == "st" else oracle_map
        return any(s == sig for _, s in orc(c, body, extra))
    try:
        if len(sc["ops"]) > 40:
            return sc
        ops = ddmin(list(sc["ops"]), fails)
    except AssertionError:
        return sc
    c = dict(sc)
    c["ops"] = ops
    used = sorted({int(o[1:].split(".")[0]) for o in ops if o[0] == "p"} | {int(o[1:]) for o in ops if o[0] == "G"})
    # renumber payloads to the ones still used
    ren = {old: new for new, old in enumerate(used)}
    c2 = dict(c)
    c2["P"] = [c["P"][i] for i in used]
    c2["ops"] = [("p%d.%s" % (ren[int(o[1:].split(".")[0])], o.split(".", 1)[1])) if o[0] == "p"
                 else ("G%d" % ren[int(o[1:])]) if o[0] == "G" else o for o in ops]
    if c2["P"] and fails(c2["ops"]) is not None:
        out = ctx.go_run(binary, "TestVerifC14", [fmt(c2)])
        if out:
            body, extra = split_out(out[0])
            orc = oracle_stream if sc["type"] == "st" else oracle_map
            if any(s == sig for _, s in orc(c2, body, extra)):
                return c2
    return c


from c14map import gen_map, oracle_map  # noqa: E402  (map scenarios live in a sibling file)


def run(ctx):
    ctx.rule = ("scenario = (protocol JSON/Protobuf, positioned+recoverable or not, history on/off and size, channel "
                "medium with KeepLatestPublication on/off, a second non-delta subscriber, client/server tags filter, a "
                "table of payloads [JSON families sharing structure, non-ASCII JSON, binary-looking, empty, tiny, huge, "
                "unrelated], op sequence of publish(payload, tags, UseDelta) / subscribe / recover / unsubscribe / "
                "duplicate PUB/SUB delivery / PUB/SUB gap); map scenarios = state+stream+live of a MemoryMapBroker "
                "channel with per-key payload sequences, removals and recovery; non-trivial = at least one delta "
                "delivered; distinct = distinct scenario line")
    ctx.assumptions = [
        "fdelta.Apply(b, fdelta.Create(b, t)) = t (sampled on every generated payload pair in every run)",
        "the client keeps the last payload of the channel (per key for map subscriptions) across resubscribes, as the SDKs do",
        "publications of one channel are processed one at a time (broker pubLock)",
        "JSON protocol: the data field reaches the client as the bytes passed to json.Escape only for valid UTF-8 "
        "(violated by patches that split a multi-byte character: finding C14-1)",
    ]
    proofs_ok = ctx.lean_obligations()
    ctx.log('lean obligations done')
    binary = ctx.go_test_binary(".", HARNESS)
    if binary is None:
        ctx.violation("correspondence", "harness no longer builds against package centrifuge",
                      signature={"kind": "harness-build"}, replay={"log": getattr(ctx, "build_error", "")}, no_input=True)
        return
    if ctx.replay:
        scs = [parse(o) for o in json.load(open(ctx.replay)).get("ops", [])]
    else:
        corpus = [l.strip() for l in open(os.path.join(HERE, "corpus.ops")) if l.strip() and not l.startswith("#")]
        known = []
        try:
            for f in json.load(open(os.path.join(HERE, "findings.json")))["findings"]:
                known += f.get("replay", {}).get("ops", [])
        except FileNotFoundError:
            pass
        scs = [parse(o) for o in known + corpus]
        nst = ctx.scale(200, 5000)
        nmp = ctx.scale(80, 1500)
        scs += [gen_stream(ctx.rng, ctx.thorough) for _ in range(nst)]
        scs += [gen_map(ctx.rng, ctx.thorough, gen_payloads) for _ in range(nmp)]
    ops = [fmt(sc) for sc in scs]
    ctx.log(f'harness built; running {len(ops)} scenarios')
    impl = run_parallel(ctx, binary, "TestVerifC14", ops, workers=4)
    bodies, extras = [], []
    for o in impl:
        b, e = split_out(o)
        bodies.append(b)
        extras.append(e)
    model_lines = [to_model_line(op, extras[i].get("M", "-")) for i, op in enumerate(ops)]
    ctx.log('implementation done; running the model')
    model = ctx.lean_run(model_lines)
    ctx.log('model done')
    if model is None:
        proofs_ok = False
        model = []
    herr = 0
    seen_sig = {}
    ndiff = 0
    codec_pairs = 0
    for i, sc in enumerate(scs):
        body, extra = bodies[i], extras[i]
        ndelta = body.count("D")
        ctx.record(ops[i] if len(ops[i]) < 4000 else ops[i][:4000], nontrivial=ndelta > 0)
        ctx.count("type:" + sc["type"]); ctx.count("proto:" + sc["proto"]); ctx.count("payloads:" + sc.get("kind", "?"))
        if sc["type"] == "st":
            ctx.count(f"pos={sc['pos']},hist={sc['hist']},med={sc['med']},keep={sc['keep']}")
            if sc["cf"] or sc["sf"]:
                ctx.count("with-filter")
        if body.startswith("harness-error") or body == "<missing>" or body == "bad-op":
            herr += 1
            ctx.count("harness-error:" + body[:40])
            continue
        codec_pairs += len(sc["P"]) ** 2
        for tok in body.replace(" | ", "+").replace(":", "+").replace("[", "+").replace("]", "+").replace(";", "+").split("+"):
            if tok and tok[0] in "FD" and tok[1:].strip("!").isdigit():
                ctx.count("delivery:" + tok[0] + ("!" if tok.endswith("!") else ""))
        if "M" in extra:
            for ch in "012":
                ctx.count("codec-table:" + ch, extra["M"].count(ch))
        orc = oracle_stream if sc["type"] == "st" else oracle_map
        for msg, sig in orc(sc, body, extra):
            key = json.dumps(sig, sort_keys=True)
            seen_sig[key] = seen_sig.get(key, 0) + 1
            if seen_sig[key] == 1:
                small = shrink(ctx, binary, sc, sig) if not (ctx.replay or ctx._match_known(sig)) else sc
                sout = ctx.go_run(binary, "TestVerifC14", [fmt(small)])
                sbody = split_out(sout[0])[0] if sout else body
                ctx.violation("property", msg, signature=sig,
                              replay={"ops": [fmt(small)], "impl": [sbody], "original_ops": [ops[i]] if len(ops[i]) < 20000 else []})
        b = model[i] if i < len(model) else "<missing>"
        if not same_outcome(body, b):
            ndiff += 1
            if ndiff <= 3:
                ctx.violation("correspondence", f"model and implementation differ: impl `{body[:300]}` model `{b[:300]}`",
                              signature={"kind": "diff", "type": sc["type"]},
                              replay={"ops": [ops[i]], "impl": [body], "model": [b],
                                      "correspondence": "Drivers/C14.lean vs hub.broadcastPublication / Client.writePublication* / makeRecovered*DeltaFossil"},
                              no_input=not ctx.violations)
    ctx.traces_validated = len(scs) - herr
    ctx.extra["harness_errors_dropped"] = herr
    ctx.extra["disagreements"] = ndiff
    ctx.extra["codec_hypothesis_pairs_sampled"] = codec_pairs
    ctx.extra["violation_signatures"] = seen_sig
    if herr > max(3, len(scs) // 10):
        ctx.notes.append(f"{herr} scenarios dropped as harness errors")
    if not proofs_ok:
        ctx.proof_broken()
