"""map-subscription scenarios for C14 (generator + oracle)"""


def gen_map(rng, thorough=False):
    raise NotImplementedError


def oracle_map(sc, body, extra):
    return []
