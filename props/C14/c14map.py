"""map-subscription scenarios for C14 (generator + oracle)"""


def gen_map(rng, thorough=False, gen_payloads=None):
    proto = rng.choice(["json", "pb"])
    r = rng.random()
    cf, sf = (1, 0) if r < 0.08 else (0, 1) if r < 0.14 else (1, 1) if r < 0.17 else (0, 0)
    r = rng.random()
    kind = "binary" if (proto == "pb" and r < 0.25) else "unicode" if r < 0.35 else "json"
    P = gen_payloads(rng, proto, 0, rng.choice([4, 8, 14]), kind)
    nkeys = rng.choice([1, 2, 4])
    nops = rng.choice([8, 16, 30]) if not thorough else rng.choice([8, 16, 30, 60])
    ops = []
    subscribed = False
    ever = False

    def tag():
        return 3 if not (cf or sf) else rng.choice([3, 3, 3, 2, 1, 0])
    for _ in range(rng.randint(1, 4)):
        ops.append(f"p{rng.randrange(len(P))}.{rng.randrange(nkeys)}.{tag()}.1")
    for _ in range(nops):
        r = rng.random()
        if not subscribed:
            if r < 0.5:
                ops.append("R" if (ever and rng.random() < 0.7) else "S")
                subscribed = ever = True
            elif r < 0.9:
                ops.append(f"p{rng.randrange(len(P))}.{rng.randrange(nkeys)}.{tag()}.{1 if rng.random() < 0.9 else 0}")
            else:
                ops.append(f"x{rng.randrange(nkeys)}")
        else:
            if r < 0.72:
                ops.append(f"p{rng.randrange(len(P))}.{rng.randrange(nkeys)}.{tag()}.{1 if rng.random() < 0.9 else 0}")
            elif r < 0.82:
                ops.append(f"x{rng.randrange(nkeys)}")
            else:
                ops.append("U")
                subscribed = False
    return {"type": "mp", "proto": proto, "cf": cf, "sf": sf, "psize": rng.choice([1, 2, 100]), "P": P, "ops": ops,
            "kind": kind}


def oracle_map(sc, body, extra):
    """every delivery of a map subscription reconstructs the payload published at that offset"""
    if body.startswith("PANIC"):
        return [("panic in the implementation: " + body, {"kind": "panic"})]
    if "codec-hypothesis-violated" in extra:
        return [("fdelta.Apply(b, fdelta.Create(b, t)) != t for payload pair " + extra["codec-hypothesis-violated"],
                 {"kind": "codec-hypothesis"})]
    res = []
    why = [w for w in extra.get("why", "").split(",") if w]
    filters = bool(sc["cf"] or sc["sf"])
    for w in why:
        _, tok, reason = w.split(":", 2)
        if sc["proto"] == "json" and "replacement-char-in-patch" in reason:
            res.append(("JSON protocol: the fossil patch is not valid UTF-8; json.Escape replaced the bytes by U+FFFD and "
                        f"the client cannot apply the delta (map delivery {tok}: {reason})",
                        {"kind": "json-escape-corrupts-patch", "proto": "json"}))
        elif filters and tok.startswith("D"):
            res.append(("map subscription with a tags filter: a live/recovered delta is built against a value of the key "
                        f"that the filter withheld from the client (delivery {tok}: {reason})",
                        {"kind": "map-delta-against-filtered-value", "filters": True}))
        else:
            res.append((f"map delivery {tok} could not be reconstructed by the client ({reason})",
                        {"kind": "map-chain", "filters": filters, "delta": tok.startswith("D")}))
    return res
