//go:build verif

package centrifuge

// Verification harness for C14 (injected with `go test -overlay`; never part of the repo).
//
// One scenario per op line, one canonical output line per scenario.
//
//   st proto=json|pb pos=0|1 hist=0|1 hsize=N med=0|1 keep=0|1 cf=0|1 sf=0|1 P=<hex,hex,…> ops=<tok,tok,…>
//
// A real Node (MemoryBroker) and one real client that negotiated fossil delta; `keep=1` adds a second,
// non-delta subscriber that stays subscribed (keeps the channel medium alive, second prepared key).
// ops: p<i>.<t>.<d>  publish payload i; t bit0 = passes the client filter, bit1 = passes the server
//                     filter; d = PublishOptions.UseDelta
//      S / R          subscribe fresh / with recovery from the position the client model saved
//      U              unsubscribe
//      D              the broker delivers the last publication a second time (PUB/SUB duplicate)
//      G<i>           the broker delivers a publication two offsets ahead (PUB/SUB loss before it)
// The harness plays the CLIENT: it keeps the payload it holds, applies every delta with the real
// fdelta.Apply, and compares with the payload that was published at that offset.
// Output: per op `s:…` / `p:…` / `u` / `d:…` / `g:…` with deliveries `F<off>` (full) / `D<off>` (delta),
// suffixed `!` when the client could not reconstruct the published payload;
// then ` ## M=<matrix>` (0 patch not smaller than target, 1 smaller, 2 smaller but not valid UTF-8)
// and ` ## why=<reasons>` for the oracle's classification.

import (
	"bufio"
	"bytes"
	"context"
	"encoding/hex"
	stdjson "encoding/json"
	"fmt"
	"io"
	"os"
	"strconv"
	"strings"
	"sync"
	"testing"
	"time"
	"unicode/utf8"

	"github.com/centrifugal/protocol"
	fdelta "github.com/shadowspore/fossil-delta"
)

type verifC14Transport struct {
	mu      sync.Mutex
	proto   ProtocolType
	replies []*protocol.Reply
	closed  bool
	disc    *Disconnect
	notify  chan struct{}
	decErr  string
}

func (t *verifC14Transport) Name() string                    { return "verif" }
func (t *verifC14Transport) AcceptProtocol() string           { return "" }
func (t *verifC14Transport) Protocol() ProtocolType           { return t.proto }
func (t *verifC14Transport) ProtocolVersion() ProtocolVersion { return ProtocolVersion2 }
func (t *verifC14Transport) Unidirectional() bool             { return false }
func (t *verifC14Transport) Emulation() bool                  { return false }
func (t *verifC14Transport) DisabledPushFlags() uint64        { return 0 }
func (t *verifC14Transport) PingPongConfig() PingPongConfig {
	return PingPongConfig{PingInterval: time.Hour, PongTimeout: time.Minute}
}

func (t *verifC14Transport) add(b []byte) {
	data := append([]byte(nil), b...)
	if t.proto == ProtocolTypeJSON {
		dec := protocol.NewJSONReplyDecoder(data)
		for {
			r, err := dec.Decode()
			if r != nil && (err == nil || err == io.EOF) {
				t.replies = append(t.replies, r)
			}
			if err != nil {
				if err != io.EOF {
					t.decErr = err.Error()
				}
				return
			}
		}
	}
	// the transport receives one encoded reply per message (length-prefix framing is added by
	// the real websocket / http-stream transports)
	var r protocol.Reply
	if err := r.UnmarshalVT(data); err != nil {
		t.decErr = err.Error()
		return
	}
	t.replies = append(t.replies, &r)
}

func (t *verifC14Transport) ping() {
	select {
	case t.notify <- struct{}{}:
	default:
	}
}

func (t *verifC14Transport) Write(b []byte) error {
	t.mu.Lock()
	t.add(b)
	t.mu.Unlock()
	t.ping()
	return nil
}

func (t *verifC14Transport) WriteMany(bs ...[]byte) error {
	t.mu.Lock()
	for _, b := range bs {
		t.add(b)
	}
	t.mu.Unlock()
	t.ping()
	return nil
}

func (t *verifC14Transport) Close(d Disconnect) error {
	t.mu.Lock()
	t.closed = true
	dd := d
	t.disc = &dd
	t.mu.Unlock()
	t.ping()
	return nil
}

func (t *verifC14Transport) waitFor(cond func(rs []*protocol.Reply, closed bool) bool) bool {
	deadline := time.Now().Add(10 * time.Second)
	for {
		t.mu.Lock()
		ok := cond(t.replies, t.closed)
		t.mu.Unlock()
		if ok {
			return true
		}
		if time.Now().After(deadline) {
			return false
		}
		select {
		case <-t.notify:
		case <-time.After(20 * time.Millisecond):
		}
	}
}

func verifC14KV(line string) map[string]string {
	m := map[string]string{}
	for _, w := range strings.Fields(line) {
		if i := strings.IndexByte(w, '='); i > 0 {
			m[w[:i]] = w[i+1:]
		}
	}
	return m
}

// payload bytes as the client sees them: in the JSON protocol with fossil negotiated the data
// field is a JSON string (full payload or patch), in Protobuf it is the raw bytes.
func verifC14Data(isJSON bool, raw []byte) ([]byte, bool) {
	if !isJSON {
		return raw, true
	}
	if len(raw) == 0 {
		return nil, true
	}
	var s string
	if err := stdjson.Unmarshal(raw, &s); err != nil {
		return nil, false
	}
	return []byte(s), true
}

type verifC14Client struct {
	isJSON   bool
	held     []byte
	hasHeld  bool
	off      uint64
	epoch    string
	payloads [][]byte
	byOff    map[uint64]int // offset -> payload index (as published through the broker)
	why      []string
	nDeliv   int
}

// deliver applies one publication to the client model; expect = payload index expected (or -1 = by offset)
func (c *verifC14Client) deliver(pub *protocol.Publication, expect int) string {
	c.nDeliv++
	kind := "F"
	if pub.Delta {
		kind = "D"
	}
	tok := kind + strconv.FormatUint(pub.Offset, 10)
	if expect < 0 {
		if i, ok := c.byOff[pub.Offset]; ok {
			expect = i
		}
	}
	data, okd := verifC14Data(c.isJSON, pub.Data)
	var got []byte
	okApply := okd
	reason := ""
	if !okd {
		reason = "undecodable-json-string"
	} else if pub.Delta {
		if !c.hasHeld {
			okApply = false
			reason = "delta-without-base"
		} else {
			res, err := fdelta.Apply(c.held, data)
			if err != nil {
				okApply = false
				reason = "apply-error"
			} else {
				got = res
			}
		}
	} else {
		got = data
	}
	if pub.Offset > 0 {
		c.off = pub.Offset
	}
	good := okApply && expect >= 0 && bytes.Equal(got, c.payloads[expect])
	if good {
		c.held, c.hasHeld = got, true
		return tok
	}
	if okApply && reason == "" {
		reason = "wrong-result"
	}
	if expect < 0 {
		reason = "unknown-offset"
	}
	// classification help: which base did the server use?
	if pub.Delta && okd && expect >= 0 {
		if bytes.Contains(data, []byte("\xef\xbf\xbd")) && !bytes.Contains(c.payloads[expect], []byte("\xef\xbf\xbd")) {
			reason += "+replacement-char-in-patch"
		}
		for i, p := range c.payloads {
			if res, err := fdelta.Apply(p, data); err == nil && bytes.Equal(res, c.payloads[expect]) {
				reason += "+server-base=" + strconv.Itoa(i)
				break
			}
		}
	}
	c.why = append(c.why, fmt.Sprintf("%d:%s:%s", c.nDeliv, tok, reason))
	// a real client that cannot apply a delta keeps (or loses) its state; to keep later deliveries
	// judged independently the model resynchronises to the published payload
	if expect >= 0 {
		c.held, c.hasHeld = c.payloads[expect], true
	}
	return tok + "!"
}

func verifC14Scenario(line string) (res string) {
	defer func() {
		if r := recover(); r != nil {
			res = fmt.Sprintf("PANIC %v", r)
		}
	}()
	kv := verifC14KV(line)
	isJSON := kv["proto"] == "json"
	positioned := kv["pos"] == "1"
	histOn := kv["hist"] == "1"
	hsize, _ := strconv.Atoi(kv["hsize"])
	medium := kv["med"] == "1"
	keeper := kv["keep"] == "1"
	cf := kv["cf"] == "1"
	sf := kv["sf"] == "1"
	var payloads [][]byte
	if kv["P"] != "" {
		for _, h := range strings.Split(kv["P"], ",") {
			if h == "-" {
				payloads = append(payloads, []byte{})
				continue
			}
			b, err := hex.DecodeString(h)
			if err != nil {
				return "bad-op"
			}
			payloads = append(payloads, b)
		}
	}
	var ops []string
	if kv["ops"] != "" {
		ops = strings.Split(kv["ops"], ",")
	}

	var logMu sync.Mutex
	insuff := 0
	cfg := Config{
		LogLevel: LogLevelDebug,
		LogHandler: func(e LogEntry) {
			if strings.HasPrefix(e.Message, "client insufficient state") {
				logMu.Lock()
				insuff++
				logMu.Unlock()
			}
		},
		ClientChannelPositionMaxTimeLag: time.Hour,
		ClientChannelPositionCheckDelay: time.Hour,
	}
	if medium {
		cfg.GetChannelMediumOptions = func(channel string) ChannelMediumOptions {
			return ChannelMediumOptions{KeepLatestPublication: true}
		}
	}
	node, err := New(cfg)
	if err != nil {
		return "harness-error new-node"
	}
	var serverFilter *FilterNode
	if sf {
		serverFilter = &FilterNode{Op: "", Key: "s", Cmp: "eq", Val: "v"}
	}
	node.OnConnecting(func(ctx context.Context, e ConnectEvent) (ConnectReply, error) {
		return ConnectReply{Credentials: &Credentials{UserID: "u"}}, nil
	})
	node.OnConnect(func(c *Client) {
		c.OnSubscribe(func(e SubscribeEvent, cb SubscribeCallback) {
			cb(SubscribeReply{Options: SubscribeOptions{
				EnableRecovery: positioned, EnablePositioning: positioned, AllowTagsFilter: true,
				AllowedDeltaTypes: []DeltaType{DeltaTypeFossil}, ServerTagsFilter: serverFilter,
			}}, nil)
		})
	})
	if err := node.Run(); err != nil {
		return "harness-error run"
	}
	defer func() { _ = node.Shutdown(context.Background()) }()
	const ch = "ch"

	proto := ProtocolTypeProtobuf
	if isJSON {
		proto = ProtocolTypeJSON
	}
	newConn := func(p ProtocolType) (*Client, *verifC14Transport, func(), bool) {
		tr := &verifC14Transport{notify: make(chan struct{}, 1), proto: p}
		ctx, cancel := context.WithCancel(context.Background())
		client, closeFn, err := NewClient(ctx, node, tr)
		if err != nil {
			cancel()
			return nil, nil, nil, false
		}
		cleanup := func() { _ = closeFn(); cancel() }
		if !client.HandleCommand(&protocol.Command{Id: 1, Connect: &protocol.ConnectRequest{}}, 0) {
			cleanup()
			return nil, nil, nil, false
		}
		if !tr.waitFor(func(rs []*protocol.Reply, closed bool) bool { return len(rs) >= 1 || closed }) {
			cleanup()
			return nil, nil, nil, false
		}
		return client, tr, cleanup, true
	}
	if keeper {
		kc, ktr, kclean, ok := newConn(proto)
		if !ok {
			return "harness-error keeper-connect"
		}
		defer kclean()
		kc.HandleCommand(&protocol.Command{Id: 2, Subscribe: &protocol.SubscribeRequest{Channel: ch}}, 0)
		if !ktr.waitFor(func(rs []*protocol.Reply, closed bool) bool {
			for _, r := range rs {
				if r.Id == 2 {
					return true
				}
			}
			return closed
		}) {
			return "harness-error keeper-subscribe"
		}
	}
	client, tr, cleanup, ok := newConn(proto)
	if !ok {
		return "harness-error connect"
	}
	defer cleanup()

	cm := &verifC14Client{isJSON: isJSON, payloads: payloads, byOff: map[uint64]int{}}
	cursor := 1
	cmdID := uint32(1)
	fence := 0
	subscribed := false
	var lastPub, lastPrev *Publication
	var lastSP StreamPosition
	lastIdx := -1

	doFence := func() bool {
		fence++
		marker := []byte(fmt.Sprintf(`{"fence":%d}`, fence))
		if err := client.Send(marker); err != nil {
			return false
		}
		return tr.waitFor(func(rs []*protocol.Reply, closed bool) bool {
			if closed {
				return true
			}
			for i := len(rs) - 1; i >= 0 && i >= len(rs)-50; i-- {
				if rs[i].Push != nil && rs[i].Push.Message != nil && bytes.Equal(rs[i].Push.Message.Data, marker) {
					return true
				}
			}
			return false
		})
	}
	// collect pushes since cursor; expect = payload index for offset-less publications
	collect := func(expect int) (string, string) {
		tr.mu.Lock()
		rs := append([]*protocol.Reply(nil), tr.replies[cursor:]...)
		cursor = len(tr.replies)
		tr.mu.Unlock()
		var toks []string
		unsub := ""
		for _, r := range rs {
			if r.Push == nil {
				continue
			}
			if r.Push.Pub != nil {
				e := -1
				if r.Push.Pub.Offset == 0 {
					e = expect
				}
				toks = append(toks, cm.deliver(r.Push.Pub, e))
			}
			if r.Push.Unsubscribe != nil {
				unsub = fmt.Sprintf("x%d", r.Push.Unsubscribe.Code)
			}
		}
		if len(toks) == 0 {
			return "-", unsub
		}
		return strings.Join(toks, "+"), unsub
	}
	tagsFor := func(t int) map[string]string {
		tags := map[string]string{"c": "x", "s": "x"}
		if t&1 != 0 {
			tags["c"] = "v"
		}
		if t&2 != 0 {
			tags["s"] = "v"
		}
		return tags
	}
	settleInsufficient := func(before int) bool {
		logMu.Lock()
		n := insuff
		logMu.Unlock()
		if n == before {
			return true
		}
		okw := tr.waitFor(func(rs []*protocol.Reply, closed bool) bool {
			if closed {
				return true
			}
			for i := cursor; i < len(rs); i++ {
				if rs[i].Push != nil && rs[i].Push.Unsubscribe != nil {
					return true
				}
			}
			return false
		})
		if !okw {
			return false
		}
		want := 0
		if keeper {
			want = 1
		}
		deadline := time.Now().Add(10 * time.Second)
		for node.hub.NumSubscribers(ch) > want {
			if time.Now().After(deadline) {
				return false
			}
			time.Sleep(2 * time.Millisecond)
		}
		return true
	}

	var out []string
	for _, op := range ops {
		if op == "" {
			continue
		}
		logMu.Lock()
		insBefore := insuff
		logMu.Unlock()
		switch op[0] {
		case 'p':
			parts := strings.Split(op[1:], ".")
			if len(parts) != 3 {
				return "bad-op"
			}
			i, _ := strconv.Atoi(parts[0])
			t, _ := strconv.Atoi(parts[1])
			if i < 0 || i >= len(payloads) {
				return "bad-op"
			}
			opts := []PublishOption{WithDelta(parts[2] == "1"), WithTags(tagsFor(t))}
			if histOn {
				opts = append(opts, WithHistory(hsize, time.Hour))
			}
			var prev *Publication
			if histOn && parts[2] == "1" {
				hr, herr := node.History(ch, WithHistoryFilter(HistoryFilter{Limit: 1, Reverse: true}))
				if herr == nil && len(hr.Publications) > 0 {
					prev = hr.Publications[0]
				}
			}
			pr, perr := node.Publish(ch, payloads[i], opts...)
			if perr != nil {
				return "harness-error publish " + perr.Error()
			}
			if histOn {
				cm.byOff[pr.Offset] = i
				lastPub = &Publication{Offset: pr.Offset, Data: payloads[i], Tags: tagsFor(t)}
				lastPrev = prev
				lastSP = pr.StreamPosition
			} else {
				lastPub = &Publication{Data: payloads[i], Tags: tagsFor(t)}
				lastPrev = nil
				lastSP = StreamPosition{}
			}
			lastIdx = i
			if !settleInsufficient(insBefore) {
				return "harness-error settle"
			}
			doFence()
			d, unsub := collect(i)
			if unsub != "" {
				subscribed = false
				d += ";" + unsub
			}
			out = append(out, "p:"+d)
		case 'D':
			if lastPub == nil {
				out = append(out, "d:none")
				continue
			}
			_ = node.HandlePublication(ch, lastPub, lastSP, true, lastPrev)
			if !settleInsufficient(insBefore) {
				return "harness-error settle"
			}
			doFence()
			d, unsub := collect(lastIdx)
			if unsub != "" {
				subscribed = false
				d += ";" + unsub
			}
			out = append(out, "d:"+d)
		case 'G':
			i, _ := strconv.Atoi(op[1:])
			if i < 0 || i >= len(payloads) || !histOn {
				return "bad-op"
			}
			sp, _ := node.streamTop(ch, 0)
			gp := &Publication{Offset: sp.Offset + 2, Data: payloads[i], Tags: tagsFor(3)}
			cm.byOff[gp.Offset] = i
			_ = node.HandlePublication(ch, gp, StreamPosition{Offset: gp.Offset, Epoch: sp.Epoch}, true, lastPub)
			if !settleInsufficient(insBefore) {
				return "harness-error settle"
			}
			doFence()
			d, unsub := collect(i)
			delete(cm.byOff, gp.Offset)
			if unsub != "" {
				subscribed = false
				d += ";" + unsub
			}
			out = append(out, "g:"+d)
		case 'U':
			if !subscribed {
				out = append(out, "u:not")
				continue
			}
			cmdID++
			id := cmdID
			client.HandleCommand(&protocol.Command{Id: id, Unsubscribe: &protocol.UnsubscribeRequest{Channel: ch}}, 0)
			if !tr.waitFor(func(rs []*protocol.Reply, closed bool) bool {
				for _, r := range rs {
					if r.Id == id {
						return true
					}
				}
				return closed
			}) {
				return "harness-error unsubscribe-timeout"
			}
			doFence()
			collect(-1)
			subscribed = false
			out = append(out, "u")
		case 'S', 'R':
			if subscribed {
				out = append(out, "s:already")
				continue
			}
			cmdID++
			id := cmdID
			req := &protocol.SubscribeRequest{Channel: ch, Delta: "fossil"}
			if cf {
				req.Tf = &protocol.FilterNode{Op: "", Key: "c", Cmp: "eq", Val: "v"}
			}
			if op[0] == 'R' && positioned {
				req.Recover = true
				req.Offset = cm.off
				req.Epoch = cm.epoch
			}
			client.HandleCommand(&protocol.Command{Id: id, Subscribe: req}, 0)
			var rep *protocol.Reply
			if !tr.waitFor(func(rs []*protocol.Reply, closed bool) bool {
				for _, r := range rs {
					if r.Id == id {
						rep = r
						return true
					}
				}
				return closed
			}) {
				return "harness-error subscribe-timeout"
			}
			if rep == nil {
				tr.mu.Lock()
				d := tr.disc
				tr.mu.Unlock()
				if d != nil {
					out = append(out, fmt.Sprintf("s:disc%d", d.Code))
				} else {
					out = append(out, "s:closed")
				}
				return strings.Join(out, " | ")
			}
			if rep.Error != nil {
				out = append(out, fmt.Sprintf("s:err%d", rep.Error.Code))
				continue
			}
			sr := rep.Subscribe
			if sr == nil {
				return "harness-error no-subscribe-result"
			}
			subscribed = true
			cm.off = sr.Offset
			cm.epoch = sr.Epoch
			var toks []string
			for _, p := range sr.Publications {
				toks = append(toks, cm.deliver(p, -1))
			}
			if !sr.Recovered && positioned {
				// not recovered: the position is the stream top reported by the server
				cm.off = sr.Offset
			}
			b2 := func(b bool) int {
				if b {
					return 1
				}
				return 0
			}
			// advance cursor past the reply, then collect anything already pushed
			doFence()
			d, _ := collect(-1)
			s := fmt.Sprintf("s:rec=%d:delta=%d:[%s]", b2(sr.Recovered), b2(sr.Delta), strings.Join(toks, "+"))
			if d != "-" {
				s += ":" + d
			}
			out = append(out, s)
		default:
			return "bad-op"
		}
	}
	if tr.decErr != "" {
		return "harness-error decode " + tr.decErr
	}
	// codec facts for the model: M[i][j] about fdelta.Create(P_i, P_j); every pair is also a sample
	// of the codec hypothesis apply(b, create(b, t)) = t
	var rows []string
	codecBad := ""
	for i := range payloads {
		var sb strings.Builder
		for j := range payloads {
			patch := fdelta.Create(payloads[i], payloads[j])
			back, err := fdelta.Apply(payloads[i], patch)
			if err != nil || !bytes.Equal(back, payloads[j]) {
				codecBad = fmt.Sprintf("%d>%d", i, j)
			}
			switch {
			case len(patch) >= len(payloads[j]):
				sb.WriteByte('0')
			case utf8.Valid(patch):
				sb.WriteByte('1')
			default:
				sb.WriteByte('2')
			}
		}
		rows = append(rows, sb.String())
	}
	resLine := strings.Join(out, " | ") + " ## M=" + strings.Join(rows, ".")
	if len(payloads) == 0 {
		resLine += "-"
	}
	resLine += " ## why=" + strings.Join(cm.why, ",")
	if codecBad != "" {
		resLine += " ## codec-hypothesis-violated=" + codecBad
	}
	return resLine
}

func TestVerifC14(t *testing.T) {
	in, err := os.Open(os.Getenv("VERIF_OPS"))
	if err != nil {
		t.Skip("no VERIF_OPS")
	}
	defer in.Close()
	out, err := os.Create(os.Getenv("VERIF_OUT"))
	if err != nil {
		t.Fatal(err)
	}
	defer out.Close()
	w := bufio.NewWriter(out)
	defer w.Flush()
	sc := bufio.NewScanner(in)
	sc.Buffer(make([]byte, 1<<20), 1<<28)
	for sc.Scan() {
		line := sc.Text()
		if line == "" || strings.HasPrefix(line, "#") {
			fmt.Fprintln(w, "#")
			continue
		}
		switch {
		case strings.HasPrefix(line, "st "):
			fmt.Fprintln(w, verifC14Scenario(line))
		case strings.HasPrefix(line, "mp "):
			fmt.Fprintln(w, verifC14Map(line))
		default:
			fmt.Fprintln(w, "bad-op")
		}
		w.Flush()
	}
}
