//go:build verif

package centrifuge

// C14 harness, map subscriptions (MemoryMapBroker, MapModeRecoverable) with fossil delta.
//
//   mp proto=json|pb cf=0|1 sf=0|1 psize=N P=<hex,…> ops=<tok,…>
// ops: p<i>.<key>.<t>.<d>  MapPublish payload i under key k<key>; t bit0/bit1 = passes client/server filter;
//                           d = UseDelta
//      x<key>               MapRemove
//      S                    full subscribe protocol (state pages → stream pages → live), delta=fossil
//      R                    recovering join (phase=live, recover from the saved position)
//      U                    unsubscribe
// The harness plays the client: one payload per key, state entries and full publications replace it,
// delta publications are applied with the real fdelta.Apply, removals delete it.
// Output per op: `s:[…]` (state entries sorted by offset, then publications), `r:rec=…:[…]`, `p:…`, `x:…`, `u`;
// delivery tokens `F<off>` / `D<off>` / `X<off>` (removal), `!` = the client could not reconstruct the
// payload published at that offset.

import (
	"bytes"
	"context"
	"encoding/hex"
	"fmt"
	"sort"
	"strconv"
	"strings"
	"time"
	"unicode/utf8"

	"github.com/centrifugal/protocol"
	fdelta "github.com/shadowspore/fossil-delta"
)

type verifC14MapClient struct {
	isJSON   bool
	vals     map[string][]byte
	payloads [][]byte
	byOff    map[uint64]int
	why      []string
	n        int
}

func (c *verifC14MapClient) deliver(pub *protocol.Publication) string {
	c.n++
	if pub.Removed {
		delete(c.vals, pub.Key)
		return "X" + strconv.FormatUint(pub.Offset, 10)
	}
	kind := "F"
	if pub.Delta {
		kind = "D"
	}
	tok := kind + strconv.FormatUint(pub.Offset, 10)
	expect, known := c.byOff[pub.Offset]
	data, okd := verifC14Data(c.isJSON, pub.Data)
	var got []byte
	ok := okd
	reason := ""
	if !okd {
		reason = "undecodable-json-string"
	} else if pub.Delta {
		base, has := c.vals[pub.Key]
		if !has {
			ok, reason = false, "delta-without-base"
		} else if res, err := fdelta.Apply(base, data); err != nil {
			ok, reason = false, "apply-error"
		} else {
			got = res
		}
	} else {
		got = data
	}
	if ok && known && bytes.Equal(got, c.payloads[expect]) {
		c.vals[pub.Key] = got
		return tok
	}
	if !known {
		reason = "unknown-offset"
	} else if ok {
		reason = "wrong-result"
	}
	if pub.Delta && okd && known {
		if bytes.Contains(data, []byte("\xef\xbf\xbd")) && !bytes.Contains(c.payloads[expect], []byte("\xef\xbf\xbd")) {
			reason += "+replacement-char-in-patch"
		}
	}
	c.why = append(c.why, fmt.Sprintf("%d:%s:%s", c.n, tok, reason))
	if known {
		c.vals[pub.Key] = c.payloads[expect]
	}
	return tok + "!"
}

func verifC14Map(line string) (res string) {
	defer func() {
		if r := recover(); r != nil {
			res = fmt.Sprintf("PANIC %v", r)
		}
	}()
	kv := verifC14KV(line)
	isJSON := kv["proto"] == "json"
	cf := kv["cf"] == "1"
	sf := kv["sf"] == "1"
	psize, _ := strconv.Atoi(kv["psize"])
	if psize <= 0 {
		psize = 100
	}
	var payloads [][]byte
	if kv["P"] != "" {
		for _, h := range strings.Split(kv["P"], ",") {
			if h == "-" {
				payloads = append(payloads, []byte{})
				continue
			}
			b, err := hex.DecodeString(h)
			if err != nil {
				return "bad-op"
			}
			payloads = append(payloads, b)
		}
	}
	var ops []string
	if kv["ops"] != "" {
		ops = strings.Split(kv["ops"], ",")
	}
	node, err := New(Config{
		LogLevel: LogLevelError, LogHandler: func(e LogEntry) {},
		ClientChannelPositionMaxTimeLag: time.Hour, ClientChannelPositionCheckDelay: time.Hour,
		Map: MapConfig{GetMapChannelOptions: func(channel string) MapChannelOptions {
			return MapChannelOptions{Mode: MapModeRecoverable, KeyTTL: time.Hour, MinPageSize: 1}
		}},
	})
	if err != nil {
		return "harness-error new-node " + err.Error()
	}
	mb, err := NewMemoryMapBroker(node, MemoryMapBrokerConfig{})
	if err != nil {
		return "harness-error map-broker " + err.Error()
	}
	node.SetMapBroker(mb)
	var serverFilter *FilterNode
	if sf {
		serverFilter = &FilterNode{Op: "", Key: "s", Cmp: "eq", Val: "v"}
	}
	node.OnConnecting(func(ctx context.Context, e ConnectEvent) (ConnectReply, error) {
		return ConnectReply{Credentials: &Credentials{UserID: "u"}}, nil
	})
	node.OnConnect(func(c *Client) {
		c.OnSubscribe(func(e SubscribeEvent, cb SubscribeCallback) {
			cb(SubscribeReply{Options: SubscribeOptions{Type: SubscriptionTypeMap, AllowTagsFilter: true,
				AllowedDeltaTypes: []DeltaType{DeltaTypeFossil}, ServerTagsFilter: serverFilter}}, nil)
		})
	})
	if err := node.Run(); err != nil {
		return "harness-error run " + err.Error()
	}
	defer func() { _ = node.Shutdown(context.Background()) }()
	const ch = "ch"
	proto := ProtocolTypeProtobuf
	if isJSON {
		proto = ProtocolTypeJSON
	}
	tr := &verifC14Transport{notify: make(chan struct{}, 1), proto: proto}
	ctx, cancel := context.WithCancel(context.Background())
	defer cancel()
	client, closeFn, err := NewClient(ctx, node, tr)
	if err != nil {
		return "harness-error new-client"
	}
	defer func() { _ = closeFn() }()
	cmdID := uint32(0)
	command := func(cmd *protocol.Command) *protocol.Reply {
		cmdID++
		cmd.Id = cmdID
		id := cmd.Id
		client.HandleCommand(cmd, 0)
		var rep *protocol.Reply
		tr.waitFor(func(rs []*protocol.Reply, closed bool) bool {
			for _, x := range rs {
				if x.Id == id {
					rep = x
					return true
				}
			}
			return closed
		})
		return rep
	}
	if rep := command(&protocol.Command{Connect: &protocol.ConnectRequest{}}); rep == nil || rep.Error != nil {
		return "harness-error connect"
	}
	cursor := 1
	fence := 0
	doFence := func() {
		fence++
		marker := []byte(fmt.Sprintf(`{"fence":%d}`, fence))
		if err := client.Send(marker); err != nil {
			return
		}
		tr.waitFor(func(rs []*protocol.Reply, closed bool) bool {
			if closed {
				return true
			}
			for i := len(rs) - 1; i >= 0 && i >= len(rs)-50; i-- {
				if rs[i].Push != nil && rs[i].Push.Message != nil && bytes.Equal(rs[i].Push.Message.Data, marker) {
					return true
				}
			}
			return false
		})
	}
	var savedOff uint64
	var savedEpoch string
	cm := &verifC14MapClient{isJSON: isJSON, vals: map[string][]byte{}, payloads: payloads, byOff: map[uint64]int{}}
	collect := func() string {
		tr.mu.Lock()
		rs := append([]*protocol.Reply(nil), tr.replies[cursor:]...)
		cursor = len(tr.replies)
		tr.mu.Unlock()
		var toks []string
		for _, r := range rs {
			if r.Push != nil && r.Push.Pub != nil {
				toks = append(toks, cm.deliver(r.Push.Pub))
				if r.Push.Pub.Offset > savedOff {
					savedOff = r.Push.Pub.Offset // the client's position follows the pushes it saw
				}
			}
			if r.Push != nil && r.Push.Unsubscribe != nil {
				toks = append(toks, fmt.Sprintf("x%d", r.Push.Unsubscribe.Code))
			}
		}
		if len(toks) == 0 {
			return "-"
		}
		return strings.Join(toks, "+")
	}
	tagsFor := func(t int) map[string]string {
		tags := map[string]string{"c": "x", "s": "x"}
		if t&1 != 0 {
			tags["c"] = "v"
		}
		if t&2 != 0 {
			tags["s"] = "v"
		}
		return tags
	}
	var tf *protocol.FilterNode
	if cf {
		tf = &protocol.FilterNode{Op: "", Key: "c", Cmp: "eq", Val: "v"}
	}
	subscribed := false
	var out []string
	for _, op := range ops {
		if op == "" {
			continue
		}
		switch op[0] {
		case 'p':
			parts := strings.Split(op[1:], ".")
			if len(parts) != 4 {
				return "bad-op"
			}
			i, _ := strconv.Atoi(parts[0])
			t, _ := strconv.Atoi(parts[2])
			if i < 0 || i >= len(payloads) {
				return "bad-op"
			}
			r, err := node.MapPublish(context.Background(), ch, "k"+parts[1], MapPublishOptions{Data: payloads[i], Tags: tagsFor(t), UseDelta: parts[3] == "1"})
			if err != nil {
				return "harness-error publish " + err.Error()
			}
			cm.byOff[r.Position.Offset] = i
			doFence()
			out = append(out, "p:"+collect())
		case 'x':
			r, err := node.MapRemove(context.Background(), ch, "k"+op[1:], MapRemoveOptions{})
			if err != nil {
				return "harness-error remove " + err.Error()
			}
			doFence()
			d := collect()
			if r.Suppressed {
				d = "suppressed"
			}
			out = append(out, "x:"+d)
		case 'U':
			if !subscribed {
				out = append(out, "u:not")
				continue
			}
			command(&protocol.Command{Unsubscribe: &protocol.UnsubscribeRequest{Channel: ch}})
			doFence()
			collect()
			subscribed = false
			out = append(out, "u")
		case 'S':
			if subscribed {
				out = append(out, "s:already")
				continue
			}
			cm.vals = map[string][]byte{} // a full state sync replaces what the client had
			req := &protocol.SubscribeRequest{Channel: ch, Type: int32(SubscriptionTypeMap), Phase: MapPhaseState, Limit: int32(psize), Tf: tf, Delta: "fossil"}
			var stateToks []string
			var pubToks []string
			type st struct {
				off uint64
				tok string
			}
			var sts []st
			failed := ""
			for step := 0; step < 300; step++ {
				rep := command(&protocol.Command{Subscribe: req})
				if rep == nil {
					return "harness-error map-subscribe"
				}
				if rep.Error != nil {
					failed = fmt.Sprintf("err%d", rep.Error.Code)
					break
				}
				sr := rep.Subscribe
				for _, p := range sr.State {
					sts = append(sts, st{p.Offset, cm.deliver(p)})
				}
				for _, p := range sr.Publications {
					pubToks = append(pubToks, cm.deliver(p))
				}
				if sr.Phase == MapPhaseLive {
					savedOff, savedEpoch = sr.Offset, sr.Epoch
					subscribed = true
					break
				}
				if sr.Phase == MapPhaseStream {
					req = &protocol.SubscribeRequest{Channel: ch, Type: int32(SubscriptionTypeMap), Phase: MapPhaseStream, Limit: int32(psize), Offset: sr.Offset, Epoch: sr.Epoch, Delta: "fossil"}
				} else if sr.Cursor != "" {
					req = &protocol.SubscribeRequest{Channel: ch, Type: int32(SubscriptionTypeMap), Phase: MapPhaseState, Limit: int32(psize), Cursor: sr.Cursor, Delta: "fossil"}
				} else {
					req = &protocol.SubscribeRequest{Channel: ch, Type: int32(SubscriptionTypeMap), Phase: MapPhaseStream, Limit: int32(psize), Offset: sr.Offset, Epoch: sr.Epoch, Delta: "fossil"}
				}
			}
			if failed != "" {
				out = append(out, "s:"+failed)
				continue
			}
			sort.Slice(sts, func(i, j int) bool { return sts[i].off < sts[j].off })
			for _, s := range sts {
				stateToks = append(stateToks, s.tok)
			}
			doFence()
			collect()
			out = append(out, "s:["+strings.Join(stateToks, "+")+"]:["+strings.Join(pubToks, "+")+"]")
		case 'R':
			if subscribed {
				out = append(out, "r:already")
				continue
			}
			rep := command(&protocol.Command{Subscribe: &protocol.SubscribeRequest{Channel: ch, Type: int32(SubscriptionTypeMap),
				Phase: MapPhaseLive, Recover: true, Offset: savedOff, Epoch: savedEpoch, Tf: tf, Delta: "fossil"}})
			if rep == nil {
				return "harness-error rejoin"
			}
			if rep.Error != nil {
				out = append(out, fmt.Sprintf("r:err%d", rep.Error.Code))
				continue
			}
			var toks []string
			for _, p := range rep.Subscribe.Publications {
				toks = append(toks, cm.deliver(p))
			}
			savedOff, savedEpoch = rep.Subscribe.Offset, rep.Subscribe.Epoch
			subscribed = true
			rec := 0
			if rep.Subscribe.Recovered {
				rec = 1
			}
			doFence()
			collect()
			out = append(out, fmt.Sprintf("r:rec=%d:[%s]", rec, strings.Join(toks, "+")))
		default:
			return "bad-op"
		}
	}
	var rows []string
	codecBad := ""
	for i := range payloads {
		var sb strings.Builder
		for j := range payloads {
			patch := fdelta.Create(payloads[i], payloads[j])
			back, err := fdelta.Apply(payloads[i], patch)
			if err != nil || !bytes.Equal(back, payloads[j]) {
				codecBad = fmt.Sprintf("%d>%d", i, j)
			}
			switch {
			case len(patch) >= len(payloads[j]):
				sb.WriteByte('0')
			case utf8.Valid(patch):
				sb.WriteByte('1')
			default:
				sb.WriteByte('2')
			}
		}
		rows = append(rows, sb.String())
	}
	resLine := strings.Join(out, " | ") + " ## M=" + strings.Join(rows, ".")
	if len(payloads) == 0 {
		resLine += "-"
	}
	resLine += " ## why=" + strings.Join(cm.why, ",")
	if codecBad != "" {
		resLine += " ## codec-hypothesis-violated=" + codecBad
	}
	return resLine
}
