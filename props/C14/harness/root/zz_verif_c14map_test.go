//go:build verif

package centrifuge

func verifC14Map(line string) string { return "bad-op" }
