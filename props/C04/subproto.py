"""Shared pipeline of the C04 / C05 / C07 checks (subscription protocol of one connection).

  schedules (generated here)  --go harness (real Node + Client, gate-controlled)-->  traces + settled observation
  traces  --Lean driver (drv_c0x, the LTS of Model/SubProto.lean)-->  accept / reject        (correspondence)
  settled observation  --oracle_c04 / oracle_c05 / oracle_c07 (the property statements)-->  verdict

A harness problem (timeouts, a schedule that cannot be driven) is counted and dropped, never a verdict.
"""
import json
import os
import re
import threading

HARNESS = "props/C04/harness/zz_verif_subproto_test.go"
TEST = "TestVerifSubProto"
SUBK = ("csub", "ssub")
UNSUBK = ("cunsub", "sunsub")


# ------------------------------------------------------------------------------------------ scenarios
def actor(aid, kind, ch="", p=0, j=0, fail="", m=0):
    a = {"id": aid, "kind": kind, "ch": ch, "p": p, "j": j, "fail": fail}
    if m:
        a["m"] = 1
    return a


def op(actors, chans, sched, connect=None, obs=0, batch=0):
    d = {"actors": actors, "chans": chans, "sched": sched}
    if obs:
        d["obs"] = 1
    if batch:
        d["batch"] = 1
    if connect:
        d["connect"] = connect
    return "sched " + json.dumps(d, separators=(",", ":"))


def parse_op(line):
    return json.loads(line[len("sched "):])


def is_slow(line):
    return '"T"' in line


def outside_model(spec):
    """connect-time subscriptions, map client presence and the presence tick are not in the Lean LTS: oracle only"""
    return bool(spec.get("connect")) or any(a.get("m") or a["kind"] == "tick" for a in spec["actors"])


def rand_sub(rng, aid, ch, pfail=0.15):
    kind = rng.choice(SUBK)
    fail = ""
    if rng.random() < pfail:
        fail = rng.choice(["onsub", "onsubdisc", "bsub", "presadd"] if kind == "csub" else ["bsub", "presadd"])
    p = rng.randint(0, 1)
    if fail == "presadd":
        p = 1
    return actor(aid, kind, ch, p, rng.randint(0, 1), fail)


def gen_fast(rng):
    """A random scenario without wait-gate timeouts."""
    shape = rng.random()
    chans = ["a", "b"]
    acts = []
    if shape < 0.35:      # one subscribe raced by unsubscribe and close on the same channel
        acts = [rand_sub(rng, "A", "a"), actor("U", rng.choice(UNSUBK), "a")]
        if rng.random() < 0.7:
            acts.append(actor("C", "close"))
    elif shape < 0.55:    # subscribe / unsubscribe / resubscribe on one channel
        acts = [rand_sub(rng, "A", "a"), actor("U", rng.choice(UNSUBK), "a"), rand_sub(rng, "B", "a")]
        if rng.random() < 0.5:
            acts.append(actor("V", rng.choice(UNSUBK), "a"))
        if rng.random() < 0.4:
            acts.append(actor("C", "close"))
    elif shape < 0.75:    # two channels
        acts = [rand_sub(rng, "A", "a"), rand_sub(rng, "B", "b"), actor("U", rng.choice(UNSUBK), rng.choice("ab"))]
        if rng.random() < 0.7:
            acts.append(actor("C", "close"))
    elif shape < 0.9:     # two concurrent subscribes on one channel (client + server side) and a closer
        acts = [rand_sub(rng, "A", "a"), rand_sub(rng, "B", "a")]
        if rng.random() < 0.5:
            acts.append(actor("U", rng.choice(UNSUBK), "a"))
        if rng.random() < 0.6:
            acts.append(actor("C", "close"))
    else:                 # pure close races: several subscribes, two closers
        acts = [rand_sub(rng, "A", "a"), rand_sub(rng, "B", "b"), actor("C", "close"), actor("D", "close")]
    n = rng.choice([0, 3, 6, 10, 16, 24])
    ids = [a["id"] for a in acts]
    sched = []
    for _ in range(n):
        r = rng.random()
        if r < 0.6:
            sched.append("@" + rng.choice(ids + ["x1"]))
        elif r < 0.97:
            sched.append(rng.randint(0, 4))
        else:
            sched.append(rng.choice(["H", "R"]))
    # observer connections (JSON / Protobuf x bidirectional / unidirectional, join/leave pushes) on every channel
    obs = 1 if rng.random() < 0.4 else 0
    # part of the observed scenarios use per-channel write batching (join/leave/publication pushes are buffered)
    return op(acts, chans, sched, obs=obs, batch=1 if obs and rng.random() < 0.35 else 0)


def gen_mappres(rng):
    """Client subscribe with MapClientPresenceChannel (+ node presence sometimes), the periodic presence tick as an
    actor (its refresh parks inside MapBroker.Publish), unsubscribe and close racing it.  Oracle only."""
    acts = [actor("A", "csub", "a", rng.randint(0, 1), rng.randint(0, 1), m=1), actor("T", "tick"),
            actor("U", rng.choice(UNSUBK), "a")]
    if rng.random() < 0.8:
        acts.append(actor("C", "close"))
    if rng.random() < 0.3:
        acts.append(actor("T2", "tick"))
    if rng.random() < 0.35:
        # the PresenceManager fails when the unsubscribing / closing goroutine removes the node-level entry:
        # the remaining cleanup steps (map presence entry) must still be attempted
        acts[0]["p"] = 1
        rng.choice([a for a in acts if a["kind"] in UNSUBK + ("close",)])["fail"] = "presrm"
    ids = [a["id"] for a in acts]
    k = rng.random()
    if k < 0.6:
        # subscribe completely, let the tick reach its map refresh, unsubscribe in full, then the rest
        sched = ["@A"] * 8 + ["@T"] * rng.choice([1, 1, 2]) + ["@U"] * 8
    elif k < 0.8:
        sched = ["@A"] * rng.randint(2, 8) + ["@T"]
    else:
        sched = []
    for _ in range(rng.choice([0, 4, 8, 14])):
        sched.append("@" + rng.choice(ids + ["x1"]))
    return op(acts, ["a", "b"], sched, obs=1 if rng.random() < 0.2 else 0)


def gen_connect(rng):
    """Connect with connect-time server-side subscriptions (goroutines spawned by connectCmd), raced by a closer
    and a server-side unsubscribe.  Outside the Lean model: oracle only."""
    subs = []
    for ch in rng.sample(["a", "b"], rng.choice([1, 2, 2])):
        fail = rng.choice(["presadd", "bsub"]) if rng.random() < 0.15 else ""
        p = 1 if fail == "presadd" else rng.randint(0, 1)
        subs.append({"ch": ch, "p": p, "j": rng.randint(0, 1), "fail": fail})
    acts = [actor("K", "connect")]
    if rng.random() < 0.85:
        acts.append(actor("C", "close"))
    if rng.random() < 0.4:
        acts.append(actor("U", "sunsub", rng.choice("ab")))
    if rng.random() < 0.3:
        acts.append(actor("S", "ssub", rng.choice("ab"), rng.randint(0, 1), rng.randint(0, 1)))
    ids = [a["id"] for a in acts] + ["x1", "x2", "x3"]
    sched = ["@K"] + ["@" + rng.choice(ids) for _ in range(rng.choice([0, 2, 4, 7, 11, 16]))]
    return op(acts, ["a", "b"], sched, connect=subs)


def gen_slow(rng):
    """A scenario in which the 5 s unsubscribe wait-gate timeout fires (real time): a subscribe is stalled at one
    of its gates (OnSubscribe / AddPresence / reply), an unsubscribe waits and times out, the force-close it spawns
    is usually delayed (connectMu held = the `go c.close()` goroutine not scheduled yet), then a second unsubscribe
    drops the dead reservation, a fresh subscribe re-reserves the channel and the stalled one resumes."""
    kind = "csub" if rng.random() < 0.75 else "ssub"
    p = 1 if kind == "ssub" else rng.randint(0, 1)
    a = actor("A", kind, "a", p, rng.randint(0, 1))
    stall = rng.randint(1, 3 if (kind == "csub" and p) else (2 if kind == "csub" else 1))
    acts = [a, actor("U", rng.choice(UNSUBK), "a")]
    sched = ["@A"] * stall + ["@U"]
    if rng.random() < 0.8:
        sched.append("H")
    sched.append("T")
    tail_ids = ["A", "U", "x1"]
    if rng.random() < 0.85:
        acts.append(actor("V", rng.choice(UNSUBK), "a"))
        tail_ids.append("V")
    if rng.random() < 0.8:
        bk = rng.choice(SUBK)
        acts.append(actor("B", bk, "a", rng.randint(0, 1), rng.randint(0, 1)))
        tail_ids.append("B")
    if rng.random() < 0.2:
        acts.append(actor("C", "close"))
        tail_ids.append("C")
    shape = rng.random()
    if shape < 0.5 and "V" in tail_ids and "B" in tail_ids:
        # the canonical order: timed-out unsubscribe returns, V drops the reservation, B reserves, then a random race
        sched += ["@U", "@U", "@V", "@V", "@B"]
    for _ in range(rng.choice([4, 8, 12, 18])):
        r = rng.random()
        if r < 0.85:
            sched.append("@" + rng.choice(tail_ids))
        elif r < 0.93:
            sched.append("R")
        else:
            sched.append(rng.randint(0, 3))
    return op(acts, ["a"], sched)


def enum_templates():
    """Small actor sets whose schedules are enumerated exhaustively in the thorough tier."""
    t = []
    for sk in SUBK:
        for uk in UNSUBK:
            for pj in ((1, 1), (0, 1), (1, 0)):
                t.append([actor("A", sk, "a", *pj), actor("U", uk, "a"), actor("C", "close")])
        t.append([actor("A", sk, "a", 1, 1), actor("C", "close"), actor("D", "close")])
        t.append([actor("A", sk, "a", 1, 1, "presadd"), actor("U", "cunsub", "a"), actor("C", "close")])
        t.append([actor("A", sk, "a", 1, 1, "bsub"), actor("U", "sunsub", "a"), actor("C", "close")])
        t.append([actor("A", sk, "a", 1, 1), actor("B", "ssub" if sk == "csub" else "csub", "a", 1, 1), actor("C", "close")])
        t.append([actor("A", sk, "a", 1, 1), actor("U", "sunsub", "a"), actor("B", sk, "a", 0, 1)])
    t.append([actor("A", "csub", "a", 1, 1, "onsub"), actor("U", "cunsub", "a"), actor("C", "close")])
    t.append([actor("A", "csub", "a", 1, 1, "onsubdisc"), actor("U", "cunsub", "a"), actor("B", "ssub", "a", 1, 1)])
    return t


def enum_schedules(acts, depth):
    ids = [a["id"] for a in acts]
    out = [[]]
    frontier = [[]]
    for _ in range(depth):
        frontier = [s + ["@" + i] for s in frontier for i in ids]
        out += frontier
    return out


# ------------------------------------------------------------------------------------------ parsing
class Case:
    def __init__(self, line, out):
        self.op = line
        self.spec = parse_op(line)
        self.raw = out
        self.ok = bool(out) and not out.startswith("HARNESS-ERROR") and out not in ("bad-op", "<missing>") and ";" in out
        self.events = [e.strip() for e in out.split(";")] if self.ok else []
        self.final = None
        if self.ok and self.events[-1].startswith("final "):
            self.final = parse_final(self.events[-1], self.spec["chans"])
        else:
            self.ok = False


def parse_final(ev, chans):
    body = ev[len("final "):]
    left, right = body.split(" | ")
    f = {"state": left}
    toks = left.split()
    for t in toks[:4]:
        k, v = t.split("=")
        f[k] = int(v)
    f["ch"] = {}
    for t in toks[4:]:
        if t.startswith("log="):
            f["log"] = [x for x in t[4:].split(",") if x]
        elif t.startswith("extrachans="):
            f["extrachans"] = int(t.split("=")[1])
        else:
            name, rest = t.split(":", 1)
            ent, hub, pres = rest.split(",")
            f["ch"][name] = {"entry": ent, "hub": hub, "pres": pres}
    for t in right.split():
        k, v = t.split("=", 1)
        f[k] = v
    # recv=<ch>:<min>:<max> over the marker publications (each marker must arrive exactly once, decodable)
    f["recv"] = {x.split(":")[0]: (int(x.split(":")[1]), int(x.split(":")[2])) for x in f["recv"].split(",") if x}
    f["mappres"] = {x.split(":")[0]: int(x.split(":")[1]) for x in (f.get("mappres") or "").split(",") if x}
    raw_orecv, raw_ojl = f.get("orecv", "-"), f.get("ojl", "-")
    f["orecv"] = {}
    for x in raw_orecv.split(","):
        if x and x != "-":
            k, sub, lo, hi = x.split(":")
            f["orecv"][k] = (int(sub), int(lo), int(hi))
    f["ojl"] = {}
    for x in raw_ojl.split(","):
        if x and x != "-":
            k, seq = x.split(":")
            f["ojl"][k] = "" if seq == "-" else seq
    f["reported"] = [x for x in f["reported"].split(",") if x]
    f["onunsub"] = {x.split(":")[0]: int(x.split(":")[1]) for x in f["onunsub"].split(",") if x}
    return f


# ------------------------------------------------------------------------------------------ oracles
def oracle_c04(case):
    """receives a new publication iff it reports itself subscribed, at most once (every marker publication, decoded
    the way a client of that transport decodes it); every reported channel has exactly one routing entry (and
    there is no routing entry without a reported channel).  The same for every observer connection."""
    f = case.final
    for ch in case.spec["chans"]:
        rep = ch in f["reported"]
        lo, hi = f["recv"].get(ch, (0, 0))
        if hi > 1:
            return f"publication delivered {hi} times"
        if rep and lo == 0:
            return "reports subscribed but does not receive the publication"
        if not rep and hi > 0:
            return "receives the publication although it does not report the channel as subscribed"
        hub = f["ch"][ch]["hub"]
        if rep and hub == "h-":
            return "reported channel has no routing entry"
        if not rep and hub != "h-":
            return "routing entry without a reported subscription"
    if int(f["numsubs"]) != len(f["reported"]):
        return "number of routing entries differs from the number of reported channels"
    for k, (sub, lo, hi) in f["orecv"].items():
        if hi > 1:
            return "publication delivered more than once to another subscribed connection"
        if sub and lo == 0:
            return "another connection on the channel reports subscribed but does not receive the publication (in a form it can decode)"
        if not sub and hi > 0:
            return "another connection receives the publication although it does not report the channel as subscribed"
    return None


def has_close(case):
    if any(a["kind"] == "close" for a in case.spec["actors"]):
        return True
    return any(e.startswith("anon ") for e in case.events)


def oracle_c05(case):
    """after the connection closed and everything settled nothing of it remains on the node."""
    f = case.final
    if f["st"] != 3:
        if any(a["kind"] == "close" for a in case.spec["actors"]):
            return "connection not closed after close() returned"
        return None
    if f["reg"] != 0 or f["inconns"] != "false" or f["users"] != "false":
        return "connection still registered in the hub"
    if f["cg"] != 0:
        return "connections gauge did not return to its prior value"
    if f["sg"] != 0:
        return "subscriptions gauge did not return to its prior value"
    for ch, c in f["ch"].items():
        if c["hub"] != "h-":
            return "routing entry survives the connection"
        if c["pres"] != "p0" and not any(
                e.split()[0] == "pass" and e.split()[2] == "presrm" and e.split()[3] == ch and e.split()[-1] == "fail"
                for e in case.events):
            # (the node-level entry may remain only if its own removal is the call that was made to fail)
            return "presence entry survives the connection"
        if c["entry"] != "-":
            return "channel entry survives in the closed client"
    if int(f["numsubs"]) != 0 or int(f["nchan"]) != 0 or f.get("extrachans"):
        return "subscription state survives the connection"
    if int(f["sessions"]) != 0 or f["keyed"] != "false":
        return "session or keyed registration survives the connection"
    if any(n for n in f["mappres"].values()):
        return "map presence entry survives the connection"
    return None


F1_MSG = "leave emitted before the join of the same subscription"
F3_MSG = "two joins for one subscription (generations attributed by trace validation)"
F2_MSG = "leave without join: server-side subscribe committed, its subscribe push failed on the closing connection, join skipped"


def oracle_c07(case):
    """every established subscription with join/leave emission: exactly one join, then (after it ended) exactly
    one leave; nothing for failed / rolled back attempts.  Evaluated on the broker call log: per channel every
    prefix has #leave <= #join (each leave can be paired with an earlier join), #join - #leave = 1 iff still
    subscribed, at most one join per attempt and none for failed attempts.  With the generations the trace
    validation attributes to the calls (case.attributed) the pairing is checked per subscription."""
    f = case.final
    joins_by = {}
    passed = {}
    for e in case.events:
        w = e.split()
        if w[0] == "pass":
            passed.setdefault(w[1], []).append(w[2])
            if w[2] == "join":
                joins_by[w[1]] = joins_by.get(w[1], 0) + 1
    failed = set()
    rets = {}
    for e in case.events:
        w = e.split()
        if w[0] in ("pass", "ev") and w[-1] in ("fail", "faildisc"):
            failed.add(w[1])
        if w[0] == "pass" and w[2] == "replyerr":
            failed.add(w[1])
        if w[0] == "done":
            rets[w[1]] = w[2]
    for a in case.spec["actors"]:
        if a["kind"] in SUBK:
            n = joins_by.get(a["id"], 0)
            if n > 1:
                return "more than one join for one subscribe attempt"
            if n and (not a["j"]):
                return "join emitted for a subscription without join/leave emission"
            if n and a["id"] in failed:
                return "join emitted for a failed subscribe attempt"
    att = getattr(case, "attributed", None)
    if att:
        seenj = set()
        for x in att:
            if x[0] == "J":
                if x[1:] in seenj:
                    return F3_MSG
                seenj.add(x[1:])
    for ch in case.spec["chans"]:
        seq = [x[0] for x in f["log"] if x[1:] == ch]
        bal = 0
        for i, x in enumerate(seq):
            bal += 1 if x == "J" else -1
            if bal < 0:
                if "J" in seq[i + 1:]:
                    return F1_MSG
                for a in case.spec["actors"]:
                    if (a["kind"] == "ssub" and a["ch"] == ch and a["j"] and rets.get(a["id"]) == "err"
                            and "dpf" in passed.get(a["id"], []) and "join" not in passed.get(a["id"], [])):
                        return F2_MSG
                return "leave without a preceding join"
        ent = f["ch"][ch]["entry"]
        live = ch in f["reported"] and "j" in ent.split("S", 1)[-1]
        nj, nl = seq.count("J"), seq.count("L")
        if nj - nl < (1 if live else 0):
            return "established subscription with join/leave emission has no join"
        if nj - nl > (1 if live else 0):
            return "ended subscription has a join but no leave"
        subs = [a for a in case.spec["actors"] if a["kind"] in SUBK and a["ch"] == ch]
        subs += [a for a in case.spec.get("connect", []) if a["ch"] == ch]
        # (OnUnsubscribe is installed by the OnConnect handler: not a reliable count while connecting)
        if subs and not case.spec.get("connect") and all(a["j"] for a in subs) and nl != f["onunsub"].get(ch, 0):
            return "number of leaves differs from the number of ended established subscriptions"
    # what observers with join/leave pushes decode must be what was published, in that order
    for k, seq in f["ojl"].items():
        ch = k.split(".", 1)[1]
        pub = "".join(x[0] for x in f["log"] if x[1:] == ch)
        if seq != pub:
            if seq.count("J") < pub.count("J"):
                return "an observer did not receive a join that was published (in a form it can decode)"
            if seq.count("L") < pub.count("L"):
                return "an observer did not receive a leave that was published (in a form it can decode)"
            return "an observer received join/leave pushes that differ from what was published"
    att = getattr(case, "attributed", None)
    if att:
        seenj, seenl = set(), set()
        for x in att:
            key = x[1:]
            if x[0] == "J":
                if key in seenj:
                    return F3_MSG
                if key in seenl:
                    return F1_MSG
                seenj.add(key)
            else:
                if key in seenl:
                    return "two leaves for one subscription (generations attributed by trace validation)"
                seenl.add(key)
                if key not in seenj:
                    if any(y == "J" + key for y in att):
                        return F1_MSG
                    return "leave without a preceding join"
    return None


ORACLES = {"C04": oracle_c04, "C05": oracle_c05, "C07": oracle_c07}


def resumed_after_timeout(case):
    """a subscribe attempt that was already in flight when a wait gate timed out passed one of its gates afterwards"""
    started, tmo = set(), False
    for e in case.events:
        w = e.split()
        if w[0] == "spawn" and w[2] in SUBK:
            if not tmo:
                started.add(w[1])
        elif w[0] == "arrive" and w[2] == "tmolog":
            tmo = True
        elif w[0] == "pass" and tmo and w[1] in started and w[2] in ("onsub", "presadd", "reply"):
            return True
    return False


def signature(prop, case, msg):
    tmo = any(" tmolog " in e for e in case.events)
    sig = {"oracle": msg, "timeout": tmo}
    if tmo:
        sig["stalled_subscribe_resumed"] = resumed_after_timeout(case)
    if msg.startswith("map presence entry survives"):
        # whose MapBroker.Publish created the surviving entry: the last one on a channel that still has an entry
        kinds = {a["id"]: a["kind"] for a in case.spec["actors"]}
        last = None
        for e in case.events:
            w = e.split()
            if w[0] == "pass" and w[2] == "mappub" and case.final["mappres"].get(w[3], 0) > 0:
                last = kinds.get(w[1], "close" if w[1].startswith("x") else "?")
        sig["late_add_by"] = last
        # the finding's mechanism: the cleanup did remove (MapBroker.Remove passed) and the add came after it
        seen_rm, rm_before_last_add = set(), False
        for e in case.events:
            w = e.split()
            if w[0] == "pass" and w[2] == "maprm":
                seen_rm.add(w[3])
            if w[0] == "pass" and w[2] == "mappub" and case.final["mappres"].get(w[3], 0) > 0:
                rm_before_last_add = w[3] in seen_rm
        sig["removed_before_late_add"] = rm_before_last_add
    return sig


# ------------------------------------------------------------------------------------------ running
def go_run_own(ctx, binary, lines, tag, timeout=3000):
    """Like ctx.go_run but with file names of its own, so that several runs may overlap."""
    import subprocess
    from vlib.core import go_env
    ops = os.path.join(ctx.tmp, f"sp_ops_{tag}.txt")
    outp = os.path.join(ctx.tmp, f"sp_out_{tag}.txt")
    open(ops, "w").write("\n".join(lines) + "\n")
    e = go_env()
    e.update({"VERIF_OPS": ops, "VERIF_OUT": outp, "VERIF_SEED": str(ctx.seed), "VERIF_TIER": ctx.tier})
    e.setdefault("GOMEMLIMIT", "4GiB")
    argv = [binary, "-test.run", f"^{TEST}$", "-test.count=1", f"-test.timeout={timeout}s"]
    crash = None
    try:
        p = subprocess.run(argv, stdout=subprocess.PIPE, stderr=subprocess.STDOUT, text=True, env=e,
                           timeout=timeout + 30, cwd=ctx.tmp)
        if p.returncode != 0:
            crash = p.stdout[-2000:]
    except subprocess.TimeoutExpired:
        crash = "timeout"
    res = open(outp).read().splitlines() if os.path.exists(outp) else []
    if os.path.exists(outp + ".hang"):
        # a scenario hit the in-harness watchdog: keep the goroutine dump for diagnosis (never a verdict)
        try:
            dump = open(outp + ".hang").read()
            keep = [b for b in dump.split("\n\n") if "centrifuge" in b and ("vsp" in b or "(*Client)" in b)]
            ctx.extra.setdefault("hang_dumps", []).append("\n\n".join(keep)[:6000])
            os.remove(outp + ".hang")
        except OSError:
            pass
    for f in (ops, outp):
        try:
            os.remove(f)
        except OSError:
            pass
    return res, crash


def go_batches(ctx, binary, fast, slow, procs=4):
    """fast ops in up to two processes; slow ops (real 5 s timeouts) spread over further processes (total <= procs)."""
    jobs = []
    nslow = min(procs - 1, len(slow)) if slow else 0
    nfast = 1 if nslow >= procs - 1 else 2
    if len(fast) < 200:
        nfast = 1
    for i in range(nslow):
        jobs.append(("s%d" % i, slow[i::nslow]))
    for i in range(nfast):
        jobs.append(("f%d" % i, fast[i::nfast]))
    outs = {}

    def work(tag, lines):
        if not lines:
            outs[tag] = ([], None)
            return
        o, crash = go_run_own(ctx, binary, lines, tag)
        # a crashed / killed process loses the rest of its batch: skip the culprit line and run the tail again (once)
        if len(o) < len(lines):
            rest = lines[len(o) + 1:]
            o2, crash2 = go_run_own(ctx, binary, rest, tag + "r") if rest else ([], None)
            o = o + ["HARNESS-ERROR process died on this schedule"] + o2
            crash = crash or crash2
        outs[tag] = (o, crash)

    ths = [threading.Thread(target=work, args=j) for j in jobs]
    for t in ths:
        t.start()
    for t in ths:
        t.join()
    res = {}
    crashes = []
    for tag, lines in jobs:
        o, crash = outs.get(tag, ([], "no result"))
        if crash:
            crashes.append(crash)
        for k, l in enumerate(lines):
            res[l] = o[k] if k < len(o) else "<missing>"
    ctx.last_go_crash = crashes[0] if crashes else None
    return res


def lean_lines(cases):
    return [("trace+obs " if c.spec.get("obs") else "trace ") + ",".join(c.spec["chans"]) + " " + c.raw for c in cases]


def run(ctx, prop):
    oracle = ORACLES[prop]
    ctx.rule = ("schedules over actors {client subscribe, server-side subscribe, client unsubscribe, server-side "
                "unsubscribe, close, connect with connect-time subscriptions, presence tick} on 1-2 channels of one connection "
                "with presence / join-leave / map-client-presence options, optionally four observer connections (JSON and "
                "Protobuf, bi- and unidirectional, join/leave pushes) that decode what they receive, and injected "
                "failures (OnSubscribe error or disconnect, Broker.Subscribe error, AddPresence error); a schedule = list "
                "of gate releases; quick: random schedules + corpus + a few real-time wait-gate timeouts; thorough: all "
                "schedules up to a depth for a template set (= crash-point enumeration of close) + random + timeouts; "
                "distinct = distinct trace; non-trivial = at least two actors interleaved")
    ctx.assumptions = [
        "one connection; other connections only matter through 'first subscriber' (Broker.Subscribe), which the harness controls",
        "positioned/recovering, map and shared-poll subscriptions, connect-time subscriptions and the presence tick are outside the model",
        "steps between two external calls of one goroutine are not individually scheduled by the harness; the Lean model "
        "quantifies over all their interleavings and the driver accepts any of them",
    ]
    orig_match = ctx._match_known
    ctx._match_known = lambda sig: orig_match(sig) or match_known(prop, sig)
    proofs_ok = ctx.lean_obligations()
    binary = ctx.go_test_binary(".", [HARNESS])
    if binary is None:
        ctx.violation("correspondence", "harness no longer builds against package centrifuge",
                      signature={"kind": "harness-build"}, replay={"log": getattr(ctx, "build_error", "")}, no_input=True)
        return
    here = os.path.dirname(os.path.abspath(__file__))
    corpus = []
    for pid in ("C04", prop):
        pth = os.path.join(os.path.dirname(here), pid, "corpus.ops")
        if os.path.exists(pth):
            corpus += [l.strip() for l in open(pth) if l.strip() and not l.startswith("#")]
    known = load_known(prop)
    if ctx.replay:
        ops = json.load(open(ctx.replay)).get("ops", [])
    else:
        ops = list(dict.fromkeys(corpus + [k for _, k in known]))
        rng = ctx.rng
        ops += [gen_fast(rng) for _ in range(ctx.scale(450, 6000))]
        ops += [gen_connect(rng) for _ in range(ctx.scale(120, 3000))]
        ops += [gen_mappres(rng) for _ in range(ctx.scale(100, 2500))]
        ops += [gen_slow(rng) for _ in range(ctx.scale(8, 150))]
        if ctx.thorough:
            for acts in enum_templates():
                for sch in enum_schedules(acts, 5 if len(acts) == 3 else 4):
                    ops.append(op(acts, ["a"], sch))
        ops = list(dict.fromkeys(ops))
    explore = [l for l in ops if l.startswith("explore ")]
    ops = [l for l in ops if l.startswith("sched ")]
    fast = [l for l in ops if not is_slow(l)]
    slow = [l for l in ops if is_slow(l)]
    ctx.log(f"running {len(fast)} fast and {len(slow)} real-time schedules")
    res = go_batches(ctx, binary, fast, slow)
    cases = [Case(l, res.get(l, "<missing>")) for l in ops]
    good = [c for c in cases if c.ok]
    for c in cases:
        if not c.ok:
            ctx.count("harness-dropped")
            if len(ctx.notes) < 5:
                ctx.notes.append("dropped: " + c.raw[:160])
    if getattr(ctx, "last_go_crash", None) and len(good) < len(cases) // 2:
        ctx.notes.append("go harness crashed: " + str(ctx.last_go_crash)[-400:])
    ctx.log(f"go harness done: {len(good)}/{len(cases)} usable traces")
    modelled = [c for c in good if not outside_model(c.spec)]
    mres = ctx.lean_run(lean_lines(modelled), timeout=3000)
    if mres is None:
        proofs_ok = False
        mres = []
    by_op = {c.op: (mres[i] if i < len(mres) else "<missing>") for i, c in enumerate(modelled)}
    model = [by_op.get(c.op, "accept jl= (scenario outside the model: oracle only)") for c in good]
    ctx.log("lean trace validation done")
    # bounded exploration of the model itself (supporting evidence, not a proof): every interleaving of the
    # listed operation sets; without timeouts no C04 / C05 violation, no broken invariant, no panic, no deadlock
    if explore:
        eres = ctx.lean_run(explore, timeout=3000) or []
        for l, r in zip(explore, eres):
            mm = re.match(r"states=(\d+) settled=(\d+) deadlocks=(\d+)(.*)", r)
            if not mm:
                ctx.notes.append("explorer: unparsable answer " + r[:100])
                continue
            ctx.count("explorer-states", int(mm.group(1)))
            ctx.count("explorer-settled-states", int(mm.group(2)))
            bad = [w.split("=")[0] for w in re.findall(r"(\w+=\[)", mm.group(4))]
            bad = [b.rstrip("=[") for b in bad]
            unexpected = [b for b in bad if b not in ("c07", "c07count")]
            if "tmo=0" in l and unexpected:
                ctx.violation("proof", f"the model itself violates {unexpected} without timeouts: {l}",
                              signature={"kind": "explorer", "bad": ",".join(unexpected)},
                              replay={"ops": [l], "model": [r[:2000]]}, no_input=True)
    for i, c in enumerate(good):
        m = model[i] if i < len(model) else ""
        if m.startswith("accept") and not outside_model(c.spec):
            mm = re.search(r"jl=(\S*)", m)
            c.attributed = [x for x in (mm.group(1).split(",") if mm else []) if x]
    seen = set()
    nviol = 0
    for i, c in enumerate(good):
        tr = ";".join(e for e in c.events if not e.startswith("obs "))
        nontriv = len([e for e in c.events if e.startswith("spawn ")]) >= 2
        ctx.record(tr, nontrivial=nontriv)
        for e in c.events:
            w = e.split()
            if w[0] == "pass":
                ctx.count("gate:" + w[2] + (":" + w[-1] if w[-1] != "ok" else ""))
            elif w[0] in ("spawn",):
                ctx.count("actor:" + w[2])
            elif w[0] == "anon":
                ctx.count("auto-close")
            elif w[0] == "hold":
                ctx.count("hold-connectMu")
        if any(" tmolog " in e for e in c.events):
            ctx.count("wait-gate-timeout")
        if c.spec.get("connect"):
            ctx.count("connect-time-subs")
        if c.spec.get("obs"):
            ctx.count("observer-connections")
        if c.spec.get("batch"):
            ctx.count("channel-batching")
        if any(a.get("m") for a in c.spec["actors"]):
            ctx.count("map-client-presence")
        ctx.count("settled:" + ("closed" if c.final["st"] == 3 else "open"))
        msg = oracle(c)
        m = model[i] if i < len(model) else "<missing>"
        if msg:
            sig = signature(prop, c, msg)
            kn = match_known(prop, sig)
            ctx.count("oracle-fail" + (":known" if kn else ""))
            key = json.dumps(sig, sort_keys=True)
            if key not in seen:
                seen.add(key)
                nviol += 1
                small = shrink(ctx, binary, c, oracle, msg) if not kn and nviol <= 3 else c
                ctx.violation("property", msg, signature=signature(prop, small, msg),
                              replay={"ops": [small.op], "impl": [small.raw], "model": [m]})
        if not m.startswith("accept"):
            ctx.count("model-reject")
            if ctx.extra.get("disagreements", 0) < 3:
                ctx.violation("correspondence", f"trace of the implementation is not a trace of the model: {m[:300]}",
                              signature={"kind": "trace-reject", "at": reject_event(m)},
                              replay={"ops": [c.op], "impl": [c.raw], "model": [m],
                                      "correspondence": "Model/SubProto.lean (driver Model/SubProtoDriver.lean) vs client.go/hub.go/node.go"},
                              no_input=(msg is None))
            ctx.extra["disagreements"] = ctx.extra.get("disagreements", 0) + 1
    ctx.traces_validated = len(modelled)
    ctx.extra["oracle_only_connect_scenarios"] = len(good) - len(modelled)
    ctx.extra.setdefault("disagreements", 0)
    ctx.extra["harness_dropped"] = len(cases) - len(good)
    # every stored finding must still reproduce (KNOWN-FINDING is printed by ctx.violation above)
    for fid, k in known:
        c = next((x for x in good if x.op == k), None)
        if c is None or oracle(c) is None:
            ctx.notes.append(f"known finding {fid} did not reproduce on this tree")
    if not ctx.replay:
        from vlib.core import REPO
        for fn, header, frag in source_shape(REPO)[:3]:
            ctx.count("source-shape-mismatch")
            ctx.violation("correspondence",
                          f"{fn}: {header.strip()}…) no longer has the shape the model mirrors (expected, in order, /{frag}/)",
                          signature={"kind": "source-shape", "func": header, "fragment": frag},
                          replay={"file": fn, "function": header, "missing": frag,
                                  "correspondence": "textual guard for code facts no schedule can probe (Model/SubProto.lean)"},
                          no_input=True)
    if cases and len(good) * 2 < len(cases):
        ctx.violation("correspondence", "harness could not drive most schedules (see notes)",
                      signature={"kind": "harness-unusable"}, replay={"notes": ctx.notes[:5]}, no_input=True)
    if not proofs_ok:
        ctx.proof_broken()


# ------------------------------------------------------------------------------------------ source shape
# The interleavings that need a goroutine switch between two lock regions of one call cannot be forced by the
# harness; for those the model is the only witness, so the few code facts the model (and the proofs) rest on and
# that no schedule can probe are checked textually: fragments that must occur, in this order, in a function body.
SHAPE = [
    ("client.go", "func (c *Client) close(", [
        r"c\.mu\.Lock\(\)", r"if c\.status == statusClosed \{", r"c\.status = statusClosed",
        r"for channel, channelContext := range c\.channels", r"c\.mu\.Unlock\(\)", r"c\.node\.removeClient\(c\)",
        r"c\.presenceMu\.Lock\(\)", r"c\.unsubscribe\(channel, unsubscribeDisconnect, &disconnect\)"]),
    ("client.go", "func (c *Client) commitSubscription(", [
        r"c\.mu\.Lock\(\)", r"resv\.subGen == ctx\.subGen", r"if reservationLost \{", r"if c\.status == statusClosed \{",
        r"delete\(c\.channels, channel\)", r"c\.node\.removeSubscription\(channel, c, ctx\.subGen\)",
        r"c\.removeSubscribePresence\(channel, ctx\.flags\)", r"close\(subscribingCh\)",
        r"ctx\.subscribingCh = nil", r"c\.channels\[channel\] = ctx", r"c\.mu\.Unlock\(\)"]),
    ("client.go", "func (c *Client) onSubscribeErrorGen(", [
        r"c\.mu\.Lock\(\)", r"owns := ok && chCtx\.subGen == expectGen", r"delete\(c\.channels, channel\)", r"c\.mu\.Unlock\(\)",
        r"c\.node\.removeSubscription\(channel, c, expectGen\)", r"close\(subscribingCh\)"]),
    ("client.go", "func (c *Client) unsubscribe(", [
        r"c\.mu\.RLock\(\)", r"targetSubGen := chCtx\.subGen", r"c\.mu\.RUnlock\(\)",
        r"if ok && !serverSide && !isSubscribed && subscribingCh != nil \{", r"case <-subscribingCh:", r"case <-tm\.C:",
        r"c\.mu\.Lock\(\)", r"exists && currentChCtx\.subGen == targetSubGen", r"delete\(c\.channels, channel\)",
        r"c\.mu\.Unlock\(\)", r"if !removedNow \{", r"c\.node\.removePresence\(channel, c\.uid, c\.user\)",
        r"c\.node\.publishLeave\(channel, info\)", r"c\.node\.removeSubscription\(channel, c, removedSubGen\)"]),
    ("client.go", "func (c *Client) Subscribe(", [
        r"c\.mu\.Lock\(\)", r"if c\.status == statusClosed \{", r"if _, ok := c\.channels\[channel\]; ok \{",
        r"subGen := c\.subGenCounter\.Add\(1\)", r"c\.mu\.Unlock\(\)", r"c\.subscribeCmd\(", r"c\.commitSubscription\(",
        r"close\(subscribingCh\)", r"c\.publishJoinAndPresence\("]),
    ("client.go", "func (c *Client) validateSubscribeRequest(", [
        r"_, ok := c\.channels\[channel\]", r"subGen := c\.subGenCounter\.Add\(1\)", r"subscribingCh: make\(chan struct\{\}\)"]),
    ("hub.go", "func (s *subShard) removeSub(", [
        r"s\.mu\.Lock\(\)", r"if subGen != anySubGen && sub\.subGen != subGen \{", r"delete\(s\.subs\[ch\], uid\)", r"\.Dec\(\)"]),
    ("hub.go", "func (s *subShard) addSub(", [
        r"s\.mu\.Lock\(\)", r"if _, exists := s\.subs\[ch\]\[uid\]; !exists \{", r"\.Inc\(\)", r"s\.subs\[ch\]\[uid\] = sub"]),
    ("node.go", "func (n *Node) addSubscription(", [
        r"mu := n\.subLock\(ch\)", r"n\.hub\.addSub\(ch, sub\)", r"n\.getBroker\(ch\)\.Subscribe\(ch\)",
        r"n\.hub\.removeSub\(ch, sub\.client, sub\.subGen\)"]),
]


def go_func_body(src, header):
    i = src.find(header)
    if i < 0:
        return None
    j = src.find("{\n", i)
    depth, k = 0, j
    while k < len(src):
        if src[k] == "{":
            depth += 1
        elif src[k] == "}":
            depth -= 1
            if depth == 0:
                return src[j:k + 1]
        k += 1
    return None


def source_shape(repo):
    """list of (file, function, missing fragment) — empty when the code still has the shape the model mirrors"""
    bad = []
    cache = {}
    for fn, header, frags in SHAPE:
        if fn not in cache:
            try:
                cache[fn] = open(os.path.join(repo, fn)).read()
            except OSError:
                cache[fn] = ""
        body = go_func_body(cache[fn], header)
        if body is None:
            bad.append((fn, header, "<function not found>"))
            continue
        pos = 0
        for fr in frags:
            m = re.compile(fr).search(body, pos)
            if not m:
                bad.append((fn, header, fr))
                break
            pos = m.end()
    return bad


def reject_event(m):
    mm = re.search(r"ev=(\w+ \w+ \w+)", m)
    return mm.group(1) if mm else m[:40]


def load_known(prop):
    here = os.path.dirname(os.path.abspath(__file__))
    pth = os.path.join(os.path.dirname(here), prop, "findings.json")
    out = []
    if os.path.exists(pth):
        for f in json.load(open(pth)).get("findings", []):
            for o in (f.get("replay") or {}).get("ops", []):
                out.append((f["id"], o))
    return out


def local_findings(prop):
    here = os.path.dirname(os.path.abspath(__file__))
    pth = os.path.join(os.path.dirname(here), prop, "findings.json")
    if os.path.exists(pth):
        return [f for f in json.load(open(pth)).get("findings", []) if f.get("status") == "known"]
    return []


def match_known(prop, sig):
    """known_findings.json is the union of props/*/findings.json (regenerated by the coordinator); the
    property's own findings.json is consulted directly so that the check does not depend on that merge."""
    es = local_findings(prop)
    try:
        es += [e for e in json.load(open("known_findings.json")).get("findings", [])
               if e.get("property") == prop and e.get("status") == "known"]
    except Exception:
        pass
    for e in es:
        m = e.get("match") or {}
        if m and all(sig.get(k) == v for k, v in m.items()):
            return e
    return None


def shrink(ctx, binary, case, oracle, msg0):
    """ddmin over the schedule, then drop actors, keeping the same oracle message."""
    from vlib.core import ddmin
    spec = case.spec

    def run1(actors, sched):
        line = op(actors, spec["chans"], sched, connect=spec.get("connect"), obs=spec.get("obs", 0), batch=spec.get("batch", 0))
        out = ctx.go_run(binary, TEST, [line], timeout=600)
        c = Case(line, out[0] if out else "<missing>")
        return c

    def fails(actors, sched):
        c = run1(actors, sched)
        return c.ok and oracle(c) == msg0
    actors, sched = spec["actors"], spec["sched"]
    if is_slow(case.op):
        return case
    try:
        if not fails(actors, sched):
            return case
        if len(sched) >= 2:
            sched = ddmin(sched, lambda s: fails(actors, s))
        for a in list(actors):
            cand = [x for x in actors if x is not a]
            if cand and fails(cand, sched):
                actors = cand
        c = run1(actors, sched)
        if c.ok and oracle(c) == msg0:
            return c
    except Exception:
        pass
    return case
